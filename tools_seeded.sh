#!/bin/bash
# usage: tools_seeded.sh <seed-id> <property> <worktree> <demo-test-filter> [cargo test args...]
# Confirms a seeded change (suite passes with it; demo fails with it and passes without), stores it under seeded/<id>/,
# then runs the property's check against /repo with the patch applied and reverts.
set -u
ID=$1; PROP=$2; WT=$3; FILTER=$4; shift 4
[ "$FILTER" = "-" ] && FILTER=""
OUT=/verif/seeded/$ID
mkdir -p $OUT
cp $WT/seeded/patch.diff $OUT/patch.diff
for f in $WT/seeded/*; do case "$f" in *.log) ;; *) cp -r "$f" $OUT/ 2>/dev/null;; esac; done
PHASE=${PHASE:-all}
export CARGO_TARGET_DIR=$WT/target CARGO_NET_OFFLINE=true
if [ "$PHASE" != check ]; then
cd $WT
git apply --check seeded/patch.diff || { echo "patch does not apply in worktree"; exit 3; }
git apply seeded/patch.diff
SUITE=$(cargo test --workspace --no-fail-fast --offline 2>&1 | grep -E "^test result" | awk '{p+=$4; f+=$6} END{print p" passed "f" failed"}')
DEMO_WITH=$(cargo test --offline "$@" $FILTER 2>&1 | grep -E "^test result" | awk '{p+=$4; f+=$6} END{print p" passed "f" failed"}')
git apply -R seeded/patch.diff
DEMO_WITHOUT=$(cargo test --offline "$@" $FILTER 2>&1 | grep -E "^test result" | awk '{p+=$4; f+=$6} END{print p" passed "f" failed"}')
echo "suite with change (incl. demo): $SUITE | demo with: $DEMO_WITH | demo without: $DEMO_WITHOUT"
printf '%s\n%s\n%s\n' "$SUITE" "$DEMO_WITH" "$DEMO_WITHOUT" > $OUT/.verify
fi
[ "$PHASE" = verify ] && exit 0
SUITE=$(sed -n 1p $OUT/.verify); DEMO_WITH=$(sed -n 2p $OUT/.verify); DEMO_WITHOUT=$(sed -n 3p $OUT/.verify)
unset CARGO_TARGET_DIR
cd /verif
git -C /repo apply $OUT/patch.diff || { echo "patch does not apply to /repo"; exit 3; }
# the evidence file must keep describing the unchanged tree: save it around the run against the seeded change
cp evidence/$PROP.json /tmp/.evidence-$PROP.json 2>/dev/null
timeout 1500 ./check $PROP > $OUT/check_with_patch.log 2>&1; RC=$?
git -C /repo checkout -- .
[ -f /tmp/.evidence-$PROP.json ] && mv /tmp/.evidence-$PROP.json evidence/$PROP.json
echo "check $PROP with patch: exit=$RC"; grep -E "^VIOLATION|^INCONCLUSIVE|^KNOWN" $OUT/check_with_patch.log | head -5
python3 - <<PY
import json
json.dump({"id":"$ID","property":"$PROP","suite_with_change":"$SUITE","demo_with_change":"$DEMO_WITH","demo_without_change":"$DEMO_WITHOUT",
 "check_exit_with_patch":$RC,"ran":["cargo test --workspace --no-fail-fast --offline (patch applied)","cargo test $* $FILTER (with/without patch)","./check $PROP (patch applied to /repo, then reverted)"]},
 open("$OUT/meta.json","w"),indent=1)
PY
