"""Library models: Try/FromResidual, Option/Result combinators, generic traits,
cosmwasm-std integers / decimals / timestamps, formatting (opaque)."""
import re
import z3

from . import smt
from .smt import is_conc, simp
from .values import *
from .interp import model, model_re, INT_BITS, NEWTYPE_BITS, strip_generics
from .layouts import type_base
from .parse import split_top, match_close

E18 = 10 ** 18


def deref(v):
    while isinstance(v, Ref):
        v = v.get()
    return v


def err(ty, var=None, payload=None):
    return En(ty, var or ty, payload or [])


def bits_of(tyname):
    t = type_base(tyname).split('::')[-1]
    if t in NEWTYPE_BITS:
        return NEWTYPE_BITS[t]
    return INT_BITS.get(t)


# ----------------------------------------------------------------- Try / FromResidual

@model_re(r'^<(std::result::)?Result<.*> as Try>::branch$')
def try_branch_result(I, c):
    r = c.args[0]
    if r.var == 'Ok':
        return En('ControlFlow', 'Continue', [r.f[0]])
    return En('ControlFlow', 'Break', [En('Result', 'Err', [r.f[0]])])


@model_re(r'^<(std::option::)?Option<.*> as Try>::branch$')
def try_branch_option(I, c):
    r = c.args[0]
    if r.var == 'Some':
        return En('ControlFlow', 'Continue', [r.f[0]])
    return En('ControlFlow', 'Break', [NONE()])


def convert_error(I, e, src_ty, dst_ty, caller):
    """E -> F via From (identity when the same type)"""
    sb = type_base(src_ty).split('::')[-1]
    db = type_base(dst_ty).split('::')[-1]
    if sb == db:
        return e
    f = I.resolve_impl(dst_ty, 'From<%s>' % src_ty, 'from', [e], caller.src if caller else None)
    if f is not None:
        return I.call_fn(f, [e])
    if db == 'StdError':
        return En('StdError', 'From' + sb, [e])
    return En(db, 'From' + sb, [e])


def _result_types(ty):
    """'Result<A, B>' -> (A, B)"""
    i = ty.find('<')
    inner = ty[i + 1:ty.rfind('>')]
    parts = split_top(inner)
    return parts if len(parts) == 2 else (None, None)


@model_re(r'as FromResidual<.*>>::from_residual$')
def from_residual(I, c):
    r = c.args[0]
    if r.var == 'None':
        return NONE()
    # self type Result<T, F>; residual Result<Infallible, E>
    _, F = _result_types(c.self_ty)
    tr = c.trait
    inner = tr[tr.find('<') + 1:tr.rfind('>')]
    _, Esrc = _result_types(inner)
    e = r.f[0]
    if F and Esrc:
        e = convert_error(I, e, Esrc, F, c.fn)
    return Err(e)


@model_re(r'^<.* as From<.*>>::from$')
def generic_from(I, c):
    src = c.trait[5:-1]
    dst = c.self_ty
    sb = type_base(src).split('::')[-1]
    db = type_base(dst).split('::')[-1]
    v = c.args[0]
    if sb == db:
        return v
    if db in NEWTYPE_BITS or db in INT_BITS:
        return v      # widening integer conversion (From is only implemented for lossless ones)
    if db == 'String' or db == 'Addr':
        return v
    f = I.resolve_impl(dst, c.trait, 'from', [v], c.fn.src if c.fn else None)
    if f is not None:
        return I.call_fn(f, [v])
    if db == 'Binary':
        return v
    raise Unsupported('From conversion %s -> %s' % (src, dst))


@model_re(r'^<.* as Into<.*>>::into$')
def generic_into(I, c):
    src = c.self_ty
    dst = c.trait[5:-1]
    sb = type_base(src).split('::')[-1]
    db = type_base(dst).split('::')[-1]
    v = c.args[0]
    if sb == db:
        return v
    if sb == 'bool' and db in INT_BITS:
        if isinstance(v, bool):
            return 1 if v else 0
        return z3.If(v, 1, 0)
    if (db in NEWTYPE_BITS or db in INT_BITS) and (sb in NEWTYPE_BITS or sb in INT_BITS):
        return v
    if db in ('String', 'Addr') and sb in ('String', 'Addr', '&str', 'str'):
        return v
    if db == 'CosmosMsg':
        return En('CosmosMsg', {'BankMsg': 'Bank', 'WasmMsg': 'Wasm'}.get(sb, sb), [v])
    f = I.resolve_impl(dst, 'From<%s>' % src, 'from', [v], c.fn.src if c.fn else None)
    if f is not None:
        return I.call_fn(f, [v])
    if db in ('ContractError', 'StdError'):
        return En(db, 'From' + sb, [v])
    raise Unsupported('Into conversion %s -> %s' % (src, dst))


@model_re(r'^<.* as (TryFrom<.*>>::try_from|TryInto<.*>>::try_into)$')
def try_conv(I, c):
    if c.method == 'try_from':
        dst = c.self_ty
    else:
        dst = c.trait[8:-1]
    b = bits_of(dst)
    if b is None:
        raise Unsupported('try conversion to ' + dst)
    v = c.args[0]
    if I.fork(v >= (1 << b)):
        return Err(err('ConversionOverflowError'))
    return Ok(v)


# ----------------------------------------------------------------- Option / Result combinators

def _opt(v):
    return deref(v)


@model_re(r'^(std::option::)?Option::(is_some|is_none)$')
def opt_is(I, c):
    o = _opt(c.args[0])
    return (o.var == 'Some') == (c.method == 'is_some')


@model_re(r'^(std::result::)?Result::(is_ok|is_err)$')
def res_is(I, c):
    o = _opt(c.args[0])
    return (o.var == 'Ok') == (c.method == 'is_ok')


@model_re(r'^(std::option::)?Option::is_some_and$')
def opt_is_some_and(I, c):
    o = c.args[0]
    if o.var == 'None':
        return False
    return I.call_value(c.args[1], [o.f[0]])


@model_re(r'^(std::option::)?Option::(unwrap|expect)$')
def opt_unwrap(I, c):
    o = c.args[0]
    if o.var == 'None':
        raise RustPanic('unwrap on None')
    return o.f[0]


@model_re(r'^(std::result::)?Result::(unwrap|expect)$')
def res_unwrap(I, c):
    o = c.args[0]
    if o.var == 'Err':
        raise RustPanic('unwrap on Err: %r' % (o.f[0],))
    return o.f[0]


@model_re(r'^(std::result::)?Result::(unwrap_err|expect_err)$')
def res_unwrap_err(I, c):
    o = c.args[0]
    if o.var == 'Ok':
        raise RustPanic('unwrap_err on Ok')
    return o.f[0]


@model_re(r'^(std::option::)?Option::unwrap_or$|^(std::result::)?Result::unwrap_or$')
def unwrap_or(I, c):
    o = c.args[0]
    if o.var in ('Some', 'Ok'):
        return o.f[0]
    return c.args[1]


@model_re(r'^(std::option::)?Option::unwrap_or_else$')
def opt_unwrap_or_else(I, c):
    o = c.args[0]
    if o.var == 'Some':
        return o.f[0]
    return I.call_value(c.args[1], [])


@model_re(r'^(std::result::)?Result::unwrap_or_else$')
def res_unwrap_or_else(I, c):
    o = c.args[0]
    if o.var == 'Ok':
        return o.f[0]
    return I.call_value(c.args[1], [o.f[0]])


def default_value(I, ty):
    t = type_base(ty).split('::')[-1]
    if t in INT_BITS or t in NEWTYPE_BITS:
        return 0
    if t == 'bool':
        return False
    if t in ('String', 'str'):
        return ''
    if t == 'Vec':
        return Vc([])
    if t == 'Option':
        return NONE()
    if t == 'Response':
        from .models_cw import new_response
        return new_response()
    if t == 'Coins':
        return St('cosmwasm_std::Coins', [Vc([])], ['coins'])
    raise Unsupported('Default for ' + ty)


def _generic_args(callee):
    """generic args of the last ::<...> group in a callee string"""
    i = callee.rfind('::<')
    if i < 0:
        return []
    j = match_close(callee, i + 2)
    return split_top(callee[i + 3:j])


def _type_args(ty):
    i = ty.find('<')
    if i < 0:
        return []
    return split_top(ty[i + 1:ty.rfind('>')])


@model_re(r'^(std::option::)?Option::unwrap_or_default$|^(std::result::)?Result::unwrap_or_default$')
def unwrap_or_default(I, c):
    o = c.args[0]
    if o.var in ('Some', 'Ok'):
        return o.f[0]
    ga = re.search(r'(Option|Result)::<(.*)>::unwrap_or_default', c.callee)
    ty = split_top(ga.group(2))[0] if ga else (c.dest_ty or '')
    return default_value(I, ty)


@model_re(r'as Default>::default$')
def default_trait(I, c):
    f = I.resolve_impl(c.self_ty, 'Default', 'default', [], c.fn.src if c.fn else None)
    if f is not None and type_base(f.ret).split('::')[-1] == type_base(c.self_ty).split('::')[-1]:
        return I.call_fn(f, [])
    return default_value(I, c.self_ty)


@model_re(r'^(std::option::)?Option::map$')
def opt_map(I, c):
    o = c.args[0]
    if o.var == 'None':
        return NONE()
    return Some(I.call_value(c.args[1], [o.f[0]]))


@model_re(r'as Fn(Mut|Once)?<.*>>::call(_mut|_once)?$')
def fn_trait_call(I, c):
    # a closure / fn item received as a generic parameter and called through the Fn traits: arguments arrive as one tuple
    tup = deref(c.args[1])
    return I.call_value(c.args[0], list(tup.f) if isinstance(tup, St) else [tup])


@model_re(r'^(std::option::)?Option::and$')
def opt_and(I, c):
    return c.args[1] if c.args[0].var == 'Some' else NONE()


@model_re(r'^(std::option::)?Option::or$')
def opt_or(I, c):
    return c.args[0] if c.args[0].var == 'Some' else c.args[1]


@model_re(r'^(std::option::)?Option::or_else$')
def opt_or_else(I, c):
    return c.args[0] if c.args[0].var == 'Some' else I.call_value(c.args[1], [])


@model_re(r'^(std::option::)?Option::xor$')
def opt_xor(I, c):
    a, b = c.args[0], c.args[1]
    if a.var == 'Some' and b.var == 'None':
        return a
    if a.var == 'None' and b.var == 'Some':
        return b
    return NONE()


@model_re(r'^(std::option::)?Option::zip$')
def opt_zip(I, c):
    a, b = c.args[0], c.args[1]
    if a.var == 'Some' and b.var == 'Some':
        return Some(St('()', [a.f[0], b.f[0]]))
    return NONE()


@model_re(r'^(std::option::)?Option::filter$')
def opt_filter(I, c):
    o = c.args[0]
    if o.var == 'None':
        return NONE()
    cell = [o.f[0]]
    if I.fork(I.call_value(c.args[1], [Ref(cell, 0)])):
        return Some(cell[0])
    return NONE()


@model_re(r'^(std::option::)?Option::and_then$')
def opt_and_then(I, c):
    o = c.args[0]
    if o.var == 'None':
        return NONE()
    return I.call_value(c.args[1], [o.f[0]])


@model_re(r'^(std::option::)?Option::(map_or)$')
def opt_map_or(I, c):
    o = c.args[0]
    if o.var == 'None':
        return c.args[1]
    return I.call_value(c.args[2], [o.f[0]])


@model_re(r'^(std::option::)?Option::map_or_else$')
def opt_map_or_else(I, c):
    o = c.args[0]
    if o.var == 'None':
        return I.call_value(c.args[1], [])
    return I.call_value(c.args[2], [o.f[0]])


@model_re(r'^(std::result::)?Result::map_or_else$')
def res_map_or_else(I, c):
    o = c.args[0]
    if o.var == 'Err':
        return I.call_value(c.args[1], [o.f[0]])
    return I.call_value(c.args[2], [o.f[0]])


@model_re(r'^(std::option::)?Option::ok_or$')
def opt_ok_or(I, c):
    o = c.args[0]
    if o.var == 'Some':
        return Ok(o.f[0])
    return Err(c.args[1])


@model_re(r'^(std::option::)?Option::ok_or_else$')
def opt_ok_or_else(I, c):
    o = c.args[0]
    if o.var == 'Some':
        return Ok(o.f[0])
    return Err(I.call_value(c.args[1], []))


@model_re(r'^(std::option::)?Option::transpose$')
def opt_transpose(I, c):
    o = c.args[0]
    if o.var == 'None':
        return Ok(NONE())
    r = o.f[0]
    if r.var == 'Ok':
        return Ok(Some(r.f[0]))
    return Err(r.f[0])


@model_re(r'^(std::option::)?Option::(as_ref|as_mut)$')
def opt_as_ref(I, c):
    r = c.args[0]
    o = deref(r)
    if o.var == 'None':
        return NONE()
    return Some(Ref(o.f, 0, c.method == 'as_mut'))


@model_re(r'^(std::option::)?Option::(cloned|copied)$')
def opt_cloned(I, c):
    o = c.args[0]
    if o.var == 'None':
        return NONE()
    return Some(clone(deref(o.f[0])))


@model_re(r'^(std::option::)?Option::take$')
def opt_take(I, c):
    r = c.args[0]
    o = r.get()
    r.set(NONE())
    return o


@model_re(r'^(std::result::)?Result::map_err$')
def res_map_err(I, c):
    o = c.args[0]
    if o.var == 'Ok':
        return o
    return Err(I.call_value(c.args[1], [o.f[0]]))


@model_re(r'^(std::result::)?Result::map$')
def res_map(I, c):
    o = c.args[0]
    if o.var == 'Err':
        return o
    return Ok(I.call_value(c.args[1], [o.f[0]]))


@model_re(r'^(std::result::)?Result::and_then$')
def res_and_then(I, c):
    o = c.args[0]
    if o.var == 'Err':
        return o
    return I.call_value(c.args[1], [o.f[0]])


@model_re(r'^(std::result::)?Result::ok$')
def res_ok(I, c):
    o = c.args[0]
    if o.var == 'Ok':
        return Some(o.f[0])
    return NONE()


@model_re(r'^(std::result::)?Result::(as_ref)$')
def res_as_ref(I, c):
    o = deref(c.args[0])
    return En('Result', o.var, [Ref(o.f, 0)])


# ----------------------------------------------------------------- generic traits

@model_re(r'as Clone>::clone$|as ToOwned>::to_owned$|as Borrow<.*>>::borrow$')
def clone_model(I, c):
    return clone(deref(c.args[0]))


@model_re(r'as Clone>::clone_from$')
def clone_from(I, c):
    dst = c.args[0]
    dst.set(clone(deref(c.args[1])))
    return UNIT


@model_re(r'as PartialEq(<.*>)?>::(eq|ne)$')
def partial_eq(I, c):
    r = I.values_eq(deref(c.args[0]), deref(c.args[1]))
    return r if c.method == 'eq' else simp(smt.Not(r))


def _num(v):
    v = deref(v)
    if isinstance(v, St) and len(v.f) == 1:
        return _num(v.f[0])
    return v


@model_re(r'as PartialOrd(<.*>)?>::(lt|le|gt|ge)$')
def partial_ord(I, c):
    a, b = _num(c.args[0]), _num(c.args[1])
    if isinstance(a, (str, SymStr)) or isinstance(b, (str, SymStr)):
        raise Unsupported('string ordering')
    m = c.method
    return simp(a < b if m == 'lt' else (a <= b if m == 'le' else (a > b if m == 'gt' else a >= b)))


@model_re(r'as Ord>::(min|max)$|^std::cmp::(min|max)$|^core::cmp::(min|max)$')
def ord_minmax(I, c):
    a, b = _num(c.args[0]), _num(c.args[1])
    return smt.Min(a, b) if c.method == 'min' else smt.Max(a, b)


@model_re(r'as Ord>::cmp$|as PartialOrd(<.*>)?>::partial_cmp$')
def ord_cmp(I, c):
    a, b = deref(c.args[0]), deref(c.args[1])
    if isinstance(a, str) and isinstance(b, str):
        r = En('Ordering', 'Less' if a < b else ('Equal' if a == b else 'Greater'))
    elif isinstance(a, (str, SymStr, Cat)) or isinstance(b, (str, SymStr, Cat)):
        from .strings import str_eq
        # order between symbolic strings: equality is decided, order is an arbitrary
        # but fixed total order on codes
        eq = str_eq(I, a, b)
        if I.fork(eq):
            r = En('Ordering', 'Equal')
        else:
            from .strings import code_of
            r = En('Ordering', 'Less') if I.fork(code_of(a) < code_of(b)) else En('Ordering', 'Greater')
    else:
        a, b = _num(a), _num(b)
        if I.fork(a < b):
            r = En('Ordering', 'Less')
        elif I.fork(smt.Eq(a, b)):
            r = En('Ordering', 'Equal')
        else:
            r = En('Ordering', 'Greater')
    if c.method == 'partial_cmp':
        return Some(r)
    return r


@model_re(r'as ToString>::to_string$')
def to_string(I, c):
    v = deref(c.args[0])
    if isinstance(v, (str, SymStr, Cat)):
        return v
    if isinstance(v, bool):
        return 'true' if v else 'false'
    if isinstance(v, int):
        t = type_base(c.self_ty).split('::')[-1]
        if t in ('Decimal', 'Decimal256'):
            return Opaque('text', ('decimal', v))
        return str(v)
    if isinstance(v, z3.ExprRef):
        return Cat((Opaque('num', v),)) if False else Opaque('text', v)
    return Opaque('text', v)


@model_re(r'as Deref>::deref$|as DerefMut>::deref_mut$|as AsRef<.*>>::as_ref$|as AsMut<.*>>::as_mut$')
def deref_model(I, c):
    r = c.args[0]
    v = deref(r)
    if isinstance(v, (str, SymStr, Cat)):
        return v          # &str as a value
    if isinstance(v, Vc):
        # &Vec<T> -> &[T]: same storage
        rr = r
        while isinstance(rr, Ref) and isinstance(rr.get(), Ref):
            rr = rr.get()
        return rr
    return r


@model('must_use', 'std::hint::must_use', 'core::hint::must_use', 'std::convert::identity', 'core::convert::identity')
def must_use(I, c):
    return c.args[0]


@model_re(r'^(std|core)::mem::(drop|forget)$|^drop$')
def mem_drop(I, c):
    return UNIT


@model_re(r'^(std|core)::mem::(replace)$')
def mem_replace(I, c):
    r = c.args[0]
    old = r.get()
    r.set(c.args[1])
    return old


@model_re(r'^(std|core)::mem::(take)$')
def mem_take(I, c):
    r = c.args[0]
    old = r.get()
    r.set(default_value(I, _generic_args(c.callee)[0]))
    return old


# ----------------------------------------------------------------- primitive ints

@model_re(r'^core::num::(checked_add|checked_sub|checked_mul|checked_div|checked_rem|checked_pow)$')
def prim_checked(I, c):
    # core::num::<impl u64>::checked_add prints as core::num::checked_add::<..>? type comes from dest
    b = _prim_bits(c)
    a, x = c.args
    op = c.method
    if op == 'checked_div' or op == 'checked_rem':
        if I.fork(smt.Eq(x, 0)):
            return NONE()
        return Some(I.ctx.fdiv(a, x) if op == 'checked_div' else I.ctx.fmod(a, x))
    if op == 'checked_pow':
        r = _pow_int(I, a, x)
    else:
        r = a + x if op == 'checked_add' else (a - x if op == 'checked_sub' else a * x)
    if I.fork(smt.Or(r < 0, r >= (1 << b))):
        return NONE()
    return Some(simp(r))


def _prim_bits(c):
    m = re.search(r'<impl ([iu](?:\d+|size))>', c.callee)
    if not m:
        m = re.search(r'([iu](?:\d+|size))', c.dest_ty or '')
    if not m:
        raise Unsupported('primitive int op without type: ' + c.callee)
    return INT_BITS[m.group(1)]


def _pow_int(I, a, n):
    if not is_conc(n):
        raise Unsupported('symbolic exponent')
    r = 1
    for _ in range(n):
        r = r * a
    return simp(r)


@model_re(r'^core::num::(saturating_sub|saturating_add|saturating_mul)$')
def prim_saturating(I, c):
    b = _prim_bits(c)
    a, x = c.args
    if c.method == 'saturating_sub':
        return smt.Max(simp(a - x), 0) if is_conc(a) and is_conc(x) else z3.If(a >= x, a - x, 0)
    r = a + x if c.method == 'saturating_add' else a * x
    mx = (1 << b) - 1
    return simp(z3.If(smt.toz(r) > mx, mx, r)) if not is_conc(r) else min(r, mx)


@model_re(r'^core::num::pow$')
def prim_pow(I, c):
    b = _prim_bits(c)
    r = _pow_int(I, c.args[0], c.args[1])
    if I.fork(r >= (1 << b)):
        raise RustPanic('attempt to multiply with overflow')
    return r


@model_re(r'^core::num::(abs_diff)$')
def prim_abs_diff(I, c):
    a, b = c.args
    return simp(z3.If(smt.toz(a) >= smt.toz(b), a - b, b - a)) if not (is_conc(a) and is_conc(b)) else abs(a - b)


@model_re(r'^core::num::(min|max)$')
def prim_minmax(I, c):
    return smt.Min(*c.args) if c.method == 'min' else smt.Max(*c.args)


# ----------------------------------------------------------------- cosmwasm Uint*

UINT = r'(Uint64|Uint128|Uint256|Uint512|U256)'


def _ubits(c):
    t = c.norm.split('::')[0] if not c.norm.startswith('<') else type_base(c.self_ty).split('::')[-1]
    t = t.split('::')[-1]
    return NEWTYPE_BITS[t], t


@model_re(r'^' + UINT + r'::(new|u64|u128|from_u128|from_uint128|from_uint256|to_be_bytes_placeholder|as_u128)$')
def uint_identity(I, c):
    v = deref(c.args[0])
    return v


@model_re(r'^' + UINT + r'::(zero|one)$')
def uint_const(I, c):
    return 0 if c.method == 'zero' else 1


@model_re(r'^<' + UINT + r' as Zero>::zero$|^<' + UINT + r' as One>::one$')
def uint_zero_one(I, c):
    return 0 if c.method == 'zero' else 1


@model_re(r'^' + UINT + r'::is_zero$|^Decimal(256)?::is_zero$')
def uint_is_zero(I, c):
    return simp(smt.Eq(deref(c.args[0]), 0))


@model_re(r'^U256::(checked_add|checked_sub|checked_mul)$')
def u256_checked(I, c):
    # `uint` crate: Option-returning
    a, x = deref(c.args[0]), deref(c.args[1])
    op = c.method
    r = simp(a + x if op == 'checked_add' else (a - x if op == 'checked_sub' else a * x))
    bad = r < 0 if op == 'checked_sub' else r >= (1 << 256)
    if I.fork(bad):
        return NONE()
    return Some(r)


@model_re(r'^U256::as_u128$')
def u256_as_u128(I, c):
    v = deref(c.args[0])
    if I.fork(v >= (1 << 128)):
        raise RustPanic('Integer overflow when casting to u128')
    return v


@model_re(r'^' + UINT + r'::(checked_add|checked_sub|checked_mul)$')
def uint_checked(I, c):
    b, t = _ubits(c)
    a, x = deref(c.args[0]), deref(c.args[1])
    op = c.method
    r = simp(a + x if op == 'checked_add' else (a - x if op == 'checked_sub' else a * x))
    bad = r < 0 if op == 'checked_sub' else r >= (1 << b)
    if I.fork(bad):
        return Err(err('OverflowError'))
    return Ok(r)


@model_re(r'^' + UINT + r'::(checked_div|checked_rem|checked_div_euclid)$')
def uint_checked_div(I, c):
    a, x = deref(c.args[0]), deref(c.args[1])
    if I.fork(smt.Eq(x, 0)):
        return Err(err('DivideByZeroError'))
    return Ok(I.ctx.fdiv(a, x) if c.method != 'checked_rem' else I.ctx.fmod(a, x))


@model_re(r'^' + UINT + r'::(saturating_sub|saturating_add|saturating_mul)$')
def uint_saturating(I, c):
    b, t = _ubits(c)
    a, x = deref(c.args[0]), deref(c.args[1])
    if c.method == 'saturating_sub':
        if is_conc(a) and is_conc(x):
            return max(a - x, 0)
        return z3.If(smt.toz(a) >= smt.toz(x), a - x, 0)
    r = simp(a + x if c.method == 'saturating_add' else a * x)
    mx = (1 << b) - 1
    if is_conc(r):
        return min(r, mx)
    return z3.If(r > mx, mx, r)


@model_re(r'^' + UINT + r'::abs_diff$')
def uint_abs_diff(I, c):
    a, x = deref(c.args[0]), deref(c.args[1])
    if is_conc(a) and is_conc(x):
        return abs(a - x)
    return z3.If(smt.toz(a) >= smt.toz(x), a - x, x - a)


@model_re(r'^' + UINT + r'::(pow|checked_pow)$')
def uint_pow(I, c):
    b, t = _ubits(c)
    r = _pow_int(I, deref(c.args[0]), c.args[1])
    if I.fork(r >= (1 << b)):
        if c.method == 'pow':
            raise RustPanic('pow overflow')
        return Err(err('OverflowError'))
    return r if c.method == 'pow' else Ok(r)


def _frac(v):
    """(numerator, denominator) of a Fraction argument: tuple (n, d) or Decimal"""
    v = deref(v)
    if isinstance(v, St):
        return deref(v.f[0]), deref(v.f[1])
    return v, E18


@model_re(r'^' + UINT + r'::(checked_mul_floor|checked_div_floor|mul_floor|div_floor|checked_mul_ceil|checked_div_ceil|mul_ceil|div_ceil)$')
def uint_frac(I, c):
    b, t = _ubits(c)
    a = deref(c.args[0])
    n, d = _frac(c.args[1])
    m = c.method
    checked = m.startswith('checked_')
    if 'div' in m:
        n, d = d, n

    def fail(kind):
        if checked:
            return Err(err('CheckedMultiplyFractionError', kind))
        raise RustPanic(m + ' ' + kind)
    if I.fork(smt.Eq(d, 0)):
        return fail('DivideByZero')
    prod = simp(a * n)
    q = I.ctx.fdiv(prod, d)
    if m.endswith('ceil'):
        rem = I.ctx.fmod(prod, d)
        q = simp(z3.If(smt.toz(rem) > 0, q + 1, q)) if not is_conc(rem) else (q + 1 if rem > 0 else q)
    if I.fork(q >= (1 << b)):
        return fail('ConversionOverflow')
    return Ok(q) if checked else q


@model_re(r'^' + UINT + r'::(multiply_ratio|checked_multiply_ratio)$')
def uint_multiply_ratio(I, c):
    b, t = _ubits(c)
    a, n, d = deref(c.args[0]), deref(c.args[1]), deref(c.args[2])
    checked = c.method.startswith('checked')
    if I.fork(smt.Eq(d, 0)):
        if checked:
            return Err(err('CheckedMultiplyRatioError', 'DivideByZero'))
        raise RustPanic('Denominator must not be zero')
    q = I.ctx.fdiv(simp(a * n), d)
    if I.fork(q >= (1 << b)):
        if checked:
            return Err(err('CheckedMultiplyRatioError', 'Overflow'))
        raise RustPanic('Multiplication overflow')
    return Ok(q) if checked else q


@model_re(r'^' + UINT + r'::full_mul$')
def uint_full_mul(I, c):
    return simp(deref(c.args[0]) * deref(c.args[1]))


@model_re(r'^<' + UINT + r' as Isqrt>::isqrt$|^U256::integer_sqrt$')
def uint_isqrt(I, c):
    return I.ctx.isqrt(deref(c.args[0]))


OPS = {'Add': 'add', 'Sub': 'sub', 'Mul': 'mul', 'Div': 'div', 'Rem': 'rem'}


@model_re(r'^<&?' + UINT + r' as (std::ops::)?(Add|Sub|Mul|Div|Rem)(<.*>)?>::(add|sub|mul|div|rem)$')
def uint_ops(I, c):
    t = type_base(c.self_ty).split('::')[-1]
    b = NEWTYPE_BITS[t]
    a, x = deref(c.args[0]), deref(c.args[1])
    m = c.method
    if m in ('div', 'rem'):
        if I.fork(smt.Eq(x, 0)):
            raise RustPanic('division by zero')
        return I.ctx.fdiv(a, x) if m == 'div' else I.ctx.fmod(a, x)
    r = simp(a + x if m == 'add' else (a - x if m == 'sub' else a * x))
    bad = r < 0 if m == 'sub' else r >= (1 << b)
    if I.fork(bad):
        raise RustPanic('attempt to %s with overflow' % m)
    return r


@model_re(r'^<T as (std::ops::)?Sub(<.*>)?>::sub$')
def generic_unsigned_sub(I, c):
    # subtraction on a generic parameter (newton_raphson_iterate<T, F>): every instantiation in the workspace is an unsigned
    # cosmwasm integer or decimal, whose `Sub` panics on underflow
    a, x = deref(c.args[0]), deref(c.args[1])
    if not (isinstance(a, (int, z3.ExprRef)) and isinstance(x, (int, z3.ExprRef))) or isinstance(a, bool):
        raise Unsupported('generic Sub on non-integer values')
    r = simp(a - x)
    if I.fork(r < 0):
        raise RustPanic('attempt to sub with overflow')
    return r


@model_re(r'^<' + UINT + r' as (std::ops::)?(AddAssign|SubAssign|MulAssign|DivAssign)(<.*>)?>::(add_assign|sub_assign|mul_assign|div_assign)$')
def uint_op_assign(I, c):
    t = type_base(c.self_ty).split('::')[-1]
    b = NEWTYPE_BITS[t]
    r0 = c.args[0]
    a, x = r0.get(), deref(c.args[1])
    m = c.method
    if m == 'div_assign':
        if I.fork(smt.Eq(x, 0)):
            raise RustPanic('division by zero')
        r0.set(I.ctx.fdiv(a, x))
        return UNIT
    r = simp(a + x if m == 'add_assign' else (a - x if m == 'sub_assign' else a * x))
    bad = r < 0 if m == 'sub_assign' else r >= (1 << b)
    if I.fork(bad):
        raise RustPanic('attempt to %s with overflow' % m)
    r0.set(r)
    return UNIT


# ----------------------------------------------------------------- Decimal / Decimal256

DEC = r'(Decimal|Decimal256)'


def _dbits(c):
    t = c.norm.split('::')[0] if not c.norm.startswith('<') else type_base(c.self_ty).split('::')[-1]
    return NEWTYPE_BITS[t], t


@model_re(r'^' + DEC + r'::(one|zero|percent|permille|bps|new|raw|atomics|numerator|denominator|decimal_places)$')
def dec_basic(I, c):
    m = c.method
    if m == 'one':
        return E18
    if m == 'zero':
        return 0
    if m == 'decimal_places':
        return 18
    if m == 'denominator':
        return E18
    v = deref(c.args[0])
    if m == 'percent':
        return simp(v * 10 ** 16)
    if m == 'permille':
        return simp(v * 10 ** 15)
    if m == 'bps':
        return simp(v * 10 ** 14)
    return v


@model_re(r'^<' + DEC + r' as Fraction<.*>>::(numerator|denominator|inv)$')
def dec_fraction(I, c):
    v = deref(c.args[0])
    if c.method == 'numerator':
        return v
    if c.method == 'denominator':
        return E18
    if I.fork(smt.Eq(v, 0)):
        return NONE()
    # inv: Decimal::from_ratio(DECIMAL_FRACTIONAL, self.0)   (1e18*1e18/v)
    return Some(I.ctx.fdiv(E18 * E18, v))


@model_re(r'^' + DEC + r'::(from_ratio|checked_from_ratio)$')
def dec_from_ratio(I, c):
    b, t = _dbits(c)
    n, d = deref(c.args[0]), deref(c.args[1])
    checked = c.method.startswith('checked')
    if I.fork(smt.Eq(d, 0)):
        if checked:
            return Err(err('CheckedFromRatioError', 'DivideByZero'))
        raise RustPanic('Denominator must not be zero')
    q = I.ctx.fdiv(simp(n * E18), d)
    if I.fork(q >= (1 << b)):
        if checked:
            return Err(err('CheckedFromRatioError', 'Overflow'))
        raise RustPanic('Multiplication overflow')
    return Ok(q) if checked else q


@model_re(r'^' + DEC + r'::from_atomics$')
def dec_from_atomics(I, c):
    b, t = _dbits(c)
    a, p = deref(c.args[0]), c.args[1]
    if not is_conc(p):
        p = I.concretize_int(p, 0, 18, 'decimal places') if I.ctx.check(p > 18) == 'unsat' else None
        if p is None:
            raise Unsupported('symbolic decimal places > 18')
    if p < 18:
        r = simp(a * 10 ** (18 - p))
        if I.fork(r >= (1 << b)):
            return Err(err('DecimalRangeExceeded'))
        return Ok(r)
    if p == 18:
        return Ok(a)
    digits = p - 18
    if 10 ** digits >= (1 << b):
        return Ok(0)
    return Ok(I.ctx.fdiv(a, 10 ** digits))


def _dec_mul(I, a, x, b):
    return I.ctx.fdiv(simp(a * x), E18)


@model_re(r'^' + DEC + r'::(checked_add|checked_sub|checked_mul|checked_div|checked_rem)$')
def dec_checked(I, c):
    b, t = _dbits(c)
    a, x = deref(c.args[0]), deref(c.args[1])
    m = c.method
    if m == 'checked_div':
        if I.fork(smt.Eq(x, 0)):
            return Err(err('CheckedFromRatioError', 'DivideByZero'))
        q = I.ctx.fdiv(simp(a * E18), x)
        if I.fork(q >= (1 << b)):
            return Err(err('CheckedFromRatioError', 'Overflow'))
        return Ok(q)
    if m == 'checked_rem':
        if I.fork(smt.Eq(x, 0)):
            return Err(err('DivideByZeroError'))
        return Ok(I.ctx.fmod(a, x))
    if m == 'checked_mul':
        r = _dec_mul(I, a, x, b)
        bad = r >= (1 << b)
    elif m == 'checked_add':
        r = simp(a + x)
        bad = r >= (1 << b)
    else:
        r = simp(a - x)
        bad = r < 0
    if I.fork(bad):
        return Err(err('OverflowError'))
    return Ok(r)


def _dec_mul_panicking(I, a, x, b):
    r = _dec_mul(I, a, x, b)
    if I.fork(r >= (1 << b)):
        raise RustPanic('attempt to multiply with overflow')
    return r


@model_re(r'^' + DEC + r'::(checked_pow|pow)$')
def dec_pow(I, c):
    b, t = _dbits(c)
    x, n = deref(c.args[0]), c.args[1]
    if not is_conc(n):
        raise Unsupported('symbolic Decimal exponent')
    checked = c.method == 'checked_pow'

    def cmul(p, q):
        r = _dec_mul(I, p, q, b)
        if I.fork(r >= (1 << b)):
            raise _PowOverflow()
        return r
    try:
        if n == 0:
            r = E18
        else:
            y = E18
            while n > 1:
                if n % 2 == 0:
                    x = cmul(x, x)
                    n //= 2
                else:
                    y = cmul(x, y)
                    x = cmul(x, x)
                    n = (n - 1) // 2
            r = _dec_mul_panicking(I, x, y, b)     # `Ok(x * y)` uses the panicking Mul
    except _PowOverflow:
        if checked:
            return Err(err('OverflowError'))
        raise RustPanic('Decimal pow overflow')
    return Ok(r) if checked else r


class _PowOverflow(Exception):
    pass


@model_re(r'^' + DEC + r'::(to_uint_floor|to_uint_ceil|floor|ceil)$')
def dec_round(I, c):
    v = deref(c.args[0])
    m = c.method
    q = I.ctx.fdiv(v, E18)
    if m == 'to_uint_floor':
        return q
    if m == 'floor':
        return simp(q * E18)
    r = I.ctx.fmod(v, E18)
    up = simp(z3.If(smt.toz(r) > 0, q + 1, q)) if not is_conc(r) else (q + 1 if r > 0 else q)
    if m == 'to_uint_ceil':
        return up
    b, t = _dbits(c)
    res = simp(up * E18)
    if I.fork(res >= (1 << b)):
        raise RustPanic('ceil overflow')
    return res


@model_re(r'^' + DEC + r'::(saturating_sub|saturating_add|saturating_mul|abs_diff|min|max)$')
def dec_misc(I, c):
    b, t = _dbits(c)
    a, x = deref(c.args[0]), deref(c.args[1])
    m = c.method
    mx = (1 << b) - 1
    if m == 'saturating_sub':
        return z3.If(smt.toz(a) >= smt.toz(x), a - x, 0) if not (is_conc(a) and is_conc(x)) else max(a - x, 0)
    if m == 'abs_diff':
        return z3.If(smt.toz(a) >= smt.toz(x), a - x, x - a) if not (is_conc(a) and is_conc(x)) else abs(a - x)
    if m == 'min':
        return smt.Min(a, x)
    if m == 'max':
        return smt.Max(a, x)
    r = simp(a + x) if m == 'saturating_add' else _dec_mul(I, a, x, b)
    return z3.If(smt.toz(r) > mx, mx, r) if not is_conc(r) else min(r, mx)


@model_re(r'^<&?' + DEC + r' as (std::ops::)?(Add|Sub|Mul|Div)(<.*>)?>::(add|sub|mul|div)$')
def dec_ops(I, c):
    t = type_base(c.self_ty).split('::')[-1]
    b = NEWTYPE_BITS[t]
    a, x = deref(c.args[0]), deref(c.args[1])
    m = c.method
    rhs = None
    if c.trait and '<' in c.trait:
        rhs = type_base(c.trait[c.trait.find('<') + 1:-1]).split('::')[-1]
    if m == 'mul':
        if rhs and rhs.startswith('Uint'):
            raise Unsupported('Decimal * Uint')
        return _dec_mul_panicking(I, a, x, b)
    if m == 'div':
        if rhs and rhs.startswith('Uint'):
            if I.fork(smt.Eq(x, 0)):
                raise RustPanic('division by zero')
            return I.ctx.fdiv(a, x)
        if I.fork(smt.Eq(x, 0)):
            raise RustPanic('Division failed - denominator must not be zero')
        q = I.ctx.fdiv(simp(a * E18), x)
        if I.fork(q >= (1 << b)):
            raise RustPanic('Division failed - multiplication overflow')
        return q
    r = simp(a + x) if m == 'add' else simp(a - x)
    bad = r >= (1 << b) if m == 'add' else r < 0
    if I.fork(bad):
        raise RustPanic('attempt to %s with overflow' % m)
    return r


@model_re(r'^<' + DEC + r' as (std::ops::)?(AddAssign|SubAssign|MulAssign|DivAssign)(<.*>)?>::(add_assign|sub_assign|mul_assign|div_assign)$')
def dec_op_assign(I, c):
    r0 = c.args[0]
    c2 = type('C', (), {})()
    c2.self_ty, c2.trait, c2.args = c.self_ty, c.trait, [r0.get(), c.args[1]]
    c2.method = c.method.split('_')[0]
    r0.set(dec_ops(I, c2))
    return UNIT


@model_re(r'^<' + DEC + r' as FromStr>::from_str$')
def dec_from_str(I, c):
    s = deref(c.args[0])
    if not isinstance(s, str):
        raise Unsupported('Decimal::from_str on symbolic string')
    m = re.match(r'^(\d+)(?:\.(\d+))?$', s)
    if not m:
        return Err(En('StdError', 'GenericErr', ['parse']))
    whole = int(m.group(1))
    frac = m.group(2) or ''
    if len(frac) > 18:
        return Err(En('StdError', 'GenericErr', ['too many fractional digits']))
    v = whole * E18 + int((frac + '0' * 18)[:18] or '0')
    b = NEWTYPE_BITS[type_base(c.self_ty).split('::')[-1]]
    if v >= (1 << b):
        return Err(En('StdError', 'GenericErr', ['overflow']))
    return Ok(v)


@model_re(r'^' + DEC + r'::sqrt$')
def dec_sqrt(I, c):
    raise Unsupported('Decimal::sqrt')


# ----------------------------------------------------------------- Timestamp

NS = 10 ** 9


@model_re(r'^Timestamp::(seconds|nanos|subsec_nanos|from_seconds|from_nanos|plus_seconds|minus_seconds|plus_nanos|minus_nanos|plus_days|plus_hours|plus_minutes)$')
def timestamp(I, c):
    m = c.method
    v = deref(c.args[0])
    lim = 1 << 64
    if m == 'seconds':
        return I.ctx.fdiv(v, NS)
    if m == 'nanos':
        return v
    if m == 'subsec_nanos':
        return I.ctx.fmod(v, NS)
    if m == 'from_nanos':
        return v
    if m == 'from_seconds':
        # const fn: Timestamp(Uint64::new(seconds_since_epoch * 1_000_000_000)) -- plain u64 multiplication
        r = simp(v * NS)
        if I.fork(r >= lim):
            raise RustPanic('attempt to multiply with overflow')
        return r
    x = c.args[1]
    mult = {'plus_seconds': NS, 'minus_seconds': NS, 'plus_nanos': 1, 'minus_nanos': 1,
            'plus_days': NS * 86400, 'plus_hours': NS * 3600, 'plus_minutes': NS * 60}[m]
    d = simp(x * mult)
    if mult != 1 and I.fork(d >= lim):
        raise RustPanic('attempt to multiply with overflow')
    r = simp(v - d) if m.startswith('minus') else simp(v + d)
    if I.fork(r < 0 if m.startswith('minus') else r >= lim):
        raise RustPanic('timestamp arithmetic overflow')
    return r


# ----------------------------------------------------------------- formatting (opaque)

@model_re(r'^(core::fmt::rt::|std::fmt::rt::)?Argument::(new_display|new_debug|new_lower_hex)$')
def fmt_argument(I, c):
    return Opaque('fmtarg', deref(c.args[0]))


@model_re(r'^(core::fmt::|std::fmt::)?Arguments::(new|new_const|new_v1|from_str|new_v1_formatted)$')
def fmt_arguments(I, c):
    return Opaque('fmtargs', [deref(a) for a in c.args])


@model('format', 'std::fmt::format', 'alloc::fmt::format')
def fmt_format(I, c):
    a = c.args[0]
    return format_args_to_string(I, a)


def format_args_to_string(I, a):
    """decode the compact template this nightly emits for format_args!:
    bytes: <len><literal bytes> ... 0xc0 <argidx>? ... 0x00 end"""
    from .strings import cat
    if not isinstance(a, Opaque) or a.tag != 'fmtargs':
        return Opaque('text', a)
    data = a.data
    tmpl = None
    argv = None
    for d in data:
        if isinstance(d, (bytes, bytearray)):
            tmpl = bytes(d)
        elif isinstance(d, Vc):
            argv = d.e
        elif isinstance(d, str):
            return d
    if tmpl is None:
        return Opaque('text', data)
    parts = []
    i = 0
    nexti = 0
    try:
        while i < len(tmpl):
            b = tmpl[i]
            if b == 0:
                break
            if b == 0xc0:
                idx = nexti
                nexti += 1
                i += 1
                arg = argv[idx] if argv is not None and idx < len(argv) else None
                v = arg.data if isinstance(arg, Opaque) and arg.tag == 'fmtarg' else arg
                parts.append(_fmt_value(v))
                continue
            if b & 0x80:
                return Opaque('text', data)     # formatted placeholder with options: not decoded
            lit = tmpl[i + 1:i + 1 + b]
            parts.append(lit.decode('utf8', 'replace'))
            i += 1 + b
    except Exception:
        return Opaque('text', data)
    flat = []
    for p in parts:
        if isinstance(p, (str, SymStr, Cat, z3.ArithRef)):
            flat.append(p)
        else:
            return Opaque('text', parts)
    return cat(flat)


def _fmt_value(v):
    v = deref(v)
    if isinstance(v, (str, SymStr, Cat)):
        return v
    if isinstance(v, bool):
        return 'true' if v else 'false'
    if isinstance(v, int):
        return str(v)
    return Opaque('text', v)
