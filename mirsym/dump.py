"""Regenerate MIR dumps from /repo's current working tree (cached by source hash)."""
import glob
import hashlib
import os
import pickle
import shutil
import subprocess
import sys
import time

REPO = os.environ.get('VERIF_REPO', '/repo')
ROOT = os.path.dirname(os.path.dirname(os.path.abspath(__file__)))
CACHE = os.environ.get('VERIF_CACHE', os.path.join(ROOT, '.cache'))
CONTRACTS = ['pool-manager', 'farm-manager', 'epoch-manager', 'fee-collector']
DEPS = ['mantra-dex-std', 'cw-utils', 'cw-ownable', 'mantra-utils']
ALL = CONTRACTS + DEPS


def _hash_files(paths):
    h = hashlib.sha256()
    for p in sorted(paths):
        h.update(p.encode())
        try:
            with open(p, 'rb') as f:
                h.update(f.read())
        except OSError:
            h.update(b'<missing>')
    return h.hexdigest()


def crate_hash(crate):
    files = [os.path.join(REPO, 'Cargo.lock'), os.path.join(REPO, 'Cargo.toml')]
    if crate in CONTRACTS:
        d = os.path.join(REPO, 'contracts', crate)
        files += glob.glob(os.path.join(d, 'src', '**', '*.rs'), recursive=True)
        files.append(os.path.join(d, 'Cargo.toml'))
    return _hash_files(files) + ':' + crate


def _run_dump(crate, out):
    env = dict(os.environ)
    env['CARGO_TARGET_DIR'] = os.path.join(CACHE, 'mir-target')
    env['CARGO_NET_OFFLINE'] = 'true'
    cmd = ['cargo', '+nightly', 'rustc', '--offline', '-p', crate, '--lib', '--',
           '-Zunpretty=mir', '-C', 'debug-assertions=off', '-C', 'overflow-checks=on']
    with open(out + '.tmp', 'wb') as fo, open(out + '.err', 'wb') as fe:
        rc = subprocess.call(cmd, cwd=REPO, env=env, stdout=fo, stderr=fe)
    return rc


def ensure_dump(crate, verbose=False):
    os.makedirs(CACHE, exist_ok=True)
    out = os.path.join(CACHE, crate + '.mir')
    hfile = out + '.hash'
    h = crate_hash(crate)
    if os.path.exists(out) and os.path.exists(hfile) and open(hfile).read() == h and os.path.getsize(out) > 0:
        return out, h, False
    t0 = time.time()
    rc = _run_dump(crate, out)
    if rc == 0 and os.path.getsize(out + '.tmp') == 0:
        # cargo considered the crate fresh: drop its fingerprint and retry
        fp = os.path.join(CACHE, 'mir-target', 'debug', '.fingerprint')
        for d in glob.glob(os.path.join(fp, crate + '-*')) + glob.glob(os.path.join(fp, crate.replace('-', '_') + '-*')):
            shutil.rmtree(d, ignore_errors=True)
        rc = _run_dump(crate, out)
    if rc != 0 or os.path.getsize(out + '.tmp') == 0:
        errtxt = open(out + '.err', errors='replace').read()[-3000:]
        raise RuntimeError('MIR dump of %s failed (rc=%s):\n%s' % (crate, rc, errtxt))
    os.replace(out + '.tmp', out)
    with open(hfile, 'w') as f:
        f.write(h)
    if verbose:
        print('[dump] %s regenerated in %.1fs' % (crate, time.time() - t0), file=sys.stderr)
    return out, h, True


def load_program(crates=None, verbose=False):
    """returns (Program, mir_hash)"""
    from .interp import Program
    crates = crates or ALL
    dumps = []
    hs = []
    for c in crates:
        p, h, _ = ensure_dump(c, verbose)
        dumps.append((c, p))
        hs.append(h)
    total = hashlib.sha256('|'.join(hs).encode()).hexdigest()[:16]
    # parsed-program cache
    src_h = _hash_files(glob.glob(os.path.join(ROOT, 'mirsym', 'parse.py')) + glob.glob(os.path.join(ROOT, 'mirsym', 'interp.py')))[:12]
    pk = os.path.join(CACHE, 'prog-%s-%s-%s.pkl' % (total, src_h, hashlib.sha1(','.join(crates).encode()).hexdigest()[:8]))
    if os.path.exists(pk):
        try:
            with open(pk, 'rb') as f:
                return pickle.load(f), total
        except Exception:
            pass
    prog = Program(dumps)
    try:
        for old in glob.glob(os.path.join(CACHE, 'prog-*.pkl')):
            if time.time() - os.path.getmtime(old) > 3600:
                os.remove(old)
        with open(pk + '.tmp', 'wb') as f:
            pickle.dump(prog, f, protocol=4)
        os.replace(pk + '.tmp', pk)
    except Exception:
        pass
    return prog, total


if __name__ == '__main__':
    t0 = time.time()
    for c in ALL:
        p, h, regen = ensure_dump(c, True)
        print(c, 'regenerated' if regen else 'cached', os.path.getsize(p))
    prog, h = load_program(verbose=True)
    print('program hash', h, 'in %.1fs' % (time.time() - t0))
