"""SMT term helpers: integers are z3 Int (or Python int when concrete) with machine
ranges handled explicitly by the caller; floor division is a fresh (q, r) pair with
the division lemma, memoised on the (n, d) term pair."""
import time
import z3

z3.set_param('model.completion', True)

BoolT = (bool, z3.BoolRef)
import os
_TRACE = bool(os.environ.get('MIRSYM_TRACE'))


def is_sym(x):
    return isinstance(x, z3.ExprRef)


def is_conc(x):
    return not isinstance(x, z3.ExprRef)


def simp(x):
    if isinstance(x, z3.ExprRef):
        x = z3.simplify(x)
        if z3.is_int_value(x):
            return x.as_long()
        if z3.is_true(x):
            return True
        if z3.is_false(x):
            return False
    return x


def tid(x):
    if isinstance(x, z3.ExprRef):
        return ('z', x.get_id())
    return ('c', x)


def And(*xs):
    out = []
    for x in xs:
        if x is True:
            continue
        if x is False:
            return False
        out.append(x)
    if not out:
        return True
    if len(out) == 1:
        return out[0]
    return z3.And(*out)


def Or(*xs):
    out = []
    for x in xs:
        if x is False:
            continue
        if x is True:
            return True
        out.append(x)
    if not out:
        return False
    if len(out) == 1:
        return out[0]
    return z3.Or(*out)


def Not(x):
    if isinstance(x, bool):
        return not x
    return z3.Not(x)


def Implies(a, b):
    return Or(Not(a), b)


def Ite(c, a, b):
    if isinstance(c, bool):
        return a if c else b
    if isinstance(a, bool) or isinstance(b, bool):
        a = z3.BoolVal(a) if isinstance(a, bool) else a
        b = z3.BoolVal(b) if isinstance(b, bool) else b
    return z3.If(c, a, b)


def Eq(a, b):
    if is_conc(a) and is_conc(b):
        return a == b
    if isinstance(a, bool):
        return b if a else Not(b)
    if isinstance(b, bool):
        return a if b else Not(a)
    r = (a == b)
    return r


def Ne(a, b):
    return Not(Eq(a, b))


def Lt(a, b):
    return a < b


def Le(a, b):
    return a <= b


def Min(a, b):
    if is_conc(a) and is_conc(b):
        return min(a, b)
    return z3.If(a <= b, a, b)


def Max(a, b):
    if is_conc(a) and is_conc(b):
        return max(a, b)
    return z3.If(a >= b, a, b)


def toz(x):
    if isinstance(x, bool):
        return z3.BoolVal(x)
    if isinstance(x, int):
        return z3.IntVal(x)
    return x


def _exact_div(n, d):
    """if n is syntactically k*t (or a sum of such) with d | k, return n/d exactly"""
    try:
        t = z3.simplify(n, som=True)
    except Exception:
        return None
    if z3.is_int_value(t):
        v = t.as_long()
        return v // d if v % d == 0 else None

    def term(x):
        if z3.is_int_value(x):
            v = x.as_long()
            return z3.IntVal(v // d) if v % d == 0 else None
        if z3.is_app(x) and x.decl().kind() == z3.Z3_OP_MUL:
            ch = x.children()
            if z3.is_int_value(ch[0]):
                k = ch[0].as_long()
                if k % d == 0:
                    rest = ch[1] if len(ch) == 2 else z3.Product(*ch[1:])
                    kk = k // d
                    return rest if kk == 1 else kk * rest
        return None
    if z3.is_app(t) and t.decl().kind() == z3.Z3_OP_ADD:
        parts = [term(x) for x in t.children()]
        if all(p is not None for p in parts):
            return z3.Sum(*parts)
        return None
    return term(t)


def _guarded_check(s, tmo_ms):
    """s.check() with a hard wall-clock guard: z3's own timeout is not always honoured on non-linear
    integer problems, so a timer interrupts the context shortly after the deadline"""
    import threading
    fired = []

    def stop():
        fired.append(1)
        try:
            z3.main_ctx().interrupt()
        except Exception:
            pass
    t = threading.Timer(tmo_ms / 1000.0 + 1.0, stop)
    t.daemon = True
    t.start()
    try:
        r = s.check()
    except z3.Z3Exception:
        r = z3.unknown
    finally:
        t.cancel()
    if fired and r != z3.sat and r != z3.unsat:
        return z3.unknown
    return r


def _mk_default():
    return z3.Solver()


def _mk_qfnia():
    return z3.SolverFor('QF_NIA')


def _factor_over_sum(n, d):
    """if d = t + (non-negative others) and n = t * rest syntactically, return rest (then n/d <= rest)"""
    if not (is_sym(n) and is_sym(d)):
        return None
    try:
        dn = z3.simplify(d)
        nn = z3.simplify(n, som=True)
    except Exception:
        return None
    if not (z3.is_app(dn) and dn.decl().kind() == z3.Z3_OP_ADD):
        return None
    if not (z3.is_app(nn) and nn.decl().kind() == z3.Z3_OP_MUL):
        return None
    nch = nn.children()
    for t in dn.children():
        if z3.is_int_value(t):
            if t.as_long() < 0:
                return None
            continue
        if z3.is_app(t) and t.decl().kind() == z3.Z3_OP_MUL:
            ch = t.children()
            if z3.is_int_value(ch[0]) and ch[0].as_long() < 0:
                return None
    for t in dn.children():
        if z3.is_int_value(t):
            continue
        for i, f in enumerate(nch):
            if f.eq(t):
                others = [x for j, x in enumerate(nch) if j != i]
                if not others:
                    return z3.IntVal(1)
                return others[0] if len(others) == 1 else z3.Product(*others)
    return None


class SolverCtx:
    """One per explored path: the incremental solver, path condition, fresh names,
    the division memo and statistics."""

    def __init__(self, stats, timeout_ms=20000, seed=0):
        self.timeout_ms = timeout_ms
        self.cur_timeout_ms = timeout_ms
        self.seed = seed
        self.last_solver = None
        self._defining = False
        self.pc = []
        self.n = 0
        self.divmemo = {}
        self.bydiv = {}
        self.qsrc = {}
        self.bounds = {}
        self.pinned = []
        self.wit = None
        self._wit_pairs = None
        self.icache = {}
        self.sqrtmemo = {}
        self.uf = {}
        self.stats = stats

    # ---- interval reasoning (cheap pre-check before calling the solver)
    def set_bounds(self, v, lo, hi):
        self.bounds[v.get_id()] = (lo, hi)
        self.pinned.append(v)

    def interval(self, t, depth=0):
        """(lo, hi) with None = unbounded; sound w.r.t. the bounds asserted at variable creation"""
        if isinstance(t, bool):
            return None
        if isinstance(t, int):
            return (t, t)
        if z3.is_int_value(t):
            v = t.as_long()
            return (v, v)
        tid_ = t.get_id()
        b = self.bounds.get(tid_)
        if b is not None:
            return b
        c = self.icache.get(tid_)
        if c is not None:
            return c[0]
        if depth > 60 or not z3.is_app(t):
            return (None, None)
        k = t.decl().kind()
        ch = t.children()
        r = (None, None)
        if k == z3.Z3_OP_ADD:
            lo, hi = 0, 0
            for x in ch:
                a, b2 = self.interval(x, depth + 1)
                lo = None if (lo is None or a is None) else lo + a
                hi = None if (hi is None or b2 is None) else hi + b2
            r = (lo, hi)
        elif k == z3.Z3_OP_SUB and len(ch) == 2:
            a1, b1 = self.interval(ch[0], depth + 1)
            a2, b2 = self.interval(ch[1], depth + 1)
            r = (None if (a1 is None or b2 is None) else a1 - b2, None if (b1 is None or a2 is None) else b1 - a2)
        elif k == z3.Z3_OP_UMINUS:
            a1, b1 = self.interval(ch[0], depth + 1)
            r = (None if b1 is None else -b1, None if a1 is None else -a1)
        elif k == z3.Z3_OP_MUL:
            lo, hi = 1, 1
            ok = True
            for x in ch:
                a, b2 = self.interval(x, depth + 1)
                if a is None or a < 0:
                    ok = False
                    break
                lo = lo * a
                hi = None if (hi is None or b2 is None) else hi * b2
            r = (lo, hi) if ok else (None, None)
        elif k == z3.Z3_OP_ITE:
            a1, b1 = self.interval(ch[1], depth + 1)
            a2, b2 = self.interval(ch[2], depth + 1)
            r = (None if (a1 is None or a2 is None) else min(a1, a2), None if (b1 is None or b2 is None) else max(b1, b2))
        self.icache[tid_] = (r, t)
        return r

    def decide(self, c, depth=0):
        """True / False when the condition is decided by intervals alone, else None"""
        if isinstance(c, bool):
            return c
        if not z3.is_app(c) or depth > 8:
            return None
        k = c.decl().kind()
        ch = c.children()
        if k == z3.Z3_OP_NOT:
            r = self.decide(ch[0], depth + 1)
            return None if r is None else (not r)
        if k == z3.Z3_OP_AND:
            res = True
            for x in ch:
                r = self.decide(x, depth + 1)
                if r is False:
                    return False
                if r is None:
                    res = None
            return res
        if k == z3.Z3_OP_OR:
            res = False
            for x in ch:
                r = self.decide(x, depth + 1)
                if r is True:
                    return True
                if r is None:
                    res = None
            return res
        if k in (z3.Z3_OP_LE, z3.Z3_OP_LT, z3.Z3_OP_GE, z3.Z3_OP_GT, z3.Z3_OP_EQ) and len(ch) == 2 and z3.is_int(ch[0]):
            a1, b1 = self.interval(ch[0])
            a2, b2 = self.interval(ch[1])
            if k == z3.Z3_OP_GE or k == z3.Z3_OP_GT:
                a1, b1, a2, b2 = a2, b2, a1, b1
                k = z3.Z3_OP_LE if k == z3.Z3_OP_GE else z3.Z3_OP_LT
            # now: ch0' (a1,b1)  <=/<  ch1' (a2,b2)
            if k == z3.Z3_OP_LE:
                if b1 is not None and a2 is not None and b1 <= a2:
                    return True
                if a1 is not None and b2 is not None and a1 > b2:
                    return False
            elif k == z3.Z3_OP_LT:
                if b1 is not None and a2 is not None and b1 < a2:
                    return True
                if a1 is not None and b2 is not None and a1 >= b2:
                    return False
            else:
                if (b1 is not None and a2 is not None and b1 < a2) or (a1 is not None and b2 is not None and a1 > b2):
                    return False
        return None

    # ---- concrete witness (concolic): an assignment known to satisfy the current pc
    def set_witness(self, values):
        """values: name -> int/bool for the input variables"""
        self.wit = dict(values)
        self._wit_pairs = None
        # the assignment must satisfy what is already asserted
        for c in self.pc:
            if self.weval(c) is not True:
                self.wit = None
                return False
        return True

    def _model(self):
        if self._wit_pairs is None:
            m = z3.Model()
            for k, v in self.wit.items():
                if isinstance(v, bool):
                    m.update_value(z3.Bool(k), z3.BoolVal(v))
                else:
                    m.update_value(z3.Int(k), z3.IntVal(v))
            self._wit_pairs = m
        return self._wit_pairs

    def weval(self, t):
        """value of t under the witness, or None"""
        if self.wit is None:
            return None
        if isinstance(t, (bool, int)):
            return t
        try:
            r = self._model().eval(t, model_completion=False)
        except Exception:
            return None
        if z3.is_int_value(r):
            return r.as_long()
        if z3.is_true(r):
            return True
        if z3.is_false(r):
            return False
        return None

    def wit_define(self, var, value):
        if self.wit is None:
            return
        if value is None:
            self.wit = None
            return
        self.wit[var.decl().name()] = value
        if self._wit_pairs is not None:
            self._wit_pairs.update_value(var, z3.IntVal(value) if not isinstance(value, bool) else z3.BoolVal(value))

    def witness_from_model(self, m):
        w = {}
        try:
            for d in m.decls():
                if d.arity() != 0:
                    continue
                v = m[d]
                if z3.is_int_value(v):
                    w[d.name()] = v.as_long()
                elif z3.is_true(v):
                    w[d.name()] = True
                elif z3.is_false(v):
                    w[d.name()] = False
        except Exception:
            self.wit = None
            return
        self.wit = w
        self._wit_pairs = None

    def fresh(self, base, sort='int'):
        self.n += 1
        name = '%s!%d' % (base, self.n)
        if sort == 'int':
            return z3.Int(name)
        b = z3.Bool(name)
        self.wit_define(b, False)
        return b

    def add(self, c):
        if c is True:
            return
        if c is False:
            self.pc.append(z3.BoolVal(False))
            self.wit = None
            return
        self.pc.append(c)
        if self.wit is not None and not self._defining:
            if self.weval(c) is not True:
                self.wit = None

    def check(self, *extra):
        """returns 'sat' | 'unsat' | 'unknown' for pc ∧ extra"""
        if len(extra) == 1 and not isinstance(extra[0], bool):
            dd = self.decide(extra[0])
            if dd is False:
                self.stats['interval_decided'] = self.stats.get('interval_decided', 0) + 1
                return 'unsat'
        ex = []
        for e in extra:
            if e is True:
                continue
            if e is False:
                return 'unsat'
            ex.append(e)
        t0 = time.time()
        if _TRACE:
            import sys
            print('[smt] check %s' % (str(ex)[:300].replace('\n', ' '),), file=sys.stderr, flush=True)
        r = self._solve(ex)
        dt = time.time() - t0
        if _TRACE:
            print('[smt]   -> %s %.2fs' % (r, dt), file=sys.stderr, flush=True)
        self.stats['queries'] = self.stats.get('queries', 0) + 1
        self.stats['solver_s'] = self.stats.get('solver_s', 0.0) + dt
        if dt > self.stats.get('max_query_s', 0.0):
            self.stats['max_query_s'] = dt
        if r == z3.sat:
            return 'sat'
        if r == z3.unsat:
            return 'unsat'
        self.stats['unknown'] = self.stats.get('unknown', 0) + 1
        return 'unknown'

    def _solve(self, ex):
        """non-incremental: a fresh solver per query decides this non-linear arithmetic
        orders of magnitude faster than z3's incremental core (measured: 0.02 s vs 11 s)"""
        tmo = self.cur_timeout_ms
        last = z3.unknown
        for mk in (_mk_default, _mk_qfnia):
            s = mk()
            s.set('timeout', tmo)
            if self.seed:
                try:
                    s.set('random_seed', self.seed & 0x7fffffff)
                except Exception:
                    pass
            s.add(*self.pc)
            if ex:
                s.add(*ex)
            if _TRACE:
                try:
                    open('/verif/scratch/last_query.smt2', 'w').write(s.to_smt2())
                except Exception:
                    pass
            r = _guarded_check(s, tmo)
            if r != z3.unknown:
                self.last_solver = s
                return r
            last = r
            tmo = max(tmo // 2, 500)
        self.last_solver = None
        return last

    def set_timeout(self, ms):
        self.cur_timeout_ms = ms

    def model(self):
        return self.last_solver.model()

    # ---- arithmetic with lemmas
    def fdiv(self, n, d):
        """floor(n/d) for n >= 0, d > 0 (caller guarantees d != 0 on this path)."""
        if is_conc(n) and is_conc(d):
            return n // d
        if is_conc(d) and d == 1:
            return n
        key = (tid(n), tid(d))
        if key in self.divmemo:
            return self.divmemo[key][0]
        # floor(floor(a/b)/c) = floor(a/(b*c)) for non-negative a and positive b, c
        if is_sym(n) and is_conc(d) and d > 0:
            src = self.qsrc.get(n.get_id())
            if src is not None:
                n0, d0 = src
                # cancel the constant: floor((k*m)/(d0*k)) = floor(m/d0)
                ex = _exact_div(n0, d)
                if ex is not None:
                    r_ = self.fdiv(ex, d0)
                    self.divmemo[key] = (r_, None, n, d)
                    return r_
                r_ = self.fdiv(n0, simp(d0 * d))
                self.divmemo[key] = (r_, None, n, d)
                return r_
        # exact division of a constant factor: (k*t)/d with d | k
        if is_conc(d) and d > 0:
            ex = _exact_div(n, d)
            if ex is not None:
                self.divmemo[key] = (ex, 0, n, d)
                return ex
        q = self.fresh('q')
        r = self.fresh('r')
        if self.wit is not None:
            nv, dv = self.weval(toz(n)), self.weval(toz(d))
            if isinstance(nv, int) and isinstance(dv, int) and dv > 0 and nv >= 0:
                self.wit_define(q, nv // dv)
                self.wit_define(r, nv % dv)
            else:
                self.wit = None
        self._defining = True
        self.add(z3.And(toz(n) == q * toz(d) + r, r >= 0, r < toz(d), q >= 0))
        nlo, nhi = self.interval(n)
        dlo, dhi = self.interval(d)
        qlo = 0 if (nlo is None or dhi is None or dhi <= 0 or nlo < 0) else nlo // dhi
        qhi = None if (nhi is None or dlo is None or dlo <= 0) else nhi // dlo
        # a*t/(t+others) <= a : the AMM core shape  y*o/(x+o)
        rest = _factor_over_sum(n, d)
        if rest is not None:
            self.add(q <= rest)
            rlo, rhi = self.interval(rest)
            if rhi is not None and (qhi is None or rhi < qhi):
                qhi = rhi
        self.set_bounds(q, qlo, qhi)
        self.set_bounds(r, 0, None if dhi is None else dhi - 1)
        if qhi is not None:
            self.add(q <= qhi)
        if qlo:
            self.add(q >= qlo)
        # valid lemmas relating divisions by the same divisor (monotonicity, shift by one divisor)
        dk = key[1]
        zn, zd = toz(n), toz(d)
        for (q2, r2, n2) in self.bydiv.get(dk, ()):
            self.add(z3.And(z3.Implies(n2 <= zn, q2 <= q), z3.Implies(zn <= n2, q <= q2),
                            z3.Implies(zn - n2 == zd, z3.And(q == q2 + 1, r == r2)),
                            z3.Implies(n2 - zn == zd, z3.And(q2 == q + 1, r == r2))))
        self.bydiv.setdefault(dk, []).append((q, r, zn))
        self.divmemo[key] = (q, r, n, d)
        self.qsrc[q.get_id()] = (n, d)
        self._defining = False
        return q

    def fmod(self, n, d):
        if is_conc(n) and is_conc(d):
            return n % d
        if is_conc(d) and d == 1:
            return 0
        q = self.fdiv(n, d)
        ent = self.divmemo.get((tid(n), tid(d)))       # fdiv answers some shapes (division by one, constants) without a memo entry
        r = ent[1] if ent is not None else None
        if r is None:
            r = simp(n - q * d)
        return r

    def isqrt(self, n):
        if is_conc(n):
            import math
            return math.isqrt(n)
        key = tid(n)
        if key in self.sqrtmemo:
            return self.sqrtmemo[key][0]
        r = self.fresh('sqrt')
        if self.wit is not None:
            nv = self.weval(n)
            if isinstance(nv, int) and nv >= 0:
                import math
                self.wit_define(r, math.isqrt(nv))
            else:
                self.wit = None
        self._defining = True
        self.add(z3.And(r >= 0, r * r <= n, (r + 1) * (r + 1) > n))
        self._defining = False
        self.sqrtmemo[key] = (r, n)
        return r

    def ufapp(self, name, args, lo=0, hi=None):
        """uninterpreted function application (congruence via z3 Function)."""
        key = (name, len(args))
        if key not in self.uf:
            self.uf[key] = z3.Function(name, *([z3.IntSort()] * (len(args) + 1)))
        f = self.uf[key]
        t = f(*[toz(a) for a in args])
        return t
