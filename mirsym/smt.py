"""SMT term helpers: integers are z3 Int (or Python int when concrete) with machine
ranges handled explicitly by the caller; floor division is a fresh (q, r) pair with
the division lemma, memoised on the (n, d) term pair."""
import time
import z3

z3.set_param('model.completion', True)

BoolT = (bool, z3.BoolRef)


def is_sym(x):
    return isinstance(x, z3.ExprRef)


def is_conc(x):
    return not isinstance(x, z3.ExprRef)


def simp(x):
    if isinstance(x, z3.ExprRef):
        x = z3.simplify(x)
        if z3.is_int_value(x):
            return x.as_long()
        if z3.is_true(x):
            return True
        if z3.is_false(x):
            return False
    return x


def tid(x):
    if isinstance(x, z3.ExprRef):
        return ('z', x.get_id())
    return ('c', x)


def And(*xs):
    out = []
    for x in xs:
        if x is True:
            continue
        if x is False:
            return False
        out.append(x)
    if not out:
        return True
    if len(out) == 1:
        return out[0]
    return z3.And(*out)


def Or(*xs):
    out = []
    for x in xs:
        if x is False:
            continue
        if x is True:
            return True
        out.append(x)
    if not out:
        return False
    if len(out) == 1:
        return out[0]
    return z3.Or(*out)


def Not(x):
    if isinstance(x, bool):
        return not x
    return z3.Not(x)


def Implies(a, b):
    return Or(Not(a), b)


def Ite(c, a, b):
    if isinstance(c, bool):
        return a if c else b
    if isinstance(a, bool) or isinstance(b, bool):
        a = z3.BoolVal(a) if isinstance(a, bool) else a
        b = z3.BoolVal(b) if isinstance(b, bool) else b
    return z3.If(c, a, b)


def Eq(a, b):
    if is_conc(a) and is_conc(b):
        return a == b
    if isinstance(a, bool):
        return b if a else Not(b)
    if isinstance(b, bool):
        return a if b else Not(a)
    r = (a == b)
    return r


def Ne(a, b):
    return Not(Eq(a, b))


def Lt(a, b):
    return a < b


def Le(a, b):
    return a <= b


def Min(a, b):
    if is_conc(a) and is_conc(b):
        return min(a, b)
    return z3.If(a <= b, a, b)


def Max(a, b):
    if is_conc(a) and is_conc(b):
        return max(a, b)
    return z3.If(a >= b, a, b)


def toz(x):
    if isinstance(x, bool):
        return z3.BoolVal(x)
    if isinstance(x, int):
        return z3.IntVal(x)
    return x


class SolverCtx:
    """One per explored path: the incremental solver, path condition, fresh names,
    the division memo and statistics."""

    def __init__(self, stats, timeout_ms=20000, seed=0):
        self.s = z3.Solver()
        self.s.set('timeout', timeout_ms)
        if seed:
            self.s.set('random_seed', seed & 0x7fffffff)
        self.timeout_ms = timeout_ms
        self.pc = []
        self.n = 0
        self.divmemo = {}
        self.bydiv = {}
        self.sqrtmemo = {}
        self.uf = {}
        self.stats = stats

    def fresh(self, base, sort='int'):
        self.n += 1
        name = '%s!%d' % (base, self.n)
        if sort == 'int':
            return z3.Int(name)
        return z3.Bool(name)

    def add(self, c):
        if c is True:
            return
        if c is False:
            self.pc.append(z3.BoolVal(False))
            self.s.add(z3.BoolVal(False))
            return
        self.pc.append(c)
        self.s.add(c)

    def check(self, *extra):
        """returns 'sat' | 'unsat' | 'unknown' for pc ∧ extra"""
        ex = []
        for e in extra:
            if e is True:
                continue
            if e is False:
                return 'unsat'
            ex.append(e)
        t0 = time.time()
        r = self.s.check(*ex)
        dt = time.time() - t0
        self.stats['queries'] = self.stats.get('queries', 0) + 1
        self.stats['solver_s'] = self.stats.get('solver_s', 0.0) + dt
        if dt > self.stats.get('max_query_s', 0.0):
            self.stats['max_query_s'] = dt
        if r == z3.sat:
            return 'sat'
        if r == z3.unsat:
            return 'unsat'
        self.stats['unknown'] = self.stats.get('unknown', 0) + 1
        return 'unknown'

    def model(self):
        return self.s.model()

    # ---- arithmetic with lemmas
    def fdiv(self, n, d):
        """floor(n/d) for n >= 0, d > 0 (caller guarantees d != 0 on this path)."""
        if is_conc(n) and is_conc(d):
            return n // d
        if is_conc(d) and d == 1:
            return n
        key = (tid(n), tid(d))
        if key in self.divmemo:
            return self.divmemo[key][0]
        q = self.fresh('q')
        r = self.fresh('r')
        self.add(z3.And(toz(n) == q * toz(d) + r, r >= 0, r < toz(d), q >= 0))
        # valid lemmas relating divisions by the same divisor (monotonicity, shift by one divisor)
        dk = key[1]
        zn, zd = toz(n), toz(d)
        for (q2, r2, n2) in self.bydiv.get(dk, ()):
            self.add(z3.And(z3.Implies(n2 <= zn, q2 <= q), z3.Implies(zn <= n2, q <= q2),
                            z3.Implies(zn - n2 == zd, z3.And(q == q2 + 1, r == r2)),
                            z3.Implies(n2 - zn == zd, z3.And(q2 == q + 1, r == r2))))
        self.bydiv.setdefault(dk, []).append((q, r, zn))
        self.divmemo[key] = (q, r)
        return q

    def fmod(self, n, d):
        if is_conc(n) and is_conc(d):
            return n % d
        self.fdiv(n, d)
        return self.divmemo[(tid(n), tid(d))][1]

    def isqrt(self, n):
        if is_conc(n):
            import math
            return math.isqrt(n)
        key = tid(n)
        if key in self.sqrtmemo:
            return self.sqrtmemo[key]
        r = self.fresh('sqrt')
        self.add(z3.And(r >= 0, r * r <= n, (r + 1) * (r + 1) > n))
        self.sqrtmemo[key] = r
        return r

    def ufapp(self, name, args, lo=0, hi=None):
        """uninterpreted function application (congruence via z3 Function)."""
        key = (name, len(args))
        if key not in self.uf:
            self.uf[key] = z3.Function(name, *([z3.IntSort()] * (len(args) + 1)))
        f = self.uf[key]
        t = f(*[toz(a) for a in args])
        return t
