"""debug runner: python3-vt -m mirsym.runner C18 [name-substring]"""
import importlib, json, sys, time
from .dump import load_program
from .engine import explore
from .obligations.common import REGISTRY

def main():
    pid = sys.argv[1]
    sub = sys.argv[2] if len(sys.argv) > 2 else ''
    importlib.import_module('mirsym.obligations.' + pid.lower())
    t0 = time.time()
    prog, h = load_program()
    print('program loaded %.1fs hash %s' % (time.time() - t0, h))
    for ob in REGISTRY[pid]:
        if sub and sub not in ob.name:
            continue
        opts = dict(ob.opts); opts['debug'] = True
        r = explore(prog, ob.name, ob.fn, opts, declare_covers=ob.covers)
        print(json.dumps(r.summary()))
        for k, c in r.checks.items():
            for m in c.models[:1]:
                print('   CEX', k, m)

if __name__ == '__main__':
    main()
