"""Shared builders for obligations: Deps/Env/MessageInfo values, registration."""
import z3

from .. import smt
from ..smt import simp
from ..values import *
from ..models_cw import mk, mk_enum, coin_v

U64 = (1 << 64) - 1
U128 = (1 << 128) - 1
E18 = 10 ** 18
NS = 10 ** 9

REGISTRY = {}     # property id -> list of Obligation


class Obligation:
    def __init__(self, pid, name, fn, tier='quick', entries=(), statement='', bounds='', abstractions=(),
                 covers=(), opts=None, expect='unsat', kind='K', finding=None, replay=None):
        self.pid = pid
        self.name = name
        self.fn = fn
        self.tier = tier
        self.entries = list(entries)
        self.statement = statement
        self.bounds = bounds
        self.abstractions = list(abstractions)
        self.covers = list(covers)
        self.opts = opts or {}
        self.expect = expect
        self.kind = kind
        self.finding = finding
        self.replay = replay


def obligation(pid, name, **kw):
    def deco(fn):
        REGISTRY.setdefault(pid, []).append(Obligation(pid, name, fn, **kw))
        return fn
    return deco


def share(src_pid, dst_pid, prefix, select=lambda name: True):
    """register obligations of another property under `dst_pid` as well (a clause stated by both properties)"""
    have = set(o.name for o in REGISTRY.get(dst_pid, []))
    for o in list(REGISTRY.get(src_pid, [])):
        name = '%s.%s' % (prefix, o.name)
        if select(o.name) and name not in have:
            REGISTRY.setdefault(dst_pid, []).append(Obligation(dst_pid, name, o.fn, tier=o.tier, entries=o.entries, statement=o.statement, bounds=o.bounds,
                                                               abstractions=o.abstractions, covers=o.covers, opts=o.opts, expect=o.expect, kind=o.kind,
                                                               finding=o.finding, replay=o.replay))


def storage(ckey):
    return Opaque('storage', ckey)


def deps(ckey='self'):
    """Deps / DepsMut value: (storage, api, querier)"""
    return St('Deps', [storage(ckey), Opaque('api', ckey), St('QuerierWrapper', [Opaque('querier', ckey)])],
              ['storage', 'api', 'querier'])


def env(time_nanos, contract_addr='contract', height=1):
    block = mk('cosmwasm_std::BlockInfo', height=height, time=time_nanos, chain_id='chain')
    cinfo = mk('cosmwasm_std::ContractInfo', address=contract_addr)
    return mk('cosmwasm_std::Env', block=block, transaction=NONE(), contract=cinfo)


def message_info(sender, funds):
    return mk('cosmwasm_std::MessageInfo', sender=sender, funds=Vc(list(funds)))


def is_ok(r):
    return isinstance(r, En) and r.var == 'Ok'


def is_err(r):
    return isinstance(r, En) and r.var == 'Err'
