"""C14 — single-asset deposit equals swap-half-then-deposit and leaves no residue."""
import json
import z3

from .. import smt
from ..smt import simp
from ..values import *
from ..chain import Chain, bank_of
from .common import *
from .pm import *
from .c04 import CONTRACTS, swap_msg
from .c02 import provide_msg, MINLIQ
from .c17 import world, LPD, HINT as HINT17, _replay_switch
from .fm import FM as FMA, set_ownership

HINT = dict(HINT17)
HINT.update({'amount': 10 ** 6 + 1, 'liquidity_tolerance': 5 * 10 ** 17})


def _ob_equiv(odd, with_liq_tol=False, with_receiver=False):
    def s(I):
        b, res, amt, amt_b = world(I, (True, True, True))
        hint = dict(HINT, amount=10 ** 6 + (1 if odd else 0))
        I.set_hint(hint)
        liq = Some(I.sym('liquidity_tolerance', hi=E18)) if with_liq_tol else None
        par = I.ctx.fmod(amt, 2)
        I.assume(smt.Eq(par, 1 if odd else 0))
        half = I.ctx.fdiv(amt, 2)
        ch = Chain(I, CONTRACTS)
        start = ch.snapshot()
        pre_lp = b.get('user', LPD['p1'])
        # (i) the real chain: execute -> self Swap sub-message -> reply -> self ProvideLiquidity
        recv = Some('friend') if with_receiver else None
        who_lp = 'friend' if with_receiver else 'user'
        if with_receiver:
            I.assume(I.addr_valid('friend'))
        st1, _ = ch.execute('user', PM, provide_msg('p1', swap_slip=Some(5 * 10 ** 17), liq_slip=clone(liq) if liq else None, receiver=recv), [coin_v('uA', amt)])
        after1 = ch.snapshot()
        observe_pool(I, 'p1')
        observe_bank(I, bank_of(I), [('user', 'uA'), ('user', 'uB'), ('user', LPD['p1']), ('friend', LPD['p1']), (PM, 'uA'), (PM, 'uB')])
        buffer_left = 'single_side_liquidity_provision_buffer' in I.world.store(PM)
        ch.restore(start)
        b = bank_of(I)
        # (ii) manual: swap half, then deposit that half plus the proceeds
        ch2 = Chain(I, CONTRACTS)
        pre_b = b.get('user', 'uB')
        st2a, _ = ch2.execute('user', PM, swap_msg('uB', 'p1', max_slippage=Some(5 * 10 ** 17)), [coin_v('uA', half)])
        st2b = 'err'
        if st2a == 'ok':
            got = simp(b.get('user', 'uB') - pre_b)
            if I.fork(got > 0):
                st2b, _ = ch2.execute('user', PM, provide_msg('p1', liq_slip=clone(liq) if liq else None, receiver=clone(recv) if recv else None),
                                      [coin_v('uA', half), coin_v('uB', got)])
        I.observe('status', 'ok' if st1 == 'ok' else 'err')
        if st1 != 'ok':
            I.outcome('chain_rejected')
            I.check('rejected_chain_leaves_no_buffer', not buffer_left)
            return
        I.cover('ok', hint)
        I.check('no_temporary_bookkeeping_left', not buffer_left)
        I.check('manual_sequence_also_succeeds', st2a == 'ok' and st2b == 'ok')
        if not (st2a == 'ok' and st2b == 'ok'):
            return
        b1 = after1[1]
        p1a = [v for k, v in after1[0][PM]['pools'][1] if k[0] == 'p1'][0]
        p1b = get_pool(I, 'p1')
        I.check('same_reserves', smt.And(*[smt.Eq(x, y) for x, y in zip(reserves_of(p1a), reserves_of(p1b))]))
        I.check('same_lp_minted_to_sender', smt.Eq(b1.get('user', LPD['p1']), b.get('user', LPD['p1'])))
        if with_receiver:
            I.check('same_lp_minted_to_the_chosen_receiver', smt.Eq(b1.get('friend', LPD['p1']), b.get('friend', LPD['p1'])))
            I.check('sender_receives_no_lp_when_a_receiver_is_chosen', smt.Eq(b1.get('user', LPD['p1']), pre_lp))
        I.check('same_fees_paid', smt.And(smt.Eq(b1.get('fee_collector', 'uB'), b.get('fee_collector', 'uB')), smt.Eq(b1.supply.get('uB', 0), b.supply.get('uB', 0))))
        I.check('leftover_is_amount_mod_2', smt.Eq(b1.get('user', 'uA'), b.get('user', 'uA') - par))
        I.check('no_proceeds_left_with_contract_or_user', smt.Eq(b1.get('user', 'uB'), b.get('user', 'uB')))
    return s


def _replay_equiv(m, with_receiver=False):
    from .c02 import _mints
    fees = fees_of_model(m)
    steps = [{'op': 'set_pool', 'pool': pool_json('p1', ['uA', 'uB'], [6, 6], [m['x1'], m['y1']], 'constant_product', fees)},
             {'op': 'set_pool', 'pool': pool_json('p2', ['uB', 'uC'], [6, 6], [m['x2'], m['y2']], 'constant_product', fees)}]
    tot = m['amount'] + m['amount_b']
    steps += _mints([('pool_manager', [('uA', m['x1']), ('uB', m['y1'] + m['x2']), ('uC', m['y2']), (LPD['p1'], MINLIQ), (LPD['p2'], MINLIQ)]),
                     ('user', [('uA', tot), ('uB', tot), ('uC', tot), (LPD['p1'], m['S1'] - MINLIQ), (LPD['p2'], m['S2'] - MINLIQ)])])
    msg = {'provide_liquidity': {'pool_identifier': 'p1', 'swap_max_slippage': '0.5'}}
    if with_receiver:
        msg['provide_liquidity']['receiver'] = '@friend'
    if 'liquidity_tolerance' in m:
        msg['provide_liquidity']['liquidity_max_slippage'] = dec_j(m['liquidity_tolerance'])
    steps.append({'op': 'execute', 'contract': 'pool_manager', 'sender': 'user', 'funds': [coin_j('uA', m['amount'])], 'msg': msg})
    return {'setup': {}, 'steps': steps}, len(steps) - 1


for _odd, _tol, _rcv in ((False, False, False), (True, False, False), (False, True, False), (True, False, True)):
    obligation('C14', 'R1.single_asset_equals_swap_then_deposit_%s%s%s' % ('odd' if _odd else 'even', '_with_liquidity_tolerance' if _tol else '', '_to_receiver' if _rcv else ''),
               entries=['execute', 'provide_liquidity', 'query_simulation', 'swap::commands::swap', 'reply', 'validate_asset_balance'], kind='R',
               statement='single-asset deposit of amount a into a two-asset pool == Swap(a/2) then ProvideLiquidity([a/2, proceeds]) by the same sender: same reserves, '
                         'same LP minted to the sender, same fees; the only difference is the indivisible unit of an odd amount; the temporary buffer is removed',
               bounds='funded constant-product pool, reserves / supply / amount symbolic (%s amount)' % ('odd' if _odd else 'even'),
               covers=['ok'], replay=generic_replay(lambda m, r=_rcv: _replay_equiv(m, r)))(_ob_equiv(_odd, _tol, _rcv))


def _ob_refusals(I):
    kind = ['empty_pool', 'three_assets', 'lock_for_other'][I.choose(3, 'kind')]
    I.set_hint(HINT)
    pm_config(I)
    b = bank_of(I)
    # three assets: amounts small against the reserves, so that a native run of an (erroneously) accepted deposit does not stop at a tolerance
    amt = I.sym('amount', lo=10 ** 3 if kind == 'three_assets' else 2, hi=10 ** 5 if kind == 'three_assets' else U128 // 4)
    b.set('user', 'uA', amt)
    if kind == 'empty_pool':
        put_pool(I, pool_info('p1', ['uA', 'uB'], [6, 6], [0, 0], xyk(), pool_fee(0, 0, 0)))
        msg = provide_msg('p1')
    elif kind == 'three_assets':
        put_pool(I, pool_info('p1', ['uA', 'uB', 'uC'], [6, 6, 6], [10 ** 6, 10 ** 6, 10 ** 6], stable(100), pool_fee(0, 0, 0)))
        b.set(PM, 'uA', 10 ** 6); b.set(PM, 'uB', 10 ** 6); b.set(PM, 'uC', 10 ** 6)
        b.supply[LPD['p1']] = 3 * 10 ** 6
        msg = provide_msg('p1')
    else:
        put_pool(I, pool_info('p1', ['uA', 'uB'], [6, 6], [10 ** 9, 10 ** 9], xyk(), pool_fee(0, 0, 0)))
        b.set(PM, 'uA', 10 ** 9); b.set(PM, 'uB', 10 ** 9)
        b.supply[LPD['p1']] = 10 ** 9
        I.assume(I.addr_valid('victim'))
        msg = provide_msg('p1', receiver=Some('victim'), unlocking=Some(86400))
    ch = Chain(I, CONTRACTS)
    st, _ = ch.execute('user', PM, msg, [coin_v('uA', amt)])
    I.observe('status', 'ok' if st == 'ok' else 'err')
    I.cover('refused', HINT)
    I.check('single_asset_deposit_refused_' + kind, st != 'ok')
    I.check('no_buffer_left', 'single_side_liquidity_provision_buffer' not in I.world.store(PM))


def _replay_refusals(m):
    kind = ['empty_pool', 'three_assets', 'lock_for_other'][m['_choices']['kind']]
    steps = [{'op': 'mint', 'to': 'user', 'funds': [coin_j('uA', m['amount'])]}]
    msg = {'provide_liquidity': {'pool_identifier': 'p1'}}
    if kind == 'empty_pool':
        steps.append({'op': 'set_pool', 'pool': pool_json('p1', ['uA', 'uB'], [6, 6], [0, 0], 'constant_product', (0, 0, 0, []))})
    elif kind == 'three_assets':
        steps.append({'op': 'set_pool', 'pool': pool_json('p1', ['uA', 'uB', 'uC'], [6, 6, 6], [10 ** 6] * 3, {'stable_swap': {'amp': 100}}, (0, 0, 0, []))})
        steps.append({'op': 'mint', 'to': 'pool_manager', 'funds': [coin_j(d, 10 ** 6) for d in ('uA', 'uB', 'uC')] + [coin_j(LPD['p1'], MINLIQ)]})
        steps.append({'op': 'mint', 'to': 'holder', 'funds': [coin_j(LPD['p1'], 3 * 10 ** 6 - MINLIQ)]})
    else:
        steps.append({'op': 'set_pool', 'pool': pool_json('p1', ['uA', 'uB'], [6, 6], [10 ** 9, 10 ** 9], 'constant_product', (0, 0, 0, []))})
        steps.append({'op': 'mint', 'to': 'pool_manager', 'funds': [coin_j('uA', 10 ** 9), coin_j('uB', 10 ** 9), coin_j(LPD['p1'], MINLIQ)]})
        steps.append({'op': 'mint', 'to': 'holder', 'funds': [coin_j(LPD['p1'], 10 ** 9 - MINLIQ)]})
        msg['provide_liquidity'].update({'receiver': '@victim', 'unlocking_duration': 86400})
    steps.append({'op': 'execute', 'contract': 'pool_manager', 'sender': 'user', 'funds': [coin_j('uA', m['amount'])], 'msg': msg})
    return {'setup': {}, 'steps': steps}, len(steps) - 1


from .stable3 import ABSTRACT as _ABS3, NOTE as _NOTE3   # noqa: E402

obligation('C14', 'S1.single_asset_refusals', entries=['execute', 'provide_liquidity'], kind='S',
           statement='a single-asset deposit is refused on an empty pool, on a pool with more than two assets, and when it would lock LP for a receiver other than the sender',
           bounds='three case families, amount symbolic (three assets: a stableswap pool with reserves 1e6 each, 1e3 <= amount <= 1e5)', covers=['refused'],
           abstractions=[_NOTE3 + ' (reached only if the refusal is missing)'], opts={'abstract': _ABS3},
           replay=generic_replay(_replay_refusals))(_ob_refusals)

from . import lockdep   # noqa: E402,F401  (cross-contract locked-deposit obligations registered for this property)
