"""C06 / C07 — rewards: per-epoch weight share, never more than emitted, schedule independence.
Epoch numbers are concrete (bounded window), amounts / weights / rates are symbolic."""
import json
import z3

from .. import smt
from ..smt import simp
from ..values import *
from ..chain import Chain, bank_of
from .common import *
from .fm import *

E = 10          # current epoch in the scenarios
HINT = {'wa': 10 ** 6, 'wa2': 2 * 10 ** 6, 'wb': 3 * 10 ** 6, 'rate': 10 ** 5, 'claimed0': 0, 'pos_a': 10 ** 6, 'pos_b': 3 * 10 ** 6, 'others': 10 ** 6,
        'fm_reward_balance': 10 ** 9, 'rate2': 7 * 10 ** 4}


def carry(snaps, e):
    """weight in effect at epoch e from a list of (epoch, weight) snapshots (latest snapshot at or before e)"""
    best = None
    for ep, w in snaps:
        if ep <= e and (best is None or ep > best[0]):
            best = (ep, w)
    return 0 if best is None else best[1]


def expected_reward(I, rate, fstart, fend, user_snaps, total_snaps, first, until):
    """independent ledger: sum over epochs of floor(rate * w_user(e) / w_total(e))"""
    tot = 0
    terms = []
    for e in range(max(first, fstart), min(until, fend - 1) + 1):
        wu = carry(user_snaps, e)
        wt = carry(total_snaps, e)
        if isinstance(wt, int) and wt == 0:
            continue
        t = I.ctx.fdiv(simp(rate * wu), wt)        # totals are >= 1 by construction of the scenario
        terms.append((e, t))
        tot = simp(tot + t)
    return tot, terms


class Scn:
    """two users (alice, bob) on LP1, one or two farms paying uusd; concrete epochs"""

    def __init__(self, I, alice_second=None, bob_from=6, last_a=None, last_b=None, farms=((4, 12),), alice_from=3, cursor_gap=False, epoch=None, max_concurrent=2):
        self.I = I
        self.E = E if epoch is None else epoch
        # representation invariant of the weight history: a claim up to epoch L leaves the claimant's earliest
        # snapshot exactly at L (sync_address_lp_weight_history), so no snapshot older than the cursor exists.
        # cursor_gap: the cursor L comes from a claim made while alice only held a position on ANOTHER LP token; her
        # first snapshot on this LP token is at alice_from > L + 1 (position opened later): nothing is due for the gap
        if last_a is not None and not cursor_gap:
            alice_from = last_a
        if last_b is not None:
            bob_from = last_b
        I.set_hint(HINT)
        fm_config(I, max_concurrent=max_concurrent)
        set_epoch(I, self.E, now_s=self.E * DAY + 5)
        set_ownership(I, FM, 'admin')
        b = bank_of(I)
        self.b = b
        wa = I.sym('wa', lo=1, hi=U128 // 64)
        wb = I.sym('wb', lo=1, hi=U128 // 64)
        oth = I.sym('others', lo=0, hi=U128 // 64)       # weight of all other users (constant over the window)
        self.a_snaps = [(alice_from, wa)]
        if alice_second is not None:
            wa2 = I.sym('wa2', lo=1, hi=U128 // 64)
            self.a_snaps.append((alice_second, wa2))
        self.b_snaps = [(bob_from, wb)]
        # total weight snapshots: whenever somebody changed
        events = sorted(set([e for e, _ in self.a_snaps] + [e for e, _ in self.b_snaps]))
        self.t_snaps = []
        for e in events:
            self.t_snaps.append((e, simp(oth + carry(self.a_snaps, e) + carry(self.b_snaps, e))))
        for e, w in self.a_snaps:
            put_weight(I, 'alice', LP1, e, w)
        for e, w in self.b_snaps:
            put_weight(I, 'bob', LP1, e, w)
        for e, w in self.t_snaps:
            put_weight(I, FM, LP1, e, w)
        pa = I.sym('pos_a', lo=1, hi=U128 // 64)
        pb = I.sym('pos_b', lo=1, hi=U128 // 64)
        put_position(I, position('u-a', LP1, pa, DAY, 'alice', None))
        put_position(I, position('u-b', LP1, pb, DAY, 'bob', None))
        if cursor_gap:
            put_position(I, position('u-a2', LP2, 1000, DAY, 'alice', None))
            put_weight(I, 'alice', LP2, last_a, 1000)
            put_weight(I, FM, LP2, last_a, 1000)
            b.set(FM, LP2, 1000)
        if last_a is not None:
            put_last_claimed(I, 'alice', last_a)
        if last_b is not None:
            put_last_claimed(I, 'bob', last_b)
        self.last = {'alice': last_a, 'bob': last_b}
        self.first = {'alice': (last_a + 1) if last_a is not None else alice_from, 'bob': (last_b + 1) if last_b is not None else bob_from}
        self.snaps = {'alice': self.a_snaps, 'bob': self.b_snaps}
        self.farms = []
        for k, (fs, fe) in enumerate(farms):
            rate = I.sym('rate' if k == 0 else 'rate%d' % (k + 1), lo=1, hi=U128 // 64)
            claimed0 = I.sym('claimed0' if k == 0 else 'claimed0_%d' % (k + 1), hi=U128)
            funded = simp(rate * (fe - fs))
            I.assume(funded <= U128)
            I.assume(claimed0 <= funded)
            put_farm(I, farm('f-%d' % (k + 1), 'fowner', LP1, 'uusd', funded, claimed0, rate, fs, fe))
            self.farms.append({'id': 'f-%d' % (k + 1), 'rate': rate, 'start': fs, 'end': fe, 'funded': funded, 'claimed0': claimed0})
        bal = I.sym('fm_reward_balance', hi=U128)
        I.assume(bal >= sum((f['funded'] - f['claimed0']) for f in self.farms))
        b.set(FM, 'uusd', bal)
        self.chain = Chain(I, CONTRACTS_FM)

    def expected(self, user, until, first=None):
        tot = 0
        per_farm = []
        for f in self.farms:
            t, terms = expected_reward(self.I, f['rate'], f['start'], f['end'], self.snaps[user], self.t_snaps,
                                       self.first[user] if first is None else first, until)
            per_farm.append(t)
            tot = simp(tot + t)
        return tot, per_farm

    def claim(self, user, until=None):
        return self.chain.execute(user, FM, claim_msg(until), [])

    def query_rewards(self, user, until=None):
        I = self.I
        msg = mk_enum('mantra_dex_std::farm_manager::QueryMsg', 'Rewards', address=user, until_epoch=NONE() if until is None else Some(until))
        I.assume(I.addr_valid(user))
        st, r = I.try_call('query', [deps(FM), env(I.world.meta['time_nanos'], FM), msg], CRF)
        if st == 'panic' or is_err(r):
            return 'err', None
        return 'ok', r.f[0].data


def replay_scn(alice_second, last_a, farms=((4, 12),), bob_from=6, alice_from=3, last_b=None, actions=None, cursor_gap=False, epoch=None, max_concurrent=2):
    """native scenario reproducing Scn from a model; actions: list of (user, until|None)"""
    from .pm import generic_replay

    def build(m):
        af = last_a if (last_a is not None and not cursor_gap) else alice_from
        bf = last_b if last_b is not None else bob_from
        a_snaps = [(af, m['wa'])] + ([(alice_second, m['wa2'])] if alice_second is not None else [])
        b_snaps = [(bf, m['wb'])]
        events = sorted(set([e for e, _ in a_snaps] + [e for e, _ in b_snaps]))
        t_snaps = [(e, m['others'] + carry(a_snaps, e) + carry(b_snaps, e)) for e in events]
        weights = [('alice', LP1, e, w) for e, w in a_snaps] + [('bob', LP1, e, w) for e, w in b_snaps] + [('farm_manager', LP1, e, w) for e, w in t_snaps]
        fl = []
        for k, (fs, fe) in enumerate(farms):
            rate = m['rate' if k == 0 else 'rate%d' % (k + 1)]
            c0 = m['claimed0' if k == 0 else 'claimed0_%d' % (k + 1)]
            fl.append(('f-%d' % (k + 1), 'fowner', LP1, 'uusd', rate * (fe - fs), c0, rate, fs, fe))
        lc = ([('alice', last_a)] if last_a is not None else []) + ([('bob', last_b)] if last_b is not None else [])
        positions = [('u-a', LP1, m['pos_a'], DAY, 'alice', None), ('u-b', LP1, m['pos_b'], DAY, 'bob', None)]
        mints = [('uusd', m['fm_reward_balance']), (LP1, m['pos_a'] + m['pos_b'])]
        if cursor_gap:
            positions.append(('u-a2', LP2, 1000, DAY, 'alice', None))
            weights += [('alice', LP2, last_a, 1000), ('farm_manager', LP2, last_a, 1000)]
            mints.append((LP2, 1000))
        steps = fm_state_steps(None, positions=positions,
                               farms=fl, weights=weights, last_claimed=lc, now_s=(E if epoch is None else epoch) * DAY + 5,
                               mints=[('farm_manager', mints)])
        for (user, until) in (actions or [('alice', None)]):
            steps.append({'op': 'execute', 'contract': 'farm_manager', 'sender': user, 'funds': [], 'msg': {'claim': {'until_epoch': until}}})
        sc = {'setup': {'time_nanos': '0', 'epoch': {'genesis': '0', 'duration': str(DAY)}, 'farm': {'max_concurrent_farms': max_concurrent}}, 'steps': steps}
        return sc, len(steps) - 1
    return generic_replay(build)


def observe_claim_state(I, sc, users=('alice', 'bob')):
    b = sc.b
    for u in users:
        I.observe('bal:%s:uusd' % u, b.get(u, 'uusd'))
        snaps = dict(weights_of(I, u, LP1))
        for e in range(1, getattr(sc, 'E', E) + 2):
            I.observe('snap:%s:%s:%d' % (u, LP1, e), snaps.get(e))
        I.observe('last:%s' % u, last_claimed_of(I, u))
    I.observe('bal:farm_manager:uusd', b.get(FM, 'uusd'))


def coins_total(coins, denom):
    tot = 0
    for c in coins.e:
        if c.get('denom') == denom:
            tot = simp(tot + c.get('amount'))
    return tot


def _ob_l3(alice_second, last_a, until):
    def s(I):
        sc = Scn(I, alice_second=alice_second, last_a=last_a)
        b = sc.b
        pre = b.snapshot()
        U = E if until is None else until
        exp, per_farm = sc.expected('alice', U)
        f0 = sc.farms[0]
        st, resp = sc.claim('alice', until)
        if st != 'ok':
            I.outcome('rejected')
            # the only legitimate refusal: the farm cannot pay what is owed (claimed0 too close to the budget)
            I.check('claim_refused_only_if_farm_exhausted', exp + f0['claimed0'] > f0['funded'])
            return
        I.cover('ok', HINT)
        I.observe('status', 'ok')
        observe_claim_state(I, sc)
        paid = simp(b.get('alice', 'uusd') - pre.get('alice', 'uusd'))
        I.check('pays_sum_of_epoch_shares', smt.Eq(paid, exp))
        I.check('never_more_than_emitted', paid <= f0['rate'] * (min(U, f0['end'] - 1) - max(sc.first['alice'], f0['start']) + 1))
        f = get_farm(I, 'f-1')
        I.check('claimed_amount_grows_by_payment', smt.Eq(f.get('claimed_amount'), f0['claimed0'] + paid))
        I.check('claimed_within_budget', f.get('claimed_amount') <= f0['funded'])
        I.check('cursor_set_to_until', last_claimed_of(I, 'alice') == U)
        I.check('contract_debited_exactly', smt.Eq(b.get(FM, 'uusd'), pre.get(FM, 'uusd') - paid))
        # weights in effect after the claimed span are unchanged
        after = weights_of(I, 'alice', LP1)
        for e in range(U, E + 2):
            I.check('weights_after_until_unchanged', smt.Eq(carry(after, e), carry(sc.a_snaps, e)))
        I.check('bob_untouched', smt.And(*[smt.Eq(carry(weights_of(I, 'bob', LP1), e), carry(sc.b_snaps, e)) for e in range(1, E + 2)]))
    return s


for _sec, _last, _until in ((None, None, None), (8, None, None), (8, 5, None), (8, 5, 9), (8, None, 7), (8, 5, 6), (None, 5, 5)):
    obligation('C07', 'L3.claim_pays_epoch_shares_snap%s_last%s_until%s' % (_sec, _last, _until),
               entries=['execute', 'claim', 'calculate_rewards', 'compute_start_from_epoch_for_address', 'compute_address_weights', 'compute_contract_weights',
                        'compute_farm_emissions', 'sync_address_lp_weight_history', 'until_epoch_or_current', 'get_farms_by_lp_denom'],
               kind='S', tier='quick',
               statement='claim pays exactly sum over epochs last+1..until of floor(emission * user weight in effect / total weight in effect) for the active farm, '
                         'advances the cursor to until, raises claimed_amount by the payment, and leaves the weights in effect after `until` (and other users) unchanged',
               bounds='current epoch 10; user snapshots at epoch 3%s; another user from epoch 6; farm epochs [4,12); last claimed %s; until_epoch %s; '
                      'weights, rate, budgets symbolic' % ('' if _sec is None else ' and %d' % _sec, _last, _until),
               covers=['ok'], replay=replay_scn(_sec, _last, actions=[('alice', _until)]))(_ob_l3(_sec, _last, _until))


def _ob_query_equals_claim(alice_second, last_a, until):
    def s(I):
        sc = Scn(I, alice_second=alice_second, last_a=last_a, farms=((4, 12), (2, 9)))
        b = sc.b
        qs, resp = sc.query_rewards('alice', until)
        pre = b.snapshot()
        st, r = sc.claim('alice', until)
        if st != 'ok':
            I.outcome('claim_rejected')
            return
        I.cover('ok', HINT)
        I.observe('status', 'ok')
        observe_claim_state(I, sc, users=('alice',))
        I.check('query_succeeds_when_claim_does', qs == 'ok')
        if qs != 'ok':
            return
        paid = simp(b.get('alice', 'uusd') - pre.get('alice', 'uusd'))
        I.check('query_total_equals_claim_payment', smt.Eq(coins_total(resp.get('total_rewards'), 'uusd'), paid))
    return s


for _sec, _last, _until in ((8, None, None), (8, 5, 9), (None, None, 7)):
    obligation('C07', 'Q1.rewards_query_equals_claim_snap%s_last%s_until%s' % (_sec, _last, _until),
               entries=['query', 'query_rewards', 'calculate_rewards', 'execute', 'claim'], kind='R',
               statement='from the same state the Rewards query total equals what an immediate Claim pays (two farms paying the same denom)',
               bounds='as L3, two farms with epochs [4,12) and [2,9)', covers=['ok'],
               replay=replay_scn(_sec, _last, farms=((4, 12), (2, 9)), actions=[('alice', _until)]))(_ob_query_equals_claim(_sec, _last, _until))


def _ob_schedule(alice_second, last_a, k):
    def s(I):
        sc = Scn(I, alice_second=alice_second, last_a=last_a)
        b = sc.b
        start = sc.chain.snapshot()
        pre = b.get('alice', 'uusd')
        # schedule 1: one claim at the end
        st1, _ = sc.claim('alice', None)
        once = simp(b.get('alice', 'uusd') - pre)
        sc.chain.restore(start)
        b = bank_of(I)
        sc.b = b
        # schedule 2: claim up to epoch k, then claim the rest
        st2a, _ = sc.claim('alice', k)
        st2b, _ = sc.claim('alice', None)
        split = simp(b.get('alice', 'uusd') - pre)
        if st1 != 'ok':
            I.outcome('single_claim_rejected')
            return
        I.cover('ok', HINT)
        I.observe('status', 'ok' if st2b == 'ok' else 'err')
        observe_claim_state(I, sc, users=('alice',))
        I.check('split_claims_succeed_when_single_does', st2a == 'ok' and st2b == 'ok')
        if st2a == 'ok' and st2b == 'ok':
            I.check('same_total_for_any_split', smt.Eq(split, once))
    return s


for _sec, _last, _k in ((8, None, 7), (8, None, 8), (8, 5, 6), (None, None, 5), (8, None, 3)):
    obligation('C07', 'R1.schedule_independence_snap%s_last%s_split%s' % (_sec, _last, _k),
               entries=['execute', 'claim', 'calculate_rewards', 'sync_address_lp_weight_history'], kind='R',
               statement='claim(until_epoch = k) followed by claim() pays the same total as a single claim(), for the same state',
               bounds='as L3; split epoch %s' % _k, covers=['ok'],
               replay=replay_scn(_sec, _last, actions=[('alice', _k), ('alice', None)]))(_ob_schedule(_sec, _last, _k))


def _ob_query_equals_claim_expired(until):
    def s(I):
        # long after the farm ended: it has EXPIRED (end + ~30.4 days passed) but nobody closed it; unclaimed epochs are still paid by Claim
        sc = Scn(I, alice_second=None, bob_from=4, farms=((2, 6),), epoch=45)
        b = sc.b
        qs, resp = sc.query_rewards('alice', until)
        pre = b.snapshot()
        st, r = sc.claim('alice', until)
        if st != 'ok':
            I.outcome('claim_rejected')
            return
        I.cover('ok', HINT)
        I.observe('status', 'ok')
        I.observe('bal:alice:uusd', b.get('alice', 'uusd'))
        I.observe('last:alice', last_claimed_of(I, 'alice'))
        I.check('query_succeeds_when_claim_does', qs == 'ok')
        if qs != 'ok':
            return
        paid = simp(b.get('alice', 'uusd') - pre.get('alice', 'uusd'))
        I.check('query_total_equals_claim_payment', smt.Eq(coins_total(resp.get('total_rewards'), 'uusd'), paid))
        exp, _ = sc.expected('alice', 45 if until is None else until)
        I.check('expired_farm_still_pays_its_epoch_shares', smt.Eq(paid, exp))
    return s


for _until in (None, 4):
    obligation('C07', 'Q2.rewards_query_equals_claim_expired_farm_until%s' % _until, entries=['query', 'query_rewards', 'calculate_rewards', 'is_farm_expired', 'execute', 'claim'], kind='R',
               statement='a farm that has expired but was never closed: the Rewards query still equals what an immediate Claim pays, which is the sum of the epoch shares',
               bounds='current epoch 45, farm [2,6) (expired since epoch ~38), user snapshots at 3, another user from 4; until_epoch %s; weights / rate symbolic' % _until, covers=['ok'],
               replay=replay_scn(None, None, farms=((2, 6),), bob_from=4, epoch=45, actions=[('alice', _until)]))(_ob_query_equals_claim_expired(_until))


# eleven farms on the LP token (the owner raised max_concurrent_farms to 12): only the one listed LAST by identifier (f-9 sorts after f-10, f-11) is active
_MANY_FARMS = tuple([(20, 25)] * 8 + [(4, 12)] + [(20, 25)] * 2)


def _ob_many_farms(until):
    def s(I):
        sc = Scn(I, alice_second=8, farms=_MANY_FARMS, max_concurrent=12)
        b = sc.b
        for fx in sc.farms:
            I.assume(smt.Eq(fx['claimed0'], 0))
        pre = b.snapshot()
        qs, resp = sc.query_rewards('alice', until)
        U = E if until is None else until
        exp, per_farm = sc.expected('alice', U)
        st, _ = sc.claim('alice', until)
        I.cover('ok', HINT)
        I.observe('status', 'ok' if st == 'ok' else 'err')
        I.observe('bal:alice:uusd', b.get('alice', 'uusd'))
        I.observe('last:alice', last_claimed_of(I, 'alice'))
        observe_farm(I, 'f-9')
        I.check('claim_succeeds', st == 'ok')
        if st != 'ok':
            return
        paid = simp(b.get('alice', 'uusd') - pre.get('alice', 'uusd'))
        I.check('pays_the_epoch_shares_of_every_active_farm', smt.Eq(paid, exp))
        I.check('active_farm_books_its_shares', smt.Eq(get_farm(I, 'f-9').get('claimed_amount'), per_farm[8]))
        I.check('query_succeeds_when_claim_does', qs == 'ok')
        if qs == 'ok':
            I.check('query_total_equals_claim_payment', smt.Eq(coins_total(resp.get('total_rewards'), 'uusd'), paid))
    return s


for _until in (None, 7):
    obligation('C07', 'L7.eleven_farms_active_one_listed_last_until%s' % _until, entries=['execute', 'claim', 'calculate_rewards', 'get_farms_by_lp_denom', 'query', 'query_rewards'], kind='S',
               statement='eleven farms on the LP token (max_concurrent_farms = 12), ten not yet started and the active one last in identifier order (beyond a default page of the '
                         'farm listing): Claim and the Rewards query pay its epoch shares',
               bounds='current epoch 10; farm f-9 [4,12), ten farms [20,25); user snapshots at 3 and 8, another user from 6; until_epoch %s; weights / rates symbolic' % _until, covers=['ok'],
               replay=replay_scn(8, None, farms=_MANY_FARMS, max_concurrent=12, actions=[('alice', _until)]))(_ob_many_farms(_until))


def _ob_farm_order(farms, until):
    def s(I):
        # farms are visited in identifier order, which need not be their start order: f-1 starts after `until`, f-2 is active throughout
        sc = Scn(I, alice_second=8, farms=farms)
        b = sc.b
        for fx in sc.farms:
            I.assume(smt.Eq(fx['claimed0'], 0))
        pre = b.snapshot()
        qs, resp = sc.query_rewards('alice', until)
        exp_u, per_farm_u = sc.expected('alice', until)
        st1, _ = sc.claim('alice', until)
        paid_u = simp(b.get('alice', 'uusd') - pre.get('alice', 'uusd'))
        booked_u = [get_farm(I, fx['id']).get('claimed_amount') for fx in sc.farms]
        st2, _ = sc.claim('alice', None)
        I.cover('ok', HINT)
        I.observe('status', 'ok' if st2 == 'ok' else 'err')
        observe_claim_state(I, sc, users=('alice',))
        for fx in sc.farms:
            observe_farm(I, fx['id'])
        I.check('claims_succeed', st1 == 'ok' and st2 == 'ok')
        if st1 != 'ok' or st2 != 'ok':
            return
        I.check('bounded_claim_pays_epoch_shares_of_every_active_farm', smt.Eq(paid_u, exp_u))
        for k, fx in enumerate(sc.farms):
            I.check('each_farm_books_its_own_shares', smt.Eq(booked_u[k], per_farm_u[k]))
        I.check('query_succeeds_when_claim_does', qs == 'ok')
        if qs == 'ok':
            I.check('query_total_equals_claim_payment', smt.Eq(coins_total(resp.get('total_rewards'), 'uusd'), paid_u))
        exp_all, _ = sc.expected('alice', E)
        total = simp(b.get('alice', 'uusd') - pre.get('alice', 'uusd'))
        I.check('split_claims_pay_the_full_total', smt.Eq(total, exp_all))
    return s


for _farms, _until in ((((9, 14), (4, 12)), 7), (((6, 9), (2, 12)), 5)):
    obligation('C07', 'L6.farm_listed_first_starts_after_until_%d_%d_until%d' % (_farms[0][0], _farms[0][1], _until),
               entries=['execute', 'claim', 'calculate_rewards', 'get_farms_by_lp_denom', 'query', 'query_rewards'], kind='S',
               statement='two farms on the LP token, the one listed first (by identifier) starting only after until_epoch: the bounded claim and the Rewards query pay the epoch '
                         'shares of the active farm, each farm books exactly its own shares, and a following unbounded claim completes the same total as a single claim',
               bounds='current epoch 10; farms f-1 [%d,%d) and f-2 [%d,%d); user snapshots at 3 and 8, another user from 6; until_epoch %d; weights / rates symbolic'
                      % (_farms[0] + _farms[1] + (_until,)), covers=['ok'],
               replay=replay_scn(8, None, farms=_farms, actions=[('alice', _until), ('alice', None)]))(_ob_farm_order(_farms, _until))


# ---------------------------------------------------------------- thorough tier: every shape of the epoch window
# For a fixed claim cursor and farm span, ALL positions of a second weight snapshot (none, or any epoch after the first up to the
# pending one at E+1) and ALL `until_epoch` values (none, or any epoch from the cursor to the current one) are enumerated; weights,
# rates and budgets stay symbolic.

def _shape(I, last_a):
    af = 3 if last_a is None else last_a
    sec_opts = [None] + list(range(af + 1, E + 2))
    lo = af if last_a is None else last_a
    until_opts = [None] + list(range(lo, E + 1))
    sec = sec_opts[I.choose(len(sec_opts), 'second_snapshot')]
    until = until_opts[I.choose(len(until_opts), 'until')]
    return sec, until


def _shape_of_model(m, last_a):
    af = 3 if last_a is None else last_a
    sec_opts = [None] + list(range(af + 1, E + 2))
    lo = af if last_a is None else last_a
    until_opts = [None] + list(range(lo, E + 1))
    ch = m.get('_choices', {})
    return sec_opts[ch.get('second_snapshot', 0)], until_opts[ch.get('until', 0)]


def _ob_l3_family(last_a, farm):
    def s(I):
        sec, until = _shape(I, last_a)
        sc = Scn(I, alice_second=sec, last_a=last_a, farms=(farm,))
        b = sc.b
        pre = b.snapshot()
        U = E if until is None else until
        exp, per_farm = sc.expected('alice', U)
        f0 = sc.farms[0]
        st, resp = sc.claim('alice', until)
        I.outcome('shape:sec%s_until%s' % (sec, until))
        if st != 'ok':
            I.check('claim_refused_only_if_farm_exhausted', exp + f0['claimed0'] > f0['funded'])
            return
        I.cover('ok', HINT)
        I.observe('status', 'ok')
        observe_claim_state(I, sc)
        paid = simp(b.get('alice', 'uusd') - pre.get('alice', 'uusd'))
        I.check('pays_sum_of_epoch_shares', smt.Eq(paid, exp))
        span = min(U, f0['end'] - 1) - max(sc.first['alice'], f0['start']) + 1
        I.check('never_more_than_emitted', paid <= f0['rate'] * max(span, 0))
        f = get_farm(I, 'f-1')
        I.check('claimed_amount_grows_by_payment', smt.Eq(f.get('claimed_amount'), f0['claimed0'] + paid))
        I.check('claimed_within_budget', f.get('claimed_amount') <= f0['funded'])
        I.check('cursor_set_to_until', last_claimed_of(I, 'alice') == U)
        I.check('contract_debited_exactly', smt.Eq(b.get(FM, 'uusd'), pre.get(FM, 'uusd') - paid))
        after = weights_of(I, 'alice', LP1)
        for e in range(U, E + 2):
            I.check('weights_after_until_unchanged', smt.Eq(carry(after, e), carry(sc.a_snaps, e)))
        I.check('bob_untouched', smt.And(*[smt.Eq(carry(weights_of(I, 'bob', LP1), e), carry(sc.b_snaps, e)) for e in range(1, E + 2)]))
    return s


def _replay_family(last_a, farm, two_claims=False):
    def rb(label, m):
        sec, until = _shape_of_model(m, last_a)
        actions = [('alice', until), ('alice', None)] if two_claims else [('alice', until)]
        return replay_scn(sec, last_a, farms=(farm,), actions=actions)(label, m)
    return rb


def _ob_schedule_family(last_a, farm):
    def s(I):
        sec, k = _shape(I, last_a)
        if k is None:
            raise Infeasible()
        sc = Scn(I, alice_second=sec, last_a=last_a, farms=(farm,))
        b = sc.b
        start = sc.chain.snapshot()
        pre = b.get('alice', 'uusd')
        st1, _ = sc.claim('alice', None)
        once = simp(b.get('alice', 'uusd') - pre)
        sc.chain.restore(start)
        b = bank_of(I)
        sc.b = b
        st2a, _ = sc.claim('alice', k)
        st2b, _ = sc.claim('alice', None)
        split = simp(b.get('alice', 'uusd') - pre)
        if st1 != 'ok':
            I.outcome('single_claim_rejected')
            return
        I.cover('ok', HINT)
        I.observe('status', 'ok' if st2b == 'ok' else 'err')
        observe_claim_state(I, sc, users=('alice',))
        I.check('split_claims_succeed_when_single_does', st2a == 'ok' and st2b == 'ok')
        if st2a == 'ok' and st2b == 'ok':
            I.check('same_total_for_any_split', smt.Eq(split, once))
    return s


for _farm in ((4, 12), (2, 9), (6, 8)):
    for _last in (None, 3, 4, 5, 6, 7, 8, 9):
        obligation('C07', 'L4.claim_all_shapes_last%s_farm%d_%d' % (_last, _farm[0], _farm[1]),
                   entries=['execute', 'claim', 'calculate_rewards', 'compute_start_from_epoch_for_address', 'compute_address_weights', 'compute_contract_weights',
                            'compute_farm_emissions', 'sync_address_lp_weight_history', 'until_epoch_or_current', 'get_farms_by_lp_denom'],
                   kind='S', tier='thorough',
                   statement='as L3, for EVERY position of a second weight snapshot (none / any epoch after the first up to the pending one at E+1) and EVERY until_epoch '
                             '(none / any epoch from the cursor to the current epoch)',
                   bounds='current epoch 10; claim cursor %s; farm epochs [%d,%d); another user from epoch 6; weights, rate, budgets symbolic' % (_last, _farm[0], _farm[1]),
                   covers=['ok'], replay=_replay_family(_last, _farm), opts={'max_paths': 60000})(_ob_l3_family(_last, _farm))
    for _last in (None, 4, 6, 8):
        obligation('C07', 'R2.schedule_all_splits_last%s_farm%d_%d' % (_last, _farm[0], _farm[1]),
                   entries=['execute', 'claim', 'calculate_rewards', 'sync_address_lp_weight_history'], kind='R', tier='thorough',
                   statement='claim(until_epoch = k) followed by claim() pays the same total as a single claim(), for every split epoch k and every position of a second snapshot',
                   bounds='current epoch 10; claim cursor %s; farm epochs [%d,%d)' % (_last, _farm[0], _farm[1]), covers=['ok'],
                   replay=_replay_family(_last, _farm, two_claims=True), opts={'max_paths': 60000})(_ob_schedule_family(_last, _farm))


# ---------------------------------------------------------------- a user with positions in two LP tokens (the claim cursor is per user, not per LP)

def _ob_two_lps(last_a, s2):
    def s(I):
        sc = Scn(I, alice_second=None, last_a=last_a)
        b = sc.b
        # alice is among the first stakers of LP2: the contract's first-ever LP2 snapshot is at epoch s2 (after her claim cursor)
        wc = I.sym('w_lp2', lo=1, hi=U128 // 64)
        oth2 = I.sym('others_lp2', lo=0, hi=U128 // 64)
        pc = I.sym('pos_c', lo=1, hi=U128 // 64)
        put_position(I, position('u-c', LP2, pc, DAY, 'alice', None))
        # ... and a second LP1 position whose identifier sorts AFTER the LP2 one: her positions interleave the two LP tokens
        # (u-a: LP1, u-c: LP2, u-d: LP1); her LP1 weight `wa` covers both LP1 positions
        pd = I.sym('pos_d', lo=1, hi=U128 // 64)
        put_position(I, position('u-d', LP1, pd, DAY, 'alice', None))
        put_weight(I, 'alice', LP2, s2, wc)
        put_weight(I, FM, LP2, s2, simp(wc + oth2))
        rate2 = I.sym('rate2', lo=1, hi=U128 // 64)
        c2 = I.sym('claimed0_2', hi=U128)
        funded2 = simp(rate2 * 8)
        I.assume(c2 <= funded2)
        put_farm(I, farm('f-2', 'fowner', LP2, 'uom', funded2, c2, rate2, 4, 12))
        bal2 = I.sym('fm_reward_balance_2', hi=U128)
        I.assume(bal2 >= funded2 - c2)
        b.set(FM, 'uom', bal2)
        pre = b.snapshot()
        exp1, _ = sc.expected('alice', E)
        exp2, _ = expected_reward(I, rate2, 4, 12, [(s2, wc)], [(s2, simp(wc + oth2))], sc.first['alice'], E)
        qs, qr = sc.query_rewards('alice', None)
        st, resp = sc.claim('alice', None)
        if st != 'ok':
            I.outcome('rejected')
            I.check('claim_refused_only_if_a_farm_is_exhausted',
                    smt.Or(exp1 + sc.farms[0]['claimed0'] > sc.farms[0]['funded'], exp2 + c2 > funded2))
            return
        I.cover('ok', dict(HINT, w_lp2=10 ** 6, others_lp2=10 ** 6, pos_c=10 ** 6, pos_d=10 ** 6, claimed0_2=0, fm_reward_balance_2=10 ** 9))
        I.observe('status', 'ok')
        I.observe('bal:alice:uusd', b.get('alice', 'uusd'))
        I.observe('bal:alice:uom', b.get('alice', 'uom'))
        I.observe('last:alice', last_claimed_of(I, 'alice'))
        I.check('first_lp_pays_sum_of_epoch_shares', smt.Eq(b.get('alice', 'uusd') - pre.get('alice', 'uusd'), exp1))
        I.check('second_lp_pays_sum_of_epoch_shares', smt.Eq(b.get('alice', 'uom') - pre.get('alice', 'uom'), exp2))
        I.check('query_equals_claim_per_denom', qs == 'ok' and smt.And(smt.Eq(coins_total(qr.get('total_rewards'), 'uusd'), exp1),
                                                                         smt.Eq(coins_total(qr.get('total_rewards'), 'uom'), exp2)))
        I.check('farm_books_exactly_the_payment', smt.And(smt.Eq(get_farm(I, 'f-1').get('claimed_amount'), sc.farms[0]['claimed0'] + exp1),
                                                          smt.Eq(get_farm(I, 'f-2').get('claimed_amount'), c2 + exp2)))
    return s


def _replay_two_lps(last_a, s2):
    from .pm import generic_replay

    def build(m):
        af = last_a if last_a is not None else 3
        a_snaps = [(af, m['wa'])]
        b_snaps = [(6, m['wb'])]
        events = sorted(set([af, 6]))
        t_snaps = [(e, m['others'] + carry(a_snaps, e) + carry(b_snaps, e)) for e in events]
        weights = [('alice', LP1, e, w) for e, w in a_snaps] + [('bob', LP1, e, w) for e, w in b_snaps] + [('farm_manager', LP1, e, w) for e, w in t_snaps]
        weights += [('alice', LP2, s2, m['w_lp2']), ('farm_manager', LP2, s2, m['w_lp2'] + m['others_lp2'])]
        fl = [('f-1', 'fowner', LP1, 'uusd', m['rate'] * 8, m['claimed0'], m['rate'], 4, 12),
              ('f-2', 'fowner', LP2, 'uom', m['rate2'] * 8, m['claimed0_2'], m['rate2'], 4, 12)]
        lc = [('alice', last_a)] if last_a is not None else []
        steps = fm_state_steps(None, positions=[('u-a', LP1, m['pos_a'], DAY, 'alice', None), ('u-b', LP1, m['pos_b'], DAY, 'bob', None),
                                                ('u-c', LP2, m['pos_c'], DAY, 'alice', None), ('u-d', LP1, m['pos_d'], DAY, 'alice', None)],
                               farms=fl, weights=weights, last_claimed=lc, now_s=E * DAY + 5,
                               mints=[('farm_manager', [('uusd', m['fm_reward_balance']), ('uom', m['fm_reward_balance_2']), (LP1, m['pos_a'] + m['pos_b'] + m['pos_d']),
                                                        (LP2, m['pos_c'])])])
        steps.append({'op': 'execute', 'contract': 'farm_manager', 'sender': 'alice', 'funds': [], 'msg': {'claim': {'until_epoch': None}}})
        sc = {'setup': {'time_nanos': '0', 'epoch': {'genesis': '0', 'duration': str(DAY)}, 'farm': {'max_concurrent_farms': 2}}, 'steps': steps}
        return sc, len(steps) - 1
    return generic_replay(build)


for _pid, _pre, _last, _s2 in [('C07', 'L5', l, s_) for l, s_ in ((5, 9), (5, 6), (5, 5), (None, 8), (7, 10), (3, 11))] + [('C06', 'B3', 5, 9), ('C06', 'B3', None, 8)]:
    obligation(_pid, '%s.two_lp_tokens_last%s_second_lp_from%s' % (_pre, _last, _s2),
               entries=['execute', 'claim', 'calculate_rewards', 'compute_start_from_epoch_for_address', 'compute_address_weights', 'compute_contract_weights'],
               kind='S', statement='a user with open positions in two LP tokens whose identifiers interleave the tokens (the claim cursor is per user): the claim pays, for EACH LP token, exactly once, the sum of the epoch shares '
                                   'of its farm from the cursor on -- also when the second LP token was first staked by anyone only after the user last claimed',
               bounds='current epoch 10; LP1 as in L3 with cursor %s; the first-ever snapshot of LP2 (user and total) at epoch %s; one farm per LP token over [4,12); '
                      'weights, rates, budgets symbolic' % (_last, _s2), covers=['ok'], replay=_replay_two_lps(_last, _s2))(_ob_two_lps(_last, _s2))
