"""C05 — the farm manager always holds every locked LP token and every unclaimed reward."""
import json
import z3

from .. import smt
from ..smt import simp
from ..values import *
from ..chain import Chain, bank_of
from .common import *
from .fm import *

E = 10
HINT = {'pa': 10 ** 6, 'pb': 5 * 10 ** 5, 'F': 8 * 10 ** 5, 'C': 10 ** 5, 'F2': 10 ** 6, 'C2': 0, 'X_lp1': 3, 'X_usd': 0, 'X_om': 0, 'wa': 10 ** 6, 'T': 10 ** 7,
        'amount': 10 ** 5, 'rate': 10 ** 5, 'exp_b': 5 * DAY, 'rate3': 10 ** 3, 'C3': 10 ** 3, 'pb2': 10 ** 5, 'wb': 10 ** 5, 'declared_epochs': 2, 'pe1': 10 ** 5, 'pe2': 2 * 10 ** 5, 'we': 352200, 'paid_fee_denom': 10 ** 5 + 1000}
DENOMS = (LP1, 'uusd', 'uom')


def liabilities(I, denom):
    tot = 0
    for p in all_positions(I):
        if p.get('lp_asset').get('denom') == denom:
            tot = simp(tot + p.get('lp_asset').get('amount'))
    ms = I.world.store(FM).get('farms')
    for _, f in (ms.entries if ms is not None else []):
        if f.get('farm_asset').get('denom') == denom:
            tot = simp(tot + f.get('farm_asset').get('amount') - f.get('claimed_amount'))
    return tot


def world(I, weights_at=3, owner_choice=False):
    """weights_at: the epoch of the latest weight snapshots -- 3 (long ago) or E + 1 (somebody already acted in the current epoch)"""
    I.set_hint(HINT)
    fm_config(I, fee=coin_v('uom', 1000), max_concurrent=3)
    set_epoch(I, E, now_s=E * DAY + 5)
    set_ownership(I, FM, 'creator')
    I.world.store(FM)['position_id_counter'] = 7
    I.world.store(FM)['farm_counter'] = 3
    b = bank_of(I)
    pa = I.sym('pa', lo=1, hi=U128 // 64)
    pb = I.sym('pb', lo=1, hi=U128 // 64)
    put_position(I, position('u-a', LP1, pa, 30 * DAY, 'alice', None))
    closed_kind = I.choose(2, 'bob_position')
    put_position(I, position('u-b', LP1, pb, DAY, 'bob', 5 * DAY if closed_kind == 0 else 200 * DAY))     # unlocked / still locked
    # bob also keeps an OPEN position (and therefore weight) next to the closed one
    pb2 = I.sym('pb2', lo=1, hi=U128 // 64)
    put_position(I, position('u-b2', LP1, pb2, DAY, 'bob', None))
    rate = I.sym('rate', lo=1, hi=U128 // 64)
    F = simp(rate * 8)
    C = I.sym('C', hi=U128)
    I.assume(C <= F)
    put_farm(I, farm('f-1', 'fowner', LP1, 'uusd', F, C, rate, 4, 12))
    F2 = I.sym('F2', lo=1, hi=U128 // 64)
    C2 = I.sym('C2', hi=U128)
    I.assume(C2 <= F2)
    put_farm(I, farm('f-2', 'fowner2', LP2, LP1, F2, C2, 1, 4, 12))        # a farm whose reward token is an LP token
    # a second active farm on the same LP token with the SAME owner as f-1 (one owner, several farms)
    rate3 = I.sym('rate3', lo=1, hi=U128 // 64)
    C3 = I.sym('C3', hi=U128)
    I.assume(C3 <= rate3 * 8)
    # ... or, where the split among farm owners matters (emergency exits), alternatively with a different owner: two owners share the penalty
    f3_owner = ['fowner', 'fowner3'][I.choose(2, 'f3_owner')] if owner_choice else 'fowner'
    put_farm(I, farm('f-3', f3_owner, LP1, 'uom', simp(rate3 * 8), C3, rate3, 4, 12))
    wa = I.sym('wa', lo=1, hi=U128 // 64)
    T = I.sym('T', lo=1, hi=U128 // 32)
    wb = I.sym('wb', lo=1, hi=U128 // 64)
    I.assume(T >= wa + wb)
    # erin holds TWO open positions in the LP token (her weight covers both)
    pe1 = I.sym('pe1', lo=1, hi=U128 // 64)
    pe2 = I.sym('pe2', lo=1, hi=U128 // 64)
    put_position(I, position('u-e1', LP1, pe1, 30 * DAY, 'erin', None))
    put_position(I, position('u-e2', LP1, pe2, 30 * DAY, 'erin', None))
    we = I.sym('we', lo=1, hi=U128 // 64)
    I.assume(T >= wa + wb + we)
    put_weight(I, 'erin', LP1, weights_at, we)
    put_weight(I, 'bob', LP1, weights_at, wb)
    put_weight(I, 'alice', LP1, weights_at, wa)
    put_weight(I, FM, LP1, weights_at, T)
    I.world.meta['weights_at'] = weights_at
    X = {}
    for d, key in ((LP1, 'X_lp1'), ('uusd', 'X_usd'), ('uom', 'X_om')):
        X[d] = I.sym(key, hi=U128 // 64)
        b.set(FM, d, simp(liabilities(I, d) + X[d]))
    return b, X, dict(pa=pa, pb=pb, F=F, C=C, rate=rate, pe1=pe1, pe2=pe2, we=we)


OPS = ['create_position', 'expand_position', 'close_full', 'close_partial', 'withdraw_unlocked', 'emergency_open', 'emergency_closed', 'claim', 'claim_until',
       'create_farm', 'expand_farm', 'close_farm', 'close_lp_reward_farm', 'expand_by_pool_manager', 'create_by_pool_manager', 'close_one_of_two', 'create_farm_fee_denom',
       'create_farm_zero_fee']


def run(I, ch, b, op, v):
    amt = I.sym('amount', lo=1, hi=U128 // 64)
    if op == 'create_position':
        b.set('carol', LP1, amt)
        return ch.execute('carol', FM, manage_position('Create', identifier=NONE(), unlocking_duration=30 * DAY, receiver=NONE()), [coin_v(LP1, amt)])
    if op == 'expand_position':
        b.set('alice', LP1, amt)
        return ch.execute('alice', FM, manage_position('Expand', identifier='u-a'), [coin_v(LP1, amt)])
    if op == 'expand_by_pool_manager':
        # the pool manager tops up alice's position on her behalf (locked deposit)
        b.set(PMA, LP1, amt)
        return ch.execute(PMA, FM, manage_position('Expand', identifier='u-a'), [coin_v(LP1, amt)])
    if op == 'create_by_pool_manager':
        b.set(PMA, LP1, amt)
        I.assume(I.addr_valid('carol'))
        return ch.execute(PMA, FM, manage_position('Create', identifier=NONE(), unlocking_duration=30 * DAY, receiver=Some('carol')), [coin_v(LP1, amt)])
    if op == 'close_one_of_two':
        put_last_claimed(I, 'erin', E)
        return ch.execute('erin', FM, manage_position('Close', identifier='u-e1', lp_asset=NONE()), [])
    if op == 'close_full':
        put_last_claimed(I, 'alice', E)           # no pending rewards
        return ch.execute('alice', FM, manage_position('Close', identifier='u-a', lp_asset=NONE()), [])
    if op == 'close_partial':
        put_last_claimed(I, 'alice', E)
        I.assume(amt < v['pa'])
        return ch.execute('alice', FM, manage_position('Close', identifier='u-a', lp_asset=Some(coin_v(LP1, amt))), [])
    if op == 'withdraw_unlocked':
        return ch.execute('bob', FM, manage_position('Withdraw', identifier='u-b', emergency_unlock=NONE()), [])
    if op == 'emergency_open':
        return ch.execute('alice', FM, manage_position('Withdraw', identifier='u-a', emergency_unlock=Some(True)), [])
    if op == 'emergency_closed':
        return ch.execute('bob', FM, manage_position('Withdraw', identifier='u-b', emergency_unlock=Some(True)), [])
    if op == 'claim':
        return ch.execute('alice', FM, claim_msg(None), [])
    if op == 'claim_until':
        return ch.execute('alice', FM, claim_msg(7), [])
    if op == 'create_farm':
        I.assume(amt >= 1000)
        b.set('dave', 'uusd', amt)
        b.set('dave', 'uom', 1000)
        return ch.execute('dave', FM, manage_farm('Create', params=farm_params(LP1, coin_v('uusd', amt), E + 1, E + 5)), [coin_v('uom', 1000), coin_v('uusd', amt)])
    if op == 'create_farm_fee_denom':
        # the reward is paid in the SAME denom as the creation fee: one coin of an arbitrary amount is attached for a declared reward `amt`
        I.assume(amt >= 1000)
        paid = I.sym('paid_fee_denom', lo=1, hi=U128 // 32)
        b.set('dave', 'uom', paid)
        return ch.execute('dave', FM, manage_farm('Create', params=farm_params(LP1, coin_v('uom', amt), E + 1, E + 5)), [coin_v('uom', paid)])
    if op == 'create_farm_zero_fee':
        # the owner has configured a ZERO creation fee: only the reward coin is attached -- of an arbitrary amount, for a declared reward `amt`
        I.assume(amt >= 1000)
        fm_config(I, fee=coin_v('uom', 0), max_concurrent=3)
        paid = I.sym('paid_zero_fee', lo=1, hi=U128 // 32)
        b.set('dave', 'uusd', paid)
        return ch.execute('dave', FM, manage_farm('Create', params=farm_params(LP1, coin_v('uusd', amt), E + 1, E + 5)), [coin_v('uusd', paid)])
    if op == 'expand_farm':
        add = simp(v['rate'] * 2)                  # attached: two more epochs of emission
        decl = simp(v['rate'] * I.sym('declared_epochs', lo=1, hi=1000))        # declared in the message: any multiple of the rate
        b.set('fowner', 'uusd', add)
        return ch.execute('fowner', FM, manage_farm('Expand', params=farm_params(LP1, coin_v('uusd', decl), ident='f-1')), [coin_v('uusd', add)])
    if op == 'close_farm':
        return ch.execute('fowner', FM, manage_farm('Close', farm_identifier='f-1'), [])
    if op == 'close_lp_reward_farm':
        return ch.execute('creator', FM, manage_farm('Close', farm_identifier='f-2'), [])
    raise ValueError(op)


def _ob(op):
    def s(I):
        b, X, v = world(I, owner_choice=op.startswith('emergency'))
        ch = Chain(I, CONTRACTS_FM)
        st, _ = run(I, ch, b, op, v)
        I.observe('status', 'ok' if st == 'ok' else 'err')
        for d in DENOMS:
            I.observe('bal:farm_manager:' + d, b.get(FM, d))
        for pid in ('u-a', 'u-b', 'u-b2', 'u-e1', 'u-e2', 'p-8'):
            observe_position(I, pid)
        for fid in ('f-1', 'f-2', 'f-3', 'f-4'):
            observe_farm(I, fid)
        if st != 'ok':
            I.outcome('rejected')
            return
        I.cover('ok', HINT)
        for d in DENOMS:
            I.check('balance_covers_positions_and_unclaimed_rewards', b.get(FM, d) >= liabilities(I, d))
            I.check('excess_never_decreases', b.get(FM, d) - liabilities(I, d) >= X[d])
            if op not in ('emergency_open', 'emergency_closed'):
                I.check('excess_unchanged_outside_penalty_dust', smt.Eq(b.get(FM, d) - liabilities(I, d), X[d]))
    return s


def WA(m):
    return [3, E + 1][m.get('_choices', {}).get('weights_at', 0)]


def _build(op):
    def build(m):
        ch = m['_choices']
        rate = m['rate']
        exp_b = 5 * DAY if ch.get('bob_position', 0) == 0 else 200 * DAY
        pos = [('u-a', LP1, m['pa'], 30 * DAY, 'alice', None), ('u-b', LP1, m['pb'], DAY, 'bob', exp_b), ('u-b2', LP1, m['pb2'], DAY, 'bob', None),
               ('u-e1', LP1, m['pe1'], 30 * DAY, 'erin', None), ('u-e2', LP1, m['pe2'], 30 * DAY, 'erin', None)]
        farms = [('f-1', 'fowner', LP1, 'uusd', rate * 8, m['C'], rate, 4, 12), ('f-2', 'fowner2', LP2, LP1, m['F2'], m['C2'], 1, 4, 12),
                 ('f-3', ['fowner', 'fowner3'][ch.get('f3_owner', 0)], LP1, 'uom', m['rate3'] * 8, m['C3'], m['rate3'], 4, 12)]
        liab = {LP1: m['pa'] + m['pb'] + m['pb2'] + m['pe1'] + m['pe2'] + m['F2'] - m['C2'], 'uusd': rate * 8 - m['C'], 'uom': m['rate3'] * 8 - m['C3']}
        mints = [('farm_manager', [(LP1, liab[LP1] + m['X_lp1']), ('uusd', liab['uusd'] + m['X_usd']), ('uom', liab['uom'] + m['X_om'])])]
        d = {'now_s': E * DAY + 5, 'positions': pos, 'farms': farms, 'weights': [(u, LP1, WA(m), w) for u, w in (('alice', m['wa']), ('bob', m['wb']), ('erin', m['we']), ('farm_manager', m['T']))],
             'counters': {'position': 7, 'farm': 3}, 'mints': mints, 'last_claimed': [],
             'config': {'create_farm_fee': {'denom': 'uom', 'amount': '1000'}, 'max_concurrent_farms': 3}}
        a = m.get('amount', 1)
        P = lambda action, **kw: {'manage_position': {'action': {action: kw}}}
        Fm = lambda action, **kw: {'manage_farm': {'action': {action: kw}}}
        from .pm import rj, coin_j
        if op == 'create_position':
            d['mints'].append(('carol', [(LP1, a)]))
            d['txs'] = [('carol', P('create', identifier=None, unlocking_duration=30 * DAY, receiver=None), [(LP1, a)])]
        elif op == 'expand_position':
            d['mints'].append(('alice', [(LP1, a)]))
            d['txs'] = [('alice', P('expand', identifier='u-a'), [(LP1, a)])]
        elif op == 'expand_by_pool_manager':
            d['mints'].append(('pool_manager', [(LP1, a)]))
            d['txs'] = [('pool_manager', P('expand', identifier='u-a'), [(LP1, a)])]
        elif op == 'create_by_pool_manager':
            d['mints'].append(('pool_manager', [(LP1, a)]))
            d['txs'] = [('pool_manager', P('create', identifier=None, unlocking_duration=30 * DAY, receiver='@carol'), [(LP1, a)])]
        elif op == 'close_one_of_two':
            d['last_claimed'] = [('erin', E)]
            d['txs'] = [('erin', P('close', identifier='u-e1', lp_asset=None), [])]
        elif op in ('close_full', 'close_partial'):
            d['last_claimed'] = [('alice', E)]
            d['txs'] = [('alice', P('close', identifier='u-a', lp_asset=None if op == 'close_full' else coin_j(LP1, a)), [])]
        elif op == 'withdraw_unlocked':
            d['txs'] = [('bob', P('withdraw', identifier='u-b', emergency_unlock=None), [])]
        elif op == 'emergency_open':
            d['txs'] = [('alice', P('withdraw', identifier='u-a', emergency_unlock=True), [])]
        elif op == 'emergency_closed':
            d['txs'] = [('bob', P('withdraw', identifier='u-b', emergency_unlock=True), [])]
        elif op in ('claim', 'claim_until'):
            d['txs'] = [('alice', {'claim': {'until_epoch': None if op == 'claim' else 7}}, [])]
        elif op == 'create_farm':
            d['mints'].append(('dave', [('uusd', a), ('uom', 1000)]))
            d['txs'] = [('dave', Fm('create', params={'lp_denom': rj(LP1), 'start_epoch': E + 1, 'preliminary_end_epoch': E + 5, 'curve': None,
                                                      'farm_asset': coin_j('uusd', a), 'farm_identifier': None}), [('uom', 1000), ('uusd', a)])]
        elif op == 'create_farm_fee_denom':
            d['mints'].append(('dave', [('uom', m['paid_fee_denom'])]))
            d['txs'] = [('dave', Fm('create', params={'lp_denom': rj(LP1), 'start_epoch': E + 1, 'preliminary_end_epoch': E + 5, 'curve': None,
                                                      'farm_asset': coin_j('uom', a), 'farm_identifier': None}), [('uom', m['paid_fee_denom'])])]
        elif op == 'create_farm_zero_fee':
            d['config'] = dict(d['config'], create_farm_fee={'denom': 'uom', 'amount': '0'})
            d['mints'].append(('dave', [('uusd', m['paid_zero_fee'])]))
            d['txs'] = [('dave', Fm('create', params={'lp_denom': rj(LP1), 'start_epoch': E + 1, 'preliminary_end_epoch': E + 5, 'curve': None,
                                                      'farm_asset': coin_j('uusd', a), 'farm_identifier': None}), [('uusd', m['paid_zero_fee'])])]
        elif op == 'expand_farm':
            d['mints'].append(('fowner', [('uusd', rate * 2)]))
            d['txs'] = [('fowner', Fm('expand', params={'lp_denom': rj(LP1), 'start_epoch': None, 'preliminary_end_epoch': None, 'curve': None,
                                                        'farm_asset': coin_j('uusd', rate * m.get('declared_epochs', 2)), 'farm_identifier': 'f-1'}), [('uusd', rate * 2)])]
        elif op == 'close_farm':
            d['txs'] = [('fowner', Fm('close', farm_identifier='f-1'), [])]
        else:
            d['txs'] = [('creator', Fm('close', farm_identifier='f-2'), [])]
        return d
    return build


def _replay(op):
    return fm_replay(_build(op))


for _op in OPS:
    obligation('C05', 'S1.custody_after_%s' % _op,
               entries=['execute', 'create_position', 'expand_position', 'close_position', 'withdraw_position', 'claim', 'create_farm', 'expand_farm', 'close_farm', 'reply'],
               kind='S', statement='from any state where the farm manager holds, per denom, all recorded position amounts + (funded - claimed) of all farms + excess X >= 0 '
                                   '(incl. a farm whose reward denom is an LP denom that is also locked in positions): after %s the balance still covers the liabilities and the '
                                   'excess never decreases (unchanged except for emergency-penalty dust)' % _op,
               bounds='two positions (open / closed), three farms (two on the same LP token with the same owner), window of 10 epochs, symbolic amounts, budgets, weights and excess',
               covers=['ok'], replay=_replay(_op))(_ob(_op))

from . import lockdep   # noqa: E402,F401  (locked deposits: the farm manager holds exactly the LP it records)
