"""C03 — swaps never reduce pool value; no profitable swap sequence (constant product)."""
import json
import z3

from .. import smt
from ..smt import simp
from ..values import *
from .common import *
from .pm import *


HINT = {'reserve_x': 10 ** 12, 'reserve_y': 10 ** 12, 'offer': 10 ** 6, 'protocol_fee': 10 ** 15, 'swap_fee': 2 * 10 ** 15,
        'burn_fee': 0, 'extra_fee0': 10 ** 15, 'extra_fee1': 0, 'max_slippage_atomics': 5 * 10 ** 17}


from ..chain import Chain, bank_of
from .c04 import swap_msg, CONTRACTS


class _Res:
    """what the obligations need from one executed Swap message: the amounts that moved, read off the balances"""

    def __init__(self, ret, pr, bu):
        self.ret, self.pr, self.bu = ret, pr, bu


def _swap(I, pool_id, offer_denom, offer_amt, ask_denom, belief=None, max_slippage=None):
    """one Swap through the PUBLIC execute entry point (trader -> pool manager); returns ('ok', _Res) or ('err', None)"""
    b = bank_of(I)
    b.set('trader', offer_denom, simp(b.get('trader', offer_denom) + offer_amt))
    b.supply[offer_denom] = simp(b.supply.get(offer_denom, 0) + offer_amt)
    ch = I.world.meta.get('chain') or Chain(I, CONTRACTS)
    I.world.meta['chain'] = ch
    pre = b.snapshot()
    st, _ = ch.execute('trader', PM, swap_msg(ask_denom, pool_id, belief=belief, max_slippage=max_slippage), [coin_v(offer_denom, offer_amt)])
    if st != 'ok':
        return 'err', None
    return 'ok', _Res(simp(b.get('trader', ask_denom) - pre.get('trader', ask_denom)),
                      simp(b.get('fee_collector', ask_denom) - pre.get('fee_collector', ask_denom)),
                      simp(pre.supply.get(ask_denom, 0) - b.supply.get(ask_denom, 0)))


def _setup_xyk(I, n_extra, decs=(6, 6)):
    I.set_hint(HINT)
    x = I.sym('reserve_x', lo=1, hi=U128)
    y = I.sym('reserve_y', lo=1, hi=U128)
    fees, shares = sym_fees(I, n_extra)
    pool = pool_info('p1', ['uA', 'uB'], list(decs), [x, y], xyk(), fees)
    pm_config(I)
    put_pool(I, pool)
    b = bank_of(I)
    b.set(PM, 'uA', x)
    b.set(PM, 'uB', y)
    b.supply['uA'] = x
    b.supply['uB'] = y
    return x, y, shares


def _replay_k1(n_extra):
    from .c02 import _mints

    def build(m):
        fees = (m['protocol_fee'], m['swap_fee'], m['burn_fee'], [m['extra_fee%d' % i] for i in range(n_extra)])
        pool = pool_json('p1', ['uA', 'uB'], [6, 6], [m['reserve_x'], m['reserve_y']], 'constant_product', fees)
        steps = [{'op': 'set_pool', 'pool': pool}]
        steps += _mints([('pool_manager', [('uA', m['reserve_x']), ('uB', m['reserve_y'])]), ('trader', [('uA', m['offer'])])])
        steps.append({'op': 'execute', 'contract': 'pool_manager', 'sender': 'trader', 'funds': [coin_j('uA', m['offer'])],
                      'msg': {'swap': {'ask_asset_denom': 'uB', 'max_slippage': dec_j(m['max_slippage_atomics']), 'pool_identifier': 'p1'}}})
        return {'setup': {}, 'steps': steps}, len(steps) - 1
    return generic_replay(build)


def _truncation_probes(n_extra):
    """counterexample candidates for 18-decimal truncation slips: reserves above 10^18 whose product leaves a remainder of 1 or 2 modulo
    (offer reserve + offer), i.e. an exact quotient just below the 10^-18 resolution of Decimal256; zero or protocol-only fees (a retained
    swap fee would hide one unit).  offer = N/200 (0.5% of the pool), reserve_y solved from x*y = r (mod N)."""
    out = []
    for N0 in (10 ** 18 + 7, 10 ** 21 + 1, 10 ** 24 + 5 * 10 ** 21, 2 ** 100 + 12345, 2 ** 118 + 99):
        for r in (1, 2):
            a = N0 // 200
            N = N0
            while True:
                try:
                    inv = pow(a, -1, N)
                    break
                except ValueError:
                    a += 1
            y = (-r * inv) % N
            if y == 0:
                continue
            for pf in (0, 10 ** 15):
                p = {'reserve_x': N - a, 'reserve_y': y, 'offer': a, 'protocol_fee': pf, 'swap_fee': 0, 'burn_fee': 0, 'max_slippage_atomics': 5 * 10 ** 17}
                for i in range(n_extra):
                    p['extra_fee%d' % i] = 0
                out.append(p)
    return out


def _ob_k1(n_extra):
    def k1(I):
        I.set_probes(_truncation_probes(n_extra))
        x, y, shares = _setup_xyk(I, n_extra)
        o = I.sym('offer', lo=1, hi=U128)
        tol = I.sym('max_slippage_atomics', hi=U128)
        st, res = _swap(I, 'p1', 'uA', o, 'uB', max_slippage=Some(tol))
        if st != 'ok':
            I.outcome('rejected')
            return
        I.outcome('ok')
        I.cover('ok', HINT)
        I.observe('status', 'ok')
        observe_pool(I, 'p1')
        pool2 = get_pool(I, 'p1')
        x2, y2 = reserves_of(pool2)
        I.check('offer_added_in_full', smt.Eq(x2, x + o))
        I.check('ask_reduced_by_outgoing', smt.Eq(y2, y - res.ret - res.pr - res.bu))
        I.check('product_never_decreases', x2 * y2 >= x * y)
        I.check('ask_reserve_stays_positive', y2 >= 1)
    return k1


for _n in (0, 2):
    obligation('C03', 'K1.xyk_swap_product_extra%d' % _n, entries=['execute', 'swap::commands::swap', 'perform_swap', 'compute_swap', 'compute_fees', 'get_swap_computation',
                                                                  'get_asset_indexes_in_pool', 'assert_max_slippage', 'PoolFee::is_valid'],
               kind='S', tier='quick',
               statement='constant product: after an executed swap the stored reserves satisfy x\'*y\' >= x*y, offer reserve grew by the full offer, '
                         'the ask reserve stays positive; for every fee configuration accepted by PoolFee::is_valid (%d extra fees)' % _n,
               bounds='reserves, offer in [1, 2^128); fee shares full range filtered by the real is_valid; slippage tolerance symbolic',
               covers=['ok'], replay=_replay_k1(_n))(_ob_k1(_n))


K1_LEMMA = 'C03.K1 (same run): every executed constant-product swap leaves x\'*y\' >= x*y on the stored reserves'


def _ob_roundtrip(n_extra):
    def r1(I):
        x, y, shares = _setup_xyk(I, n_extra)
        o = I.sym('offer', lo=1, hi=U128)
        half = Some(5 * 10 ** 17)
        st, r = _swap(I, 'p1', 'uA', o, 'uB', max_slippage=half)
        if st != 'ok':
            return
        x1, y1 = reserves_of(get_pool(I, 'p1'))
        I.lemma(x1 * y1 >= x * y, K1_LEMMA)
        got = r.ret
        if I.fork(smt.Eq(got, 0)):
            I.outcome('first_leg_returns_nothing')
            return
        # the trader swaps back exactly the proceeds (they are already in her balance)
        b = bank_of(I)
        b.set('trader', 'uB', simp(b.get('trader', 'uB') - got))
        b.supply['uB'] = simp(b.supply['uB'] - got)
        st2, r2 = _swap(I, 'p1', 'uB', got, 'uA', max_slippage=half)
        if st2 != 'ok':
            I.outcome('second_rejected')
            return
        x2, y2 = reserves_of(get_pool(I, 'p1'))
        I.lemma(x2 * y2 >= x1 * y1, K1_LEMMA)
        I.cover('both_ok', HINT)
        I.check('round_trip_not_profitable', r2.ret <= o)
    return r1


for _n in (0, 1):
    obligation('C03', 'R1.same_pool_round_trip_extra%d' % _n, entries=['execute', 'swap::commands::swap', 'perform_swap', 'compute_swap'], kind='B', tier='quick',
               statement='swap A->B then swap the proceeds B->A on the same pool: final <= initial, for all reserves/offers/fees (incl. zero fees)',
               bounds='reserves, offer in [1, 2^128); %d extra fees; default slippage cap 50%%' % _n, covers=['both_ok'],
               abstractions=['lemma: ' + K1_LEMMA],
               opts={'check_timeout_ms': 120000, 'lazy_forks': True})(_ob_roundtrip(_n))


# ---------------------------------------------------------------- a route that visits the same pool twice (real pricing kernel)

from .pm import route_msg, swap_op


def _replay_revisit(m):
    from .c02 import _mints
    fees = (m['protocol_fee'], m['swap_fee'], m['burn_fee'], [])
    steps = [{'op': 'set_pool', 'pool': pool_json('p1', ['uA', 'uB'], [6, 6], [m['reserve_x'], m['reserve_y']], 'constant_product', fees)}]
    steps += _mints([('pool_manager', [('uA', m['reserve_x']), ('uB', m['reserve_y'])]), ('trader', [('uA', m['offer'])])])
    ops = [{'mantra_swap': {'token_in_denom': 'uA', 'token_out_denom': 'uB', 'pool_identifier': 'p1'}},
           {'mantra_swap': {'token_in_denom': 'uB', 'token_out_denom': 'uA', 'pool_identifier': 'p1'}}]
    steps.append({'op': 'execute', 'contract': 'pool_manager', 'sender': 'trader', 'funds': [coin_j('uA', m['offer'])],
                  'msg': {'execute_swap_operations': {'operations': ops, 'max_slippage': '0.5'}}})
    return {'setup': {}, 'steps': steps}, len(steps) - 1


@obligation('C03', 'R2.route_through_the_same_pool_twice', entries=['execute', 'execute_swap_operations', 'perform_swap', 'compute_swap'], kind='R',
            statement='ExecuteSwapOperations uA -> uB -> uA through ONE pool ends in exactly the state of the two swaps sent one after the other (second hop priced on the '
                      'reserves the first hop left): same final reserves, same amount back; hence (K1, per swap) the product never decreases at any hop and the round trip '
                      'is not profitable',
            bounds='reserves, offer in [1, 2^128); real is_valid fees without extra fees; slippage cap 50%', covers=['both_ok'],
            abstractions=['lemma: ' + K1_LEMMA], opts={'check_timeout_ms': 120000, 'lazy_forks': True},
            replay=generic_replay(lambda m: _replay_revisit(m)))
def r2_revisit(I):
    # counterexample candidates for a solver that cannot decide the two nested swaps symbolically in time: ordinary pools and trades
    I.set_probes([dict(reserve_x=rx, reserve_y=ry, offer=of, protocol_fee=pf, swap_fee=sf, burn_fee=bf, max_slippage_atomics=5 * 10 ** 17)
                  for rx, ry, of, pf, sf, bf in ((10 ** 6, 10 ** 6, 10 ** 5, 5 * 10 ** 15, 10 ** 16, 0), (10 ** 12, 3 * 10 ** 12, 10 ** 9, 10 ** 15, 2 * 10 ** 15, 10 ** 15),
                                                 (10 ** 9, 10 ** 9, 10 ** 9, 0, 3 * 10 ** 15, 0), (777777, 123456789, 4321, 10 ** 16, 3 * 10 ** 16, 0))])
    x, y, shares = _setup_xyk(I, 0)
    o = I.sym('offer', lo=1, hi=U128)
    half = Some(5 * 10 ** 17)
    b = bank_of(I)
    b.set('trader', 'uA', o)
    b.supply['uA'] = simp(b.supply['uA'] + o)
    ch = Chain(I, CONTRACTS)
    I.world.meta['chain'] = ch
    start = ch.snapshot()
    # (i) the route
    pre = b.snapshot()
    st_r, _ = ch.execute('trader', PM, route_msg([swap_op('uA', 'uB', 'p1'), swap_op('uB', 'uA', 'p1')], max_slippage=half), [coin_v('uA', o)])
    xr, yr = reserves_of(get_pool(I, 'p1'))
    back_r = simp(b.get('trader', 'uA') - (pre.get('trader', 'uA') - o))
    I.observe('status', 'ok' if st_r == 'ok' else 'err')
    observe_pool(I, 'p1')
    observe_bank(I, b, [('trader', 'uA'), ('trader', 'uB'), (PM, 'uA'), (PM, 'uB')])
    ch.restore(start)
    b = bank_of(I)
    # (ii) hop by hop
    pre2 = b.snapshot()
    st1, _ = ch.execute('trader', PM, swap_msg('uB', 'p1', max_slippage=half), [coin_v('uA', o)])
    if st1 != 'ok':
        I.check('route_refused_when_its_first_hop_is', st_r != 'ok')
        return
    got = simp(b.get('trader', 'uB') - pre2.get('trader', 'uB'))
    x1, y1 = reserves_of(get_pool(I, 'p1'))
    I.lemma(x1 * y1 >= x * y, K1_LEMMA)
    if I.fork(smt.Eq(got, 0)):
        I.outcome('first_hop_returns_nothing')
        return
    st2, _ = ch.execute('trader', PM, swap_msg('uA', 'p1', max_slippage=half), [coin_v('uB', got)])
    if st2 != 'ok':
        I.check('route_refused_when_its_second_hop_is', st_r != 'ok')
        return
    x2, y2 = reserves_of(get_pool(I, 'p1'))
    I.lemma(x2 * y2 >= x1 * y1, K1_LEMMA)
    back = simp(b.get('trader', 'uA') - (pre2.get('trader', 'uA') - o))
    I.check('route_executes_when_its_hops_do', st_r == 'ok')
    if st_r != 'ok':
        return
    I.cover('both_ok', HINT)
    I.check('same_final_reserves_as_hop_by_hop', smt.And(smt.Eq(xr, x2), smt.Eq(yr, y2)))
    I.check('same_amount_back_as_hop_by_hop', smt.Eq(back_r, back))
    I.check('round_trip_not_profitable', back_r <= o)


# ---------------------------------------------------------------- stableswap: small round trips on concrete pools
# The Curve iterations are not encoded symbolically (DESIGN.md 10.4); on concrete pools and offers the executor runs them from the MIR as they are.
# This obligation does not establish C03 for stableswap pools; it keeps a reproducible witness of the open finding C03-stableswap-dust-round-trip
# and reports any OTHER way in which a small round trip on these pools becomes profitable or stops executing.

DUST_SHAPES = [
    # (reserves uA/uB, decimals, amp, denom offered first)
    ((1000000123457, 999999876541), (6, 6), 85, 'uA'),
    ((10 ** 12, 10 ** 24), (6, 18), 85, 'uB'),
]
DUST_OFFERS = [1, 2, 3, 1000]


def _replay_dust(m):
    res, decs, amp, first = DUST_SHAPES[m.get('_choices', {}).get('param:stable_dust_shape', 0)]
    o = DUST_OFFERS[m['_choices']['offer']]
    second = 'uB' if first == 'uA' else 'uA'
    fees = (10 ** 15, 2 * 10 ** 15, 0, [])
    steps = [{'op': 'set_pool', 'pool': pool_json('p1', ['uA', 'uB'], list(decs), list(res), {'stable_swap': {'amp': amp}}, fees)},
             {'op': 'mint', 'to': 'pool_manager', 'funds': [coin_j('uA', res[0]), coin_j('uB', res[1])]},
             {'op': 'mint', 'to': 'trader', 'funds': [coin_j(first, o)]},
             {'op': 'execute', 'contract': 'pool_manager', 'sender': 'trader', 'funds': [coin_j(first, o)],
              'msg': {'swap': {'ask_asset_denom': second, 'belief_price': None, 'max_slippage': None, 'receiver': None, 'pool_identifier': 'p1'}}}]
    got = m.get('_obs', {}).get('note:got')
    if got:
        steps.append({'op': 'execute', 'contract': 'pool_manager', 'sender': 'trader', 'funds': [coin_j(second, got)],
                      'msg': {'swap': {'ask_asset_denom': first, 'belief_price': None, 'max_slippage': None, 'receiver': None, 'pool_identifier': 'p1'}}})
    return {'setup': {}, 'steps': steps}, len(steps) - 1


@obligation('C03', 'D1.stableswap_small_round_trip', entries=['execute', 'swap::commands::swap', 'perform_swap', 'compute_swap', 'calculate_stableswap_y', 'compute_d'], kind='B',
            statement='on a funded stableswap pool a trader swaps a small amount and swaps the proceeds back: never more comes back than went in '
                      '(concrete pools and offers: a witness of the recorded finding, not a proof for stableswap pools)',
            bounds='two concrete pools (6/6 decimals slightly off balance; 6/18 decimals balanced), amp 85, protocol 0.1% + swap 0.2% fee, offers 1, 2, 3, 1000 units; '
                   'no symbolic input: every run is a concrete execution of the MIR, confirmed natively', covers=['round_trip'],
            opts={'loop_bound': 300}, replay=generic_replay(_replay_dust))
def d1(I):
    res, decs, amp, first = I.param('stable_dust_shape', DUST_SHAPES)
    o = DUST_OFFERS[I.choose(len(DUST_OFFERS), 'offer')]
    second = 'uB' if first == 'uA' else 'uA'
    pm_config(I)
    put_pool(I, pool_info('p1', ['uA', 'uB'], list(decs), list(res), stable(amp), pool_fee(10 ** 15, 2 * 10 ** 15, 0)))
    b = bank_of(I)
    b.set(PM, 'uA', res[0]); b.set(PM, 'uB', res[1])
    b.supply['uA'] = res[0]; b.supply['uB'] = res[1]
    st1, r1 = _swap(I, 'p1', first, o, second)
    if st1 != 'ok':
        I.observe('status', 'err')
        I.outcome('first_swap_refused')
        return
    got = r1.ret
    I.observe('note:got', got)
    if got == 0:
        I.observe('status', 'ok')
        I.cover('round_trip')
        return
    st2, r2 = _swap(I, 'p1', second, got, first)
    I.observe('status', 'ok' if st2 == 'ok' else 'err')
    I.cover('round_trip')
    if st2 != 'ok':
        I.outcome('second_swap_refused')
        return
    I.observe('bal:trader:' + first, r2.ret)
    I.observe('bal:trader:' + second, 0)
    observe_pool(I, 'p1')
    # first legs that deliver at most 100 units, so that every fee (0.1% / 0.2%) floors to zero: the recorded finding C03-stableswap-dust-round-trip (the solver's y carries no safety margin);
    # larger offers pay fees well above that one unit and must not be profitable
    I.check('dust_round_trip_not_profitable' if got <= 100 else 'round_trip_not_profitable', r2.ret <= o)
