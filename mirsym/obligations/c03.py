"""C03 — swaps never reduce pool value; no profitable swap sequence (constant product)."""
import json
import z3

from .. import smt
from ..smt import simp
from ..values import *
from .common import *
from .pm import *


HINT = {'reserve_x': 10 ** 12, 'reserve_y': 10 ** 12, 'offer': 10 ** 6, 'protocol_fee': 10 ** 15, 'swap_fee': 2 * 10 ** 15,
        'burn_fee': 0, 'extra_fee0': 10 ** 15, 'extra_fee1': 0, 'max_slippage_atomics': 5 * 10 ** 17}


def _swap(I, pool_id, offer_denom, offer_amt, ask_denom, belief=None, max_slippage=None):
    return I.try_call('perform_swap', [deps(PM), coin_v(offer_denom, offer_amt), ask_denom, pool_id,
                                       belief if belief is not None else NONE(),
                                       max_slippage if max_slippage is not None else NONE()], CR)


def _setup_xyk(I, n_extra, decs=(6, 6)):
    I.set_hint(HINT)
    x = I.sym('reserve_x', lo=1, hi=U128)
    y = I.sym('reserve_y', lo=1, hi=U128)
    fees, shares = sym_fees(I, n_extra)
    pool = pool_info('p1', ['uA', 'uB'], list(decs), [x, y], xyk(), fees)
    put_pool(I, pool)
    return x, y, shares


def _replay_k1(n_extra):
    from .c02 import _mints

    def build(m):
        fees = (m['protocol_fee'], m['swap_fee'], m['burn_fee'], [m['extra_fee%d' % i] for i in range(n_extra)])
        pool = pool_json('p1', ['uA', 'uB'], [6, 6], [m['reserve_x'], m['reserve_y']], 'constant_product', fees)
        steps = [{'op': 'set_pool', 'pool': pool}]
        steps += _mints([('pool_manager', [('uA', m['reserve_x']), ('uB', m['reserve_y'])]), ('trader', [('uA', m['offer'])])])
        steps.append({'op': 'execute', 'contract': 'pool_manager', 'sender': 'trader', 'funds': [coin_j('uA', m['offer'])],
                      'msg': {'swap': {'ask_asset_denom': 'uB', 'max_slippage': dec_j(m['max_slippage_atomics']), 'pool_identifier': 'p1'}}})
        return {'setup': {}, 'steps': steps}, len(steps) - 1
    return generic_replay(build)


def _truncation_probes(n_extra):
    """counterexample candidates for 18-decimal truncation slips: reserves above 10^18 whose product leaves a remainder of 1 or 2 modulo
    (offer reserve + offer), i.e. an exact quotient just below the 10^-18 resolution of Decimal256; zero or protocol-only fees (a retained
    swap fee would hide one unit).  offer = N/200 (0.5% of the pool), reserve_y solved from x*y = r (mod N)."""
    out = []
    for N0 in (10 ** 18 + 7, 10 ** 21 + 1, 10 ** 24 + 5 * 10 ** 21, 2 ** 100 + 12345, 2 ** 118 + 99):
        for r in (1, 2):
            a = N0 // 200
            N = N0
            while True:
                try:
                    inv = pow(a, -1, N)
                    break
                except ValueError:
                    a += 1
            y = (-r * inv) % N
            if y == 0:
                continue
            for pf in (0, 10 ** 15):
                p = {'reserve_x': N - a, 'reserve_y': y, 'offer': a, 'protocol_fee': pf, 'swap_fee': 0, 'burn_fee': 0, 'max_slippage_atomics': 5 * 10 ** 17}
                for i in range(n_extra):
                    p['extra_fee%d' % i] = 0
                out.append(p)
    return out


def _ob_k1(n_extra):
    def k1(I):
        I.set_probes(_truncation_probes(n_extra))
        x, y, shares = _setup_xyk(I, n_extra)
        o = I.sym('offer', lo=1, hi=U128)
        tol = I.sym('max_slippage_atomics', hi=U128)
        st, r = _swap(I, 'p1', 'uA', o, 'uB', max_slippage=Some(tol))
        if st == 'panic' or is_err(r):
            I.outcome('rejected')
            return
        I.outcome('ok')
        I.cover('ok', HINT)
        I.observe('status', 'ok')
        observe_pool(I, 'p1')
        res = r.f[0]
        ret = res.get('return_asset').get('amount')
        sw = res.get('swap_fee_asset').get('amount')
        pr = res.get('protocol_fee_asset').get('amount')
        bu = res.get('burn_fee_asset').get('amount')
        ex = res.get('extra_fees_asset').get('amount')
        pool2 = get_pool(I, 'p1')
        x2, y2 = reserves_of(pool2)
        I.check('offer_added_in_full', smt.Eq(x2, x + o))
        I.check('ask_reduced_by_outgoing', smt.Eq(y2, y - ret - pr - bu))
        I.check('product_never_decreases', x2 * y2 >= x * y)
        I.check('gross_output_below_reserve', ret + sw + pr + bu + ex < y)
        I.check('ask_reserve_stays_positive', y2 >= 1)
    return k1


for _n in (0, 2):
    obligation('C03', 'K1.xyk_swap_product_extra%d' % _n, entries=['perform_swap', 'compute_swap', 'compute_fees', 'get_swap_computation',
                                                                  'get_asset_indexes_in_pool', 'assert_max_slippage', 'PoolFee::is_valid'],
               kind='S', tier='quick',
               statement='constant product: after an executed swap the stored reserves satisfy x\'*y\' >= x*y, offer reserve grew by the full offer, '
                         'gross output < ask reserve; for every fee configuration accepted by PoolFee::is_valid (%d extra fees)' % _n,
               bounds='reserves, offer in [1, 2^128); fee shares full range filtered by the real is_valid; slippage tolerance symbolic',
               covers=['ok'], replay=_replay_k1(_n))(_ob_k1(_n))


K1_LEMMA = 'C03.K1 (same run): every executed constant-product swap leaves x\'*y\' >= x*y on the stored reserves'


def _ob_roundtrip(n_extra):
    def r1(I):
        x, y, shares = _setup_xyk(I, n_extra)
        o = I.sym('offer', lo=1, hi=U128)
        half = Some(5 * 10 ** 17)
        st, r = _swap(I, 'p1', 'uA', o, 'uB', max_slippage=half)
        if st == 'panic' or is_err(r):
            return
        x1, y1 = reserves_of(get_pool(I, 'p1'))
        I.lemma(x1 * y1 >= x * y, K1_LEMMA)
        got = r.f[0].get('return_asset').get('amount')
        if I.fork(smt.Eq(got, 0)):
            I.outcome('first_leg_returns_nothing')
            return
        st2, r2 = _swap(I, 'p1', 'uB', got, 'uA', max_slippage=half)
        if st2 == 'panic' or is_err(r2):
            I.outcome('second_rejected')
            return
        x2, y2 = reserves_of(get_pool(I, 'p1'))
        I.lemma(x2 * y2 >= x1 * y1, K1_LEMMA)
        I.cover('both_ok', HINT)
        back = r2.f[0].get('return_asset').get('amount')
        I.check('round_trip_not_profitable', back <= o)
    return r1


for _n in (0, 1):
    obligation('C03', 'R1.same_pool_round_trip_extra%d' % _n, entries=['perform_swap', 'compute_swap'], kind='B', tier='quick',
               statement='swap A->B then swap the proceeds B->A on the same pool: final <= initial, for all reserves/offers/fees (incl. zero fees)',
               bounds='reserves, offer in [1, 2^128); %d extra fees; default slippage cap 50%%' % _n, covers=['both_ok'],
               abstractions=['lemma: ' + K1_LEMMA],
               opts={'check_timeout_ms': 120000})(_ob_roundtrip(_n))
