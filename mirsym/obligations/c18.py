"""C18 — epochs partition time (epoch-manager)."""
import json
import z3

from .. import smt
from ..smt import simp
from ..values import *
from .common import *

CR = 'epoch-manager'


def _config(I, d, g):
    ec = mk('mantra_dex_std::epoch_manager::EpochConfig', duration=d, genesis_epoch=g)
    cfg = mk('mantra_dex_std::epoch_manager::Config', epoch_config=ec)
    I.world.store('epoch')['config'] = cfg


def _query(I, msg, t=0):
    """the epoch manager's PUBLIC query entry point; returns ('ok', Result-like En) in the shape the obligations used before"""
    st, r = I.try_call('query', [deps('epoch'), env(t, 'epoch'), msg], CR)
    if st == 'panic' or not is_ok(r):
        return st, r
    return 'ok', Ok(r.f[0].data)


def _qmsg(variant, **kw):
    return mk_enum('mantra_dex_std::epoch_manager::QueryMsg', variant, **kw)


def _expected_current(d, g, t):
    now = t // NS
    if now < g:
        return None
    eid = (now - g) // d
    return eid, (g + eid * d) * NS


def _replay_current(times):
    def build(label, m):
        d, g = m['duration'], m['genesis']
        ts = [m[k] for k in times]
        steps = []
        for t in ts:
            steps.append({'op': 'set_time', 'nanos': str(t)})
            steps.append({'op': 'query', 'contract': 'epoch_manager', 'msg': {'current_epoch': {}}})
        sc = {'setup': {'time_nanos': '0', 'epoch': {'genesis': str(g), 'duration': str(d)}}, 'steps': steps}

        def judge(out):
            res = out['results']
            for k, t in enumerate(ts):
                r = res[2 * k + 1]
                exp = _expected_current(d, g, t)
                if exp is None:
                    if 'err' not in r:
                        return True, 'time %d is before genesis %d but the query returned %s' % (t // NS, g, json.dumps(r))
                else:
                    if 'ok' not in r:
                        return True, 'time %d >= genesis %d but the query failed: %s' % (t // NS, g, json.dumps(r)[:200])
                    ep = r['ok']['epoch']
                    if int(ep['id']) != exp[0] or int(ep['start_time']) != exp[1]:
                        return True, 'expected id=%d start=%d, observed %s' % (exp[0], exp[1], json.dumps(ep))
            return False, 'native run agrees with floor((now-genesis)/duration)'
        return sc, judge
    return build


def _replay_epoch(label, m):
    d, g, eid = m['duration'], m['genesis'], m['id']
    sc = {'setup': {'time_nanos': '0', 'epoch': {'genesis': str(g), 'duration': str(d)}},
          'steps': [{'op': 'query', 'contract': 'epoch_manager', 'msg': {'epoch': {'id': eid}}}]}

    def judge(out):
        r = out['results'][0]
        exact = (g + eid * d) * NS
        if exact > U64:
            if 'ok' in r:
                return True, 'start not representable but query returned %s' % json.dumps(r)
            return False, 'fails as required'
        if 'ok' not in r:
            return True, 'representable start %d but query failed: %s' % (exact, json.dumps(r)[:200])
        ep = r['ok']['epoch']
        if int(ep['id']) != eid or int(ep['start_time']) != exact:
            return True, 'expected id=%d start=%d observed %s' % (eid, exact, json.dumps(ep))
        return False, 'native run agrees'
    return sc, judge


def _epoch_of(resp):
    ep = resp.get('epoch')
    return ep.get('id'), ep.get('start_time')


@obligation('C18', 'K1.current_epoch', entries=['query', 'query_current_epoch', 'query_epoch'], kind='K',
            statement='now<genesis => Err; else Ok with id=floor((now-g)/d), start=g+id*d, start<=now<start+d; never a panic',
            bounds='duration in [86400, 2^64), genesis, block time (nanoseconds) full u64',
            covers=['ok', 'err_before_genesis'], replay=_replay_current(['block_time_nanos']))
def k1(I):
    d = I.sym('duration', lo=86400, hi=U64)
    g = I.sym('genesis', hi=U64)
    t = I.sym('block_time_nanos', hi=U64)
    _config(I, d, g)
    st, r = _query(I, _qmsg('CurrentEpoch'), t)
    now = I.ctx.fdiv(t, NS)
    if st == 'panic':
        I.outcome('panic')
        I.check('no_panic', False)
        return
    if is_err(r):
        I.outcome('err')
        I.cover('err_before_genesis')
        I.check('err_only_before_genesis', now < g)
        return
    I.outcome('ok')
    I.cover('ok')
    eid, start = _epoch_of(r.f[0])
    I.check('ok_only_from_genesis', now >= g)
    q = I.ctx.fdiv(simp(now - g), d)
    I.check('id_is_floor', smt.Eq(eid, q))
    I.check('start_is_genesis_plus_id_times_duration', smt.Eq(start, simp((g + eid * d) * NS)))
    s = simp(g + eid * d)
    I.check('now_within_epoch', smt.And(s <= now, now < s + d))


@obligation('C18', 'K2.epoch_by_id', entries=['query_epoch'], kind='K',
            statement='Epoch{id}: Ok(start = genesis + id*duration) exactly when that instant is representable; otherwise Err/abort, never a wrapped value',
            bounds='id, genesis, duration full u64', covers=['ok', 'fail'], replay=_replay_epoch)
def k2(I):
    d = I.sym('duration', lo=86400, hi=U64)
    g = I.sym('genesis', hi=U64)
    eid = I.sym('id', hi=U64)
    _config(I, d, g)
    st, r = _query(I, _qmsg('Epoch', id=eid))
    exact = simp((g + eid * d) * NS)
    if st == 'panic' or is_err(r):
        I.outcome('fail')
        I.cover('fail')
        I.check('fails_only_when_not_representable', exact > U64)
        return
    I.outcome('ok')
    I.cover('ok')
    rid, start = _epoch_of(r.f[0])
    I.check('id_echoed', smt.Eq(rid, eid))
    I.check('start_exact', smt.Eq(start, exact))
    I.check('start_fits', start <= U64)


@obligation('C18', 'K3.monotone', entries=['query_current_epoch'], kind='R',
            statement='t1<=t2 => id(t1)<=id(t2); id(now+duration) = id(now)+1',
            bounds='all u64', covers=['both_ok'], replay=_replay_current(['t1_nanos', 't2_nanos']))
def k3(I):
    d = I.sym('duration', lo=86400, hi=U64)
    g = I.sym('genesis', hi=U64)
    t1 = I.sym('t1_nanos', hi=U64)
    t2 = I.sym('t2_nanos', hi=U64)
    I.assume(t1 <= t2)
    _config(I, d, g)
    s1, r1 = _query(I, _qmsg('CurrentEpoch'), t1)
    s2, r2 = _query(I, _qmsg('CurrentEpoch'), t2)
    if s1 == 'ok' and is_ok(r1):
        # once defined, the epoch stays defined as time advances
        I.check('defined_stays_defined', s2 == 'ok' and is_ok(r2))
    if not (s1 == 'ok' and s2 == 'ok' and is_ok(r1) and is_ok(r2)):
        return
    I.cover('both_ok')
    id1, _ = _epoch_of(r1.f[0])
    id2, _ = _epoch_of(r2.f[0])
    I.check('monotone', id1 <= id2)
    n1 = I.ctx.fdiv(t1, NS)
    n2 = I.ctx.fdiv(t2, NS)
    I.check('plus_one_duration', smt.Implies(smt.Eq(n2, n1 + d), smt.Eq(id2, id1 + 1)))


# ---------------------------------------------------------------- configuration: what instantiate / UpdateConfig accept

from ..chain import Chain
from .fm import EM, set_ownership

CONTRACTS_EM = {EM: 'epoch-manager'}


def _stored(I):
    ec = I.world.store(EM)['config'].get('epoch_config')
    return ec.get('duration'), ec.get('genesis_epoch')


def _replay_update(label, m):
    """native: instantiate with the stored configuration at time 0, move to the block time, send UpdateConfig as the owner, query Config"""
    d0, g0, d, g, t = m['stored_duration'], m['stored_genesis'], m['duration'], m['genesis'], m['block_time_nanos']
    steps = [{'op': 'set_time', 'nanos': str(t)},
             {'op': 'execute', 'contract': 'epoch_manager', 'sender': 'creator', 'funds': [],
              'msg': {'update_config': {'epoch_config': {'duration': str(d), 'genesis_epoch': str(g)}}}},
             {'op': 'query', 'contract': 'epoch_manager', 'msg': {'config': {}}}]
    sc = {'setup': {'time_nanos': '0', 'epoch': {'genesis': str(g0), 'duration': str(d0)}}, 'steps': steps}

    def judge(out):
        r, q = out['results'][1], out['results'][2]
        valid = d >= 86400 and g >= t // NS
        if 'ok' in r and not valid:
            return True, 'UpdateConfig{duration %d, genesis %d} accepted at block time %d s (stored genesis %d): %s' % (d, g, t // NS, g0, json.dumps(q)[:200])
        if 'ok' not in r and valid:
            return True, 'valid UpdateConfig{duration %d, genesis %d} refused at block time %d s: %s' % (d, g, t // NS, json.dumps(r)[:200])
        return False, 'native run agrees'
    return sc, judge


@obligation('C18', 'S1.update_config_validation', entries=['execute', 'update_config', 'validate_epoch_duration'], kind='S',
            statement='UpdateConfig from the owner is accepted iff duration >= 86400 s and genesis >= block time (seconds) -- whatever configuration is stored, '
                      'including a new genesis equal to the stored one; on acceptance exactly the new configuration is stored, on refusal nothing changes',
            bounds='stored and new duration / genesis and block time (nanoseconds) full u64', covers=['accepted', 'refused'], replay=_replay_update)
def s1_cfg(I):
    d0 = I.sym('stored_duration', lo=86400, hi=U64)
    g0 = I.sym('stored_genesis', hi=U64)
    d = I.sym('duration', hi=U64)
    g = I.sym('genesis', hi=U64)
    t = I.sym('block_time_nanos', hi=U64)
    ec0 = mk('mantra_dex_std::epoch_manager::EpochConfig', duration=d0, genesis_epoch=g0)
    I.world.store(EM)['config'] = mk('mantra_dex_std::epoch_manager::Config', epoch_config=ec0)
    set_ownership(I, EM, 'creator')
    I.world.meta['time_nanos'] = t
    ch = Chain(I, CONTRACTS_EM)
    ec = mk('mantra_dex_std::epoch_manager::EpochConfig', duration=d, genesis_epoch=g)
    st, _ = ch.execute('creator', EM, mk_enum('mantra_dex_std::epoch_manager::ExecuteMsg', 'UpdateConfig', epoch_config=Some(ec)), [])
    now = I.ctx.fdiv(t, NS)
    valid = smt.And(d >= 86400, g >= now)
    sd, sg = _stored(I)
    if st == 'ok':
        I.cover('accepted')
        I.check('accepted_only_with_valid_duration_and_future_genesis', valid)
        I.check('new_configuration_stored', smt.And(smt.Eq(sd, d), smt.Eq(sg, g)))
    else:
        I.cover('refused')
        I.check('refused_only_when_invalid', smt.Not(valid))
        I.check('refusal_changes_nothing', smt.And(smt.Eq(sd, d0), smt.Eq(sg, g0)))


def _replay_instantiate(label, m):
    d, g, t = m['duration'], m['genesis'], m['block_time_nanos']
    sc = {'setup': {'time_nanos': str(t), 'epoch': {'genesis': str(g), 'duration': str(d)}}, 'steps': [], '_setup_error_ok': True}

    def judge(out):
        ok = 'epoch_manager' in out.get('addrs', {}) and not out.get('setup_error')
        valid = d >= 86400 and g >= t // NS
        if ok and not valid:
            return True, 'instantiate{duration %d, genesis %d} accepted at block time %d s' % (d, g, t // NS)
        if (not ok) and valid:
            return True, 'valid instantiate{duration %d, genesis %d} refused at block time %d s: %s' % (d, g, t // NS, str(out.get('setup_error'))[:200])
        return False, 'native run agrees'
    return sc, judge


@obligation('C18', 'S2.instantiate_validation', entries=['instantiate', 'validate_epoch_duration'], kind='S',
            statement='instantiate is accepted iff duration >= 86400 s and genesis >= block time (seconds); the configuration given is the one stored',
            bounds='duration, genesis, block time (nanoseconds) full u64', covers=['accepted', 'refused'], replay=_replay_instantiate)
def s2_cfg(I):
    d = I.sym('duration', hi=U64)
    g = I.sym('genesis', hi=U64)
    t = I.sym('block_time_nanos', hi=U64)
    ec = mk('mantra_dex_std::epoch_manager::EpochConfig', duration=d, genesis_epoch=g)
    msg = mk('mantra_dex_std::epoch_manager::InstantiateMsg', owner='creator', epoch_config=ec)
    I.assume(I.addr_valid('creator'))
    st, r = I.try_call('instantiate', [deps(EM), env(t, EM), message_info('creator', []), msg], CR)
    now = I.ctx.fdiv(t, NS)
    valid = smt.And(d >= 86400, g >= now)
    if st == 'ok' and is_ok(r):
        I.cover('accepted')
        I.check('accepted_only_with_valid_duration_and_future_genesis', valid)
        sd, sg = _stored(I)
        I.check('configuration_stored', smt.And(smt.Eq(sd, d), smt.Eq(sg, g)))
    else:
        I.cover('refused')
        I.check('refused_only_when_invalid', smt.Not(valid))
