"""C18 — epochs partition time (epoch-manager)."""
import json
import z3

from .. import smt
from ..smt import simp
from ..values import *
from .common import *

CR = 'epoch-manager'


def _config(I, d, g):
    ec = mk('mantra_dex_std::epoch_manager::EpochConfig', duration=d, genesis_epoch=g)
    cfg = mk('mantra_dex_std::epoch_manager::Config', epoch_config=ec)
    I.world.store('epoch')['config'] = cfg


def _expected_current(d, g, t):
    now = t // NS
    if now < g:
        return None
    eid = (now - g) // d
    return eid, (g + eid * d) * NS


def _replay_current(times):
    def build(label, m):
        d, g = m['duration'], m['genesis']
        ts = [m[k] for k in times]
        steps = []
        for t in ts:
            steps.append({'op': 'set_time', 'nanos': str(t)})
            steps.append({'op': 'query', 'contract': 'epoch_manager', 'msg': {'current_epoch': {}}})
        sc = {'setup': {'time_nanos': '0', 'epoch': {'genesis': str(g), 'duration': str(d)}}, 'steps': steps}

        def judge(out):
            res = out['results']
            for k, t in enumerate(ts):
                r = res[2 * k + 1]
                exp = _expected_current(d, g, t)
                if exp is None:
                    if 'err' not in r:
                        return True, 'time %d is before genesis %d but the query returned %s' % (t // NS, g, json.dumps(r))
                else:
                    if 'ok' not in r:
                        return True, 'time %d >= genesis %d but the query failed: %s' % (t // NS, g, json.dumps(r)[:200])
                    ep = r['ok']['epoch']
                    if int(ep['id']) != exp[0] or int(ep['start_time']) != exp[1]:
                        return True, 'expected id=%d start=%d, observed %s' % (exp[0], exp[1], json.dumps(ep))
            return False, 'native run agrees with floor((now-genesis)/duration)'
        return sc, judge
    return build


def _replay_epoch(label, m):
    d, g, eid = m['duration'], m['genesis'], m['id']
    sc = {'setup': {'time_nanos': '0', 'epoch': {'genesis': str(g), 'duration': str(d)}},
          'steps': [{'op': 'query', 'contract': 'epoch_manager', 'msg': {'epoch': {'id': eid}}}]}

    def judge(out):
        r = out['results'][0]
        exact = (g + eid * d) * NS
        if exact > U64:
            if 'ok' in r:
                return True, 'start not representable but query returned %s' % json.dumps(r)
            return False, 'fails as required'
        if 'ok' not in r:
            return True, 'representable start %d but query failed: %s' % (exact, json.dumps(r)[:200])
        ep = r['ok']['epoch']
        if int(ep['id']) != eid or int(ep['start_time']) != exact:
            return True, 'expected id=%d start=%d observed %s' % (eid, exact, json.dumps(ep))
        return False, 'native run agrees'
    return sc, judge


def _epoch_of(resp):
    ep = resp.get('epoch')
    return ep.get('id'), ep.get('start_time')


@obligation('C18', 'K1.current_epoch', entries=['query_current_epoch', 'query_epoch'], kind='K',
            statement='now<genesis => Err; else Ok with id=floor((now-g)/d), start=g+id*d, start<=now<start+d; never a panic',
            bounds='duration in [86400, 2^64), genesis, block time (nanoseconds) full u64',
            covers=['ok', 'err_before_genesis'], replay=_replay_current(['block_time_nanos']))
def k1(I):
    d = I.sym('duration', lo=86400, hi=U64)
    g = I.sym('genesis', hi=U64)
    t = I.sym('block_time_nanos', hi=U64)
    _config(I, d, g)
    st, r = I.try_call('query_current_epoch', [deps('epoch'), env(t)], CR)
    now = I.ctx.fdiv(t, NS)
    if st == 'panic':
        I.outcome('panic')
        I.check('no_panic', False)
        return
    if is_err(r):
        I.outcome('err')
        I.cover('err_before_genesis')
        I.check('err_only_before_genesis', now < g)
        return
    I.outcome('ok')
    I.cover('ok')
    eid, start = _epoch_of(r.f[0])
    I.check('ok_only_from_genesis', now >= g)
    q = I.ctx.fdiv(simp(now - g), d)
    I.check('id_is_floor', smt.Eq(eid, q))
    I.check('start_is_genesis_plus_id_times_duration', smt.Eq(start, simp((g + eid * d) * NS)))
    s = simp(g + eid * d)
    I.check('now_within_epoch', smt.And(s <= now, now < s + d))


@obligation('C18', 'K2.epoch_by_id', entries=['query_epoch'], kind='K',
            statement='Epoch{id}: Ok(start = genesis + id*duration) exactly when that instant is representable; otherwise Err/abort, never a wrapped value',
            bounds='id, genesis, duration full u64', covers=['ok', 'fail'], replay=_replay_epoch)
def k2(I):
    d = I.sym('duration', lo=86400, hi=U64)
    g = I.sym('genesis', hi=U64)
    eid = I.sym('id', hi=U64)
    _config(I, d, g)
    st, r = I.try_call('query_epoch', [deps('epoch'), eid], CR)
    exact = simp((g + eid * d) * NS)
    if st == 'panic' or is_err(r):
        I.outcome('fail')
        I.cover('fail')
        I.check('fails_only_when_not_representable', exact > U64)
        return
    I.outcome('ok')
    I.cover('ok')
    rid, start = _epoch_of(r.f[0])
    I.check('id_echoed', smt.Eq(rid, eid))
    I.check('start_exact', smt.Eq(start, exact))
    I.check('start_fits', start <= U64)


@obligation('C18', 'K3.monotone', entries=['query_current_epoch'], kind='R',
            statement='t1<=t2 => id(t1)<=id(t2); id(now+duration) = id(now)+1',
            bounds='all u64', covers=['both_ok'], replay=_replay_current(['t1_nanos', 't2_nanos']))
def k3(I):
    d = I.sym('duration', lo=86400, hi=U64)
    g = I.sym('genesis', hi=U64)
    t1 = I.sym('t1_nanos', hi=U64)
    t2 = I.sym('t2_nanos', hi=U64)
    I.assume(t1 <= t2)
    _config(I, d, g)
    s1, r1 = I.try_call('query_current_epoch', [deps('epoch'), env(t1)], CR)
    s2, r2 = I.try_call('query_current_epoch', [deps('epoch'), env(t2)], CR)
    if s1 == 'ok' and is_ok(r1):
        # once defined, the epoch stays defined as time advances
        I.check('defined_stays_defined', s2 == 'ok' and is_ok(r2))
    if not (s1 == 'ok' and s2 == 'ok' and is_ok(r1) and is_ok(r2)):
        return
    I.cover('both_ok')
    id1, _ = _epoch_of(r1.f[0])
    id2, _ = _epoch_of(r2.f[0])
    I.check('monotone', id1 <= id2)
    n1 = I.ctx.fdiv(t1, NS)
    n2 = I.ctx.fdiv(t2, NS)
    I.check('plus_one_duration', smt.Implies(smt.Eq(n2, n1 + d), smt.Eq(id2, id1 + 1)))
