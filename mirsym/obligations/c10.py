"""C10 — LP weights: weight curve kernels (calculate_weight).  Step/BMC obligations on the
handlers are added in c10 handlers section below once storage-level encodings are in place."""
import json
import z3

from .. import smt
from ..smt import simp
from ..values import *
from .common import *

CR = 'farm-manager'
DAY = 86400
YEAR = 31556926


HINT = {'amount': 10 ** 6, 'duration': 86400 * 30, 'amount1': 10 ** 6, 'amount2': 2 * 10 ** 6, 'duration1': 86400 * 30, 'duration2': 86400 * 60}


def _weight(I, amount, dur, denom='lp'):
    c = coin_v(denom, amount)
    cell = [c]
    return I.try_call('calculate_weight', [Ref(cell, 0), dur], CR)


@obligation('C10', 'K1.weight_bounds', entries=['calculate_weight'], kind='K',
            statement='for durations in [1 day, 1 year]: Ok(w) with amount <= w <= 16*amount; outside the range: Err(InvalidWeight); never a panic for amounts < 2^128',
            bounds='amount full u128, duration full u64', covers=['ok', 'err_range'])
def k1(I):
    I.set_hint(HINT)
    a = I.sym('amount', bits=128)
    d = I.sym('duration', bits=64)
    st, r = _weight(I, a, d)
    inrange = smt.And(d >= DAY, d <= YEAR)
    if st == 'panic':
        I.outcome('panic')
        I.check('no_panic', False)
        return
    if is_err(r):
        I.outcome('err')
        e = r.f[0]
        if isinstance(e, En) and e.var == 'InvalidWeight':
            I.cover('err_range')
            I.check('invalid_weight_only_outside_range', smt.Not(inrange))
        else:
            # arithmetic overflow for huge amounts (weight would not fit): only when 16*amount-ish overflows
            I.check('overflow_only_for_huge_amounts', smt.And(inrange, a * 17 >= (1 << 128)))
        return
    I.outcome('ok')
    I.cover('ok', HINT)
    w = r.f[0]
    I.check('ok_only_in_range', inrange)
    I.check('weight_at_least_amount', w >= a)
    I.check('weight_at_most_16x', w <= 16 * a)


@obligation('C10', 'K2.weight_monotone_amount', entries=['calculate_weight'], kind='R',
            statement='a1 <= a2 => weight(a1, d) <= weight(a2, d)', bounds='amounts full u128, duration in range', covers=['both_ok'])
def k2(I):
    I.set_hint(HINT)
    a1 = I.sym('amount1', bits=128)
    a2 = I.sym('amount2', bits=128)
    d = I.sym('duration', lo=DAY, hi=YEAR)
    I.assume(a1 <= a2)
    s1, r1 = _weight(I, a1, d)
    s2, r2 = _weight(I, a2, d)
    if not (s1 == 'ok' and s2 == 'ok' and is_ok(r1) and is_ok(r2)):
        return
    I.cover('both_ok', HINT)
    I.check('monotone_in_amount', r1.f[0] <= r2.f[0])


@obligation('C10', 'K3.weight_monotone_duration', entries=['calculate_weight'], kind='R',
            statement='d1 <= d2 => weight(a, d1) <= weight(a, d2)', bounds='amount full u128, durations in range', covers=['both_ok'],
            opts={'check_timeout_ms': 120000})
def k3(I):
    I.set_hint(HINT)
    a = I.sym('amount', bits=128)
    d1 = I.sym('duration1', lo=DAY, hi=YEAR)
    d2 = I.sym('duration2', lo=DAY, hi=YEAR)
    I.assume(d1 <= d2)
    s1, r1 = _weight(I, a, d1)
    s2, r2 = _weight(I, a, d2)
    if not (s1 == 'ok' and s2 == 'ok' and is_ok(r1) and is_ok(r2)):
        return
    I.cover('both_ok', HINT)
    I.check('monotone_in_duration', r1.f[0] <= r2.f[0])
