"""C10 — LP weights: weight curve kernels (calculate_weight).  Step/BMC obligations on the
handlers are added in c10 handlers section below once storage-level encodings are in place."""
import json
import z3

from .. import smt
from ..smt import simp
from ..values import *
from .common import *

CR = 'farm-manager'
DAY = 86400
YEAR = 31556926


HINT = {'amount': 10 ** 6, 'duration': 86400 * 30, 'amount1': 10 ** 6, 'amount2': 2 * 10 ** 6, 'duration1': 86400 * 30, 'duration2': 86400 * 60}


def _weight(I, amount, dur, denom='lp'):
    c = coin_v(denom, amount)
    cell = [c]
    return I.try_call('calculate_weight', [Ref(cell, 0), dur], CR)


def _replay_weight(label, m):
    """native: a farm manager configured to allow the model's duration; a position of `amount` with that duration is created through the public message;
    the weight the contract records for the next epoch must lie in [amount, 16 x amount] -- or the position is refused"""
    from .pm import coin_j, rj
    a, d = m['amount'], m['duration']
    if a == 0:
        return None
    cfg = {'min_unlocking_duration': min(d, 86400), 'max_unlocking_duration': max(d, 31556926)}
    steps = [{'op': 'mint', 'to': 'alice', 'funds': [coin_j(LP1, a)]},
             {'op': 'execute', 'contract': 'farm_manager', 'sender': 'alice', 'funds': [coin_j(LP1, a)],
              'msg': {'manage_position': {'action': {'create': {'identifier': None, 'unlocking_duration': d, 'receiver': None}}}}},
             {'op': 'get_weight', 'addr': 'alice', 'denom': rj(LP1), 'epoch': '1'}]
    sc = {'setup': {'time_nanos': '0', 'epoch': {'genesis': '0', 'duration': '86400'}, 'farm': cfg}, 'steps': steps}

    def judge(out):
        tx, w = out['results'][1], out['results'][2]
        if 'ok' not in tx:
            return False, 'position refused natively'
        wv = int(w['ok']) if w.get('ok') not in (None, 'null') else None
        if wv is None:
            return False, 'no weight recorded'
        if wv > 16 * a or wv < a:
            return True, 'a position of %d LP locked for %d s is accepted and weighs %d, outside [amount, 16 x amount] = [%d, %d]' % (a, d, wv, a, 16 * a)
        return False, 'native weight %d within bounds' % wv
    return sc, judge


@obligation('C10', 'K1.weight_bounds', entries=['calculate_weight'], kind='K',
            statement='for durations in [1 day, 1 year]: Ok(w) with amount <= w <= 16*amount; outside the range: Err(InvalidWeight); never a panic for amounts < 2^128',
            bounds='amount full u128, duration full u64', covers=['ok', 'err_range'], replay=_replay_weight)
def k1(I):
    I.set_hint(HINT)
    a = I.sym('amount', bits=128)
    d = I.sym('duration', bits=64)
    st, r = _weight(I, a, d)
    inrange = smt.And(d >= DAY, d <= YEAR)
    if st == 'panic':
        I.outcome('panic')
        I.check('no_panic', False)
        return
    if is_err(r):
        I.outcome('err')
        e = r.f[0]
        if isinstance(e, En) and e.var == 'InvalidWeight':
            I.cover('err_range')
            I.check('invalid_weight_only_outside_range', smt.Not(inrange))
        else:
            # arithmetic overflow for huge amounts (weight would not fit): only when 16*amount-ish overflows
            I.check('overflow_only_for_huge_amounts', smt.And(inrange, a * 17 >= (1 << 128)))
        return
    I.outcome('ok')
    I.cover('ok', HINT)
    w = r.f[0]
    I.check('ok_only_in_range', inrange)
    I.check('weight_at_least_amount', w >= a)
    I.check('weight_at_most_16x', w <= 16 * a)


@obligation('C10', 'K2.weight_monotone_amount', entries=['calculate_weight'], kind='R',
            statement='a1 <= a2 => weight(a1, d) <= weight(a2, d)', bounds='amounts full u128, duration in range', covers=['both_ok'])
def k2(I):
    I.set_hint(HINT)
    a1 = I.sym('amount1', bits=128)
    a2 = I.sym('amount2', bits=128)
    d = I.sym('duration', lo=DAY, hi=YEAR)
    I.assume(a1 <= a2)
    s1, r1 = _weight(I, a1, d)
    s2, r2 = _weight(I, a2, d)
    if not (s1 == 'ok' and s2 == 'ok' and is_ok(r1) and is_ok(r2)):
        return
    I.cover('both_ok', HINT)
    I.check('monotone_in_amount', r1.f[0] <= r2.f[0])


@obligation('C10', 'K3.weight_monotone_duration', entries=['calculate_weight'], kind='R',
            statement='d1 <= d2 => weight(a, d1) <= weight(a, d2)', bounds='amount full u128, durations in range', covers=['both_ok'],
            opts={'check_timeout_ms': 120000})
def k3(I):
    I.set_hint(HINT)
    a = I.sym('amount', bits=128)
    d1 = I.sym('duration1', lo=DAY, hi=YEAR)
    d2 = I.sym('duration2', lo=DAY, hi=YEAR)
    I.assume(d1 <= d2)
    s1, r1 = _weight(I, a, d1)
    s2, r2 = _weight(I, a, d2)
    if not (s1 == 'ok' and s2 == 'ok' and is_ok(r1) and is_ok(r2)):
        return
    I.cover('both_ok', HINT)
    I.check('monotone_in_duration', r1.f[0] <= r2.f[0])


# ---------------------------------------------------------------- handlers: weights move with positions, in step, from the next epoch

from ..chain import Chain, bank_of
from .fm import *
from . import c05
from .c07 import carry


def _resolved(I, addr, epoch):
    return carry(weights_of(I, addr, LP1), epoch)


def _ob_weights(op, pieces=1):
    def s(I):
        # the latest weight snapshots are old (epoch 3), or somebody already acted in the current epoch (snapshots pending at E + 1)
        b, X, v = c05.world(I, weights_at=[3, c05.E + 1][I.choose(2, 'weights_at')])
        # representation invariant: a user's weight is the sum of the weights of their open positions as filled
        # (alice holds one position filled in one piece, or -- pieces=2 -- created with p1 and expanded by pa-p1); the total covers it
        if pieces == 1:
            wst, wr = I.try_call('calculate_weight', [Ref([coin_v(LP1, v['pa'])], 0), 30 * DAY], CR)
            if wst != 'ok' or not is_ok(wr):
                raise Infeasible()
            w_filled = wr.f[0]
        elif pieces == 3:
            # a remainder of earlier piecewise closes: the recorded weight exceeds the weight of the (single) open position by a few units
            wst, wr = I.try_call('calculate_weight', [Ref([coin_v(LP1, v['pa'])], 0), 30 * DAY], CR)
            if wst != 'ok' or not is_ok(wr):
                raise Infeasible()
            rem = I.sym('weight_remainder', lo=1, hi=4)
            w_filled = simp(wr.f[0] + rem)
        else:
            p1 = I.sym('p1', lo=1, hi=U128 // 64)
            I.assume(p1 < v['pa'])
            ws = []
            for part in (p1, simp(v['pa'] - p1)):
                wst, wr = I.try_call('calculate_weight', [Ref([coin_v(LP1, part)], 0), 30 * DAY], CR)
                if wst != 'ok' or not is_ok(wr):
                    raise Infeasible()
                ws.append(wr.f[0])
            w_filled = simp(ws[0] + ws[1])
        wa0 = _resolved(I, 'alice', c05.E + 1)
        I.assume(smt.Eq(wa0, w_filled))
        T0 = _resolved(I, FM, c05.E + 1)
        USERS = ('alice', 'bob', 'carol', 'erin')
        before = {u: _resolved(I, u, c05.E + 1) for u in USERS}
        cur_before = {u: _resolved(I, u, c05.E) for u in USERS + (FM,)}
        if pieces == 1:
            # erin's weight is the sum of the weights of her two single-piece positions
            wsum = 0
            for part in (v['pe1'], v['pe2']):
                wst2, wr2 = I.try_call('calculate_weight', [Ref([coin_v(LP1, part)], 0), 30 * DAY], CR)
                if wst2 != 'ok' or not is_ok(wr2):
                    raise Infeasible()
                wsum = simp(wsum + wr2.f[0])
            I.assume(smt.Eq(before['erin'], wsum))
        ch = Chain(I, CONTRACTS_FM)
        st, _ = c05.run(I, ch, b, op, v)
        I.observe('status', 'ok' if st == 'ok' else 'err')
        for u in ('alice', 'bob', 'carol', 'erin', FM, PMA):
            for e in (c05.E, c05.E + 1):
                snaps = dict(weights_of(I, u, LP1))
                I.observe('snap:%s:%s:%d' % (u, LP1, e), snaps.get(e))
        if st != 'ok':
            I.outcome('rejected')
            return
        I.cover('ok', c05.HINT)
        T1 = _resolved(I, FM, c05.E + 1)
        after = {u: _resolved(I, u, c05.E + 1) for u in USERS}
        I.check('pool_manager_holds_no_weight', smt.Eq(_resolved(I, PMA, c05.E + 1), 0))
        du = sum((after[u] - before[u]) for u in after)
        if pieces in (2, 3):
            # the inductive step of `total >= sum of the users' weights`: the total never drops by more than the users' weights do
            I.check('total_never_drops_by_more_than_the_users_weights', T1 - T0 >= du)
            if pieces == 3 and op in ('close_full', 'emergency_open'):
                I.check('user_without_open_position_has_no_weight', smt.Eq(after['alice'], 0))
            return
        I.check('total_moves_exactly_with_the_users', smt.Eq(T1 - T0, du))
        I.check('total_still_covers_the_users', T1 >= sum(after.values()))
        for u in USERS + (FM,):
            if u == 'alice' and op in ('close_full', 'emergency_open'):
                # a user who leaves an LP token entirely has the whole history cleared (reconcile_user_state); her rewards were
                # claimed before closing, or are forfeited by an emergency exit (pinned by the suite) -- not asserted
                continue
            I.check('current_epoch_weights_untouched', smt.Eq(_resolved(I, u, c05.E), cur_before[u]))
        if op in ('withdraw_unlocked', 'emergency_closed', 'claim', 'claim_until', 'create_farm', 'expand_farm', 'close_farm', 'close_lp_reward_farm'):
            I.check('no_weight_change_without_an_open_position_change', smt.And(smt.Eq(T1, T0), smt.Eq(du, 0)))
        if op in ('expand_position', 'expand_by_pool_manager'):
            amt = I.inputs['amount']
            s2, r2 = I.try_call('calculate_weight', [Ref([coin_v(LP1, amt)], 0), 30 * DAY], CR)
            I.check('top_up_adds_its_weight_to_the_position_owner', smt.Eq(after['alice'] - before['alice'], r2.f[0]))
        if op in ('create_position', 'create_by_pool_manager'):
            amt = I.inputs['amount']
            s2, r2 = I.try_call('calculate_weight', [Ref([coin_v(LP1, amt)], 0), 30 * DAY], CR)
            I.check('new_position_adds_its_weight_from_next_epoch', smt.Eq(after['carol'], r2.f[0]))
        if op == 'close_one_of_two':
            s3, r3 = I.try_call('calculate_weight', [Ref([coin_v(LP1, v['pe2'])], 0), 30 * DAY], CR)
            I.check('user_keeps_the_weight_of_her_remaining_open_position', smt.Eq(after['erin'], r3.f[0]))
        if op in ('close_full', 'emergency_open'):
            I.check('user_without_open_position_has_no_weight', smt.Eq(after['alice'], 0))
            snaps = dict(weights_of(I, 'alice', LP1))
            # (whether the history is deleted or zeroed is an implementation choice; the property is the zero weight checked above)
    return s


def _replay_w(op):
    inner = c05._replay(op)
    return inner


for _op in c05.OPS:
    obligation('C10', 'S1.weights_after_%s' % _op, entries=['execute', 'update_weights', 'get_latest_address_weight', 'reconcile_user_state', 'calculate_weight'],
               kind='S', statement='%s: the total LP weight and the weight of the acting user recorded for the next epoch move by exactly the same amount (closed positions, '
                                   'claims and farm operations move nothing); the weights in effect for the current epoch are untouched; the total still covers the users; '
                                   'a user left without open positions has no weight' % _op,
               bounds='state of C05 with the weight of alice equal to the weight of her single-piece position; symbolic amounts', covers=['ok'],
               replay=_replay_w(_op))(_ob_weights(_op))


for _op in ('expand_position', 'close_full', 'close_partial', 'emergency_open'):
    obligation('C10', 'S2.two_piece_position_%s' % _op, entries=['execute', 'update_weights', 'get_latest_address_weight', 'reconcile_user_state', 'calculate_weight'],
               kind='S', statement='%s on a position that was created with p1 and topped up with pa-p1 (user weight = weight(p1) + weight(pa-p1), which can be below '
                                   'weight(pa) by rounding): the total weight never drops by more than the users weights do, so the total keeps covering the sum' % _op,
               bounds='state of C05; alice holds one position filled in two pieces with symbolic sizes; symbolic amounts', covers=['ok'],
               replay=_replay_w(_op))(_ob_weights(_op, pieces=2))


for _op in ('close_full', 'emergency_open'):
    obligation('C10', 'S2.remainder_weight_%s' % _op, entries=['execute', 'update_weights', 'get_latest_address_weight', 'reconcile_user_state', 'calculate_weight'],
               kind='S', statement='%s of the last open position of a user whose recorded weight exceeds the position weight by a rounding remainder (left by earlier '
                                   'piecewise closes): she ends without weight in the LP token, and the total never drops by more than her weight did' % _op,
               bounds='state of C05; remainder 1..4 units; symbolic amounts', covers=['ok'], replay=_replay_w(_op))(_ob_weights(_op, pieces=3))


# ---------------------------------------------------------------- a user at the limit of closed positions who still has an open one

def _replay_many_closed(m):
    ep = 20
    pos = [('u-a%d' % k, LP1, 5, DAY, 'zoe', m['now_s'] + 50 * DAY) for k in range(10)]
    pos += [('u-y', LP1, m['py'], 30 * DAY, 'zoe', None), ('u-z', LP1, m['pz'], 30 * DAY, 'zoe', None)]
    return {'now_s': m['now_s'], 'positions': pos, 'counters': {'position': 30},
            'weights': [('zoe', LP1, ep, m['w_zoe']), ('farm_manager', LP1, ep, m['T'])],
            'mints': [('farm_manager', [(LP1, 50 + m['py'] + m['pz'])])],
            'txs': [('zoe', {'manage_position': {'action': {'withdraw': {'identifier': 'u-y', 'emergency_unlock': True}}}}, [])]}


@obligation('C10', 'S4.open_position_behind_ten_closed_ones', entries=['execute', 'withdraw_position', 'reconcile_user_state', 'update_weights'], kind='S',
            statement='a user holding the maximum of ten closed positions (identifiers sorting first) and two open ones leaves ONE open position by emergency exit: '
                      'she keeps the weight of the remaining open position, the total drops by the weight of the position she left, her history is not wiped',
            bounds='10 closed + 2 open positions of one user, symbolic amounts / time; no farms', covers=['ok'], replay=fm_replay(lambda m: _replay_many_closed(m)))
def s4_many_closed(I):
    I.set_hint({'now_s': 20 * DAY + 5, 'epoch': 20, 'py': 10 ** 5, 'pz': 2 * 10 ** 5, 'w_zoe': 352200, 'T': 10 ** 7})
    fm_config(I)
    now = I.sym('now_s', hi=U64 // NS - 3 * YEAR)
    ep = 20                      # concrete epoch (the weight snapshots are observed by epoch number); the time inside it is symbolic
    set_epoch(I, ep, now_s=now)
    I.world.store(FM)['position_id_counter'] = 30
    b = bank_of(I)
    py = I.sym('py', lo=1, hi=U128 // 64)
    pz = I.sym('pz', lo=1, hi=U128 // 64)
    for k in range(10):
        put_position(I, position('u-a%d' % k, LP1, 5, DAY, 'zoe', simp(now + 50 * DAY)))
    put_position(I, position('u-y', LP1, py, 30 * DAY, 'zoe', None))
    put_position(I, position('u-z', LP1, pz, 30 * DAY, 'zoe', None))
    b.set(FM, LP1, simp(50 + py + pz))
    ws = []
    for part in (py, pz):
        st_, r_ = I.try_call('calculate_weight', [Ref([coin_v(LP1, part)], 0), 30 * DAY], CR)
        if st_ != 'ok' or not is_ok(r_):
            raise Infeasible()
        ws.append(r_.f[0])
    wz = I.sym('w_zoe', lo=1, hi=U128 // 4)
    I.assume(smt.Eq(wz, ws[0] + ws[1]))
    T = I.sym('T', lo=1, hi=U128 // 2)
    I.assume(T >= wz)
    put_weight(I, 'zoe', LP1, ep, wz)
    put_weight(I, FM, LP1, ep, T)
    ch = Chain(I, CONTRACTS_FM)
    st, _ = ch.execute('zoe', FM, manage_position('Withdraw', identifier='u-y', emergency_unlock=Some(True)), [])
    I.observe('status', 'ok' if st == 'ok' else 'err')
    for e_ in (ep, ep + 1):
        for u in ('zoe', FM):
            I.observe('snap:%s:%s:%d' % (u, LP1, e_), dict(weights_of(I, u, LP1)).get(e_))
    observe_position(I, 'u-y')
    observe_position(I, 'u-z')
    observe_balances(I, b, [('zoe', LP1), (FM, LP1)])
    if st != 'ok':
        I.outcome('rejected')
        return
    I.cover('ok')
    nxt = ep + 1
    zs = weights_of(I, 'zoe', LP1)
    ts = weights_of(I, FM, LP1)

    def latest(snaps):
        # the snapshot recorded for the next epoch if any, else the carried one
        for e_, w_ in snaps:
            if I.values_eq(e_, nxt) is True:
                return w_
        return None
    zw, tw = latest(zs), latest(ts)
    I.check('user_keeps_the_weight_of_her_remaining_open_position', zw is not None and smt.Eq(zw, ws[1]))
    I.check('total_drops_by_the_weight_of_the_position_left', tw is not None and smt.Eq(tw, T - ws[0]))
    I.check('remaining_open_position_untouched', get_position(I, 'u-z') is not None and get_position(I, 'u-z').get('open') is True)

from . import lockdep   # noqa: E402,F401  (cross-contract locked-deposit obligations registered for this property)
