"""C13 — price protections: kernels on assert_max_slippage / assert_slippage_tolerance."""
import json
import z3

from .. import smt
from ..smt import simp
from ..values import *
from .common import *
from .pm import *

HALF = 5 * 10 ** 17
DEFAULT = 10 ** 16


def _ams(I, belief, maxs, offer, ret, slip):
    return I.try_call('assert_max_slippage', [belief, maxs, offer, ret, slip], CR)


def _cap(t):
    return smt.Min(t, HALF)


def _opt_tol(I, name='max_slippage_atomics'):
    """Option<Decimal>: None or Some(symbolic)"""
    if I.fork(I.symbool(name + '_is_none')):
        return NONE(), DEFAULT
    t = I.sym(name, hi=U128)
    return Some(t), _cap(t)


@obligation('C13', 'K1.max_slippage_no_belief', entries=['assert_max_slippage'], kind='K',
            statement='without belief price: accepted iff floor(slippage*1e18/(return+slippage)) <= min(max_slippage or 1%, 50%); '
                      'abort only when return+slippage is 0 or overflows u128',
            bounds='offer, return, slippage full u128; tolerance None or any Decimal', covers=['ok', 'err'])
def k1(I):
    I.set_hint({'offer': 1000, 'return_amount': 990, 'slippage_amount': 5, 'max_slippage_atomics': 10 ** 17})
    tol, s = _opt_tol(I)
    offer = I.sym('offer', bits=128)
    ret = I.sym('return_amount', bits=128)
    slip = I.sym('slippage_amount', bits=128)
    st, r = _ams(I, NONE(), tol, offer, ret, slip)
    tot = ret + slip
    if st == 'panic':
        I.outcome('abort')
        I.check('abort_only_on_zero_or_overflow', smt.Or(smt.Eq(tot, 0), tot > U128))
        return
    ratio = I.ctx.fdiv(simp(slip * E18), tot)
    if is_ok(r):
        I.cover('ok')
        I.check('accepted_only_within_tolerance', ratio <= s)
    else:
        I.cover('err')
        I.check('rejected_only_beyond_tolerance', ratio > s)


@obligation('C13', 'K1b.max_slippage_belief', entries=['assert_max_slippage'], kind='K',
            statement='with belief price p: expected = floor(offer * floor(1e36/p) / 1e18); accepted iff return >= expected or '
                      'floor((expected-return)*1e18/expected) <= tolerance; zero belief price is rejected',
            bounds='all amounts full u128, p any Decimal', covers=['ok', 'err', 'zero_price'])
def k1b(I):
    I.set_hint({'offer': 1000, 'return_amount': 990, 'slippage_amount': 5, 'max_slippage_atomics': 10 ** 17, 'belief_price_atomics': E18})
    tol, s = _opt_tol(I)
    offer = I.sym('offer', bits=128)
    ret = I.sym('return_amount', bits=128)
    slip = I.sym('slippage_amount', bits=128)
    p = I.sym('belief_price_atomics', bits=128)
    st, r = _ams(I, Some(p), tol, offer, ret, slip)
    if st == 'panic':
        I.outcome('abort')
        # Decimal256 multiplication cannot overflow here: offer*1e18 * 1e36 / 1e18 < 2^256
        I.check('no_abort', False)
        return
    if I.fork(smt.Eq(p, 0)):
        I.cover('zero_price')
        I.check('zero_price_rejected', is_err(r))
        return
    inv = I.ctx.fdiv(E18 * E18, p)
    expected = I.ctx.fdiv(I.ctx.fdiv(simp(offer * E18 * inv), E18), E18)
    short = z3.If(expected >= ret, expected - ret, 0)
    if is_ok(r):
        I.cover('ok')
        if I.fork(ret >= expected):
            return
        I.check('accepted_only_within_tolerance', I.ctx.fdiv(simp(short * E18), expected) <= s)
        if I.opts.get('tier') == 'thorough':
            # against the exact rational X = offer/p: return >= X*(1-s) - (X/1e18 + offer/1e18 + 2) units
            # (18-decimal resolution of the inverse price, of the product and of the ratio)
            I.check('accepted_vs_exact_price', (ret + 2) * E18 * p + offer * p + offer * E18 >= offer * E18 * (E18 - s))
    else:
        I.cover('err')
        I.check('rejected_only_when_short', ret < expected)
        I.check('rejected_only_beyond_tolerance', I.ctx.fdiv(simp(short * E18), expected) > s)


@obligation('C13', 'K2.max_slippage_monotone', entries=['assert_max_slippage'], kind='R',
            statement='a swap accepted at tolerance t1 is accepted at every t2 >= t1 (with and without belief price)',
            bounds='all amounts full u128', covers=['both'])
def k2(I):
    I.set_hint({'offer': 1000, 'return_amount': 990, 'slippage_amount': 5, 't1': 10 ** 17, 't2': 2 * 10 ** 17, 'belief_price_atomics': E18})
    offer = I.sym('offer', bits=128)
    ret = I.sym('return_amount', bits=128)
    slip = I.sym('slippage_amount', bits=128)
    t1 = I.sym('t1', bits=128)
    t2 = I.sym('t2', bits=128)
    I.assume(t1 <= t2)
    if I.fork(I.symbool('with_belief')):
        b = Some(I.sym('belief_price_atomics', bits=128))
    else:
        b = NONE()
    s1, r1 = _ams(I, clone(b), Some(t1), offer, ret, slip)
    if s1 != 'ok' or not is_ok(r1):
        return
    s2, r2 = _ams(I, clone(b), Some(t2), offer, ret, slip)
    I.cover('both')
    I.check('larger_tolerance_accepts', s2 == 'ok' and is_ok(r2))


# ---------------------------------------------------------------- deposits (constant product)

def _ast(I, tol, deposits, reserves, ptype=None, denoms=('uA', 'uB')):
    dep = Vc([coin_v(d, a) for d, a in zip(denoms, deposits)])
    pool = Vc([coin_v(d, a) for d, a in zip(denoms, reserves)])
    cell = [tol]
    return I.try_call('assert_slippage_tolerance', [Ref(cell, 0), Ref([dep], 0), Ref([pool], 0, True), ptype or xyk()], CR)


def _within(I, a, b, x, y, t):
    """deposit ratio within tolerance of the pool ratio, both directions (18-decimal floors)"""
    f = I.ctx.fdiv
    one_minus = E18 - t
    l1 = f(simp(f(simp(a * E18), b) * one_minus), E18)
    l2 = f(simp(f(simp(b * E18), a) * one_minus), E18)
    return smt.And(l1 <= f(simp(x * E18), y), l2 <= f(simp(y * E18), x))


@obligation('C13', 'K3.deposit_tolerance_xyk', entries=['assert_slippage_tolerance'], kind='K',
            statement='constant-product deposit with tolerance t: t > 1 refused; a deposit in exact pool proportion is accepted for every t in [0,1]; '
                      'an empty pool accepts anything; accepted iff both ratio tests pass (18-decimal floors)',
            bounds='deposits in [1, 2^128), reserves full u128', covers=['ok', 'err', 'too_big'])
def k3(I):
    I.set_hint({'deposit_a': 1000, 'deposit_b': 2000, 'reserve_x': 10 ** 6, 'reserve_y': 2 * 10 ** 6, 'tolerance': 10 ** 16})
    a = I.sym('deposit_a', lo=1, hi=U128)
    b = I.sym('deposit_b', lo=1, hi=U128)
    x = I.sym('reserve_x', bits=128)
    y = I.sym('reserve_y', bits=128)
    t = I.sym('tolerance', bits=128)
    st, r = _ast(I, Some(t), [a, b], [x, y])
    if st == 'panic':
        I.outcome('abort')
        # ratios of 128-bit numbers scaled by 1e18 fit Decimal256; divisors are >= 1
        I.check('no_abort', False)
        return
    empty = smt.Or(smt.Eq(x, 0), smt.Eq(y, 0))
    if is_ok(r):
        I.cover('ok')
        I.check('accepted_only_valid_tolerance', smt.Or(empty, t <= E18))
        if I.fork(empty):
            return
        within = _within(I, a, b, x, y, t)
        I.check('accepted_only_within_tolerance', within)
    else:
        I.cover('err')
        I.check('never_rejects_empty_pool', smt.Not(empty))
        if I.fork(t > E18):
            I.cover('too_big')
            return
        I.check('proportional_deposit_never_rejected', smt.Not(smt.Eq(a * y, b * x)))
        I.check('rejected_only_beyond_tolerance', smt.Not(_within(I, a, b, x, y, t)))


@obligation('C13', 'K4.deposit_tolerance_monotone', entries=['assert_slippage_tolerance'], kind='R',
            statement='constant-product deposit accepted at tolerance t1 is accepted at every t2 in [t1, 1]',
            bounds='as K3', covers=['both'])
def k4(I):
    I.set_hint({'deposit_a': 1000, 'deposit_b': 2000, 'reserve_x': 10 ** 6, 'reserve_y': 2 * 10 ** 6, 't1': 10 ** 16, 't2': 10 ** 17})
    a = I.sym('deposit_a', lo=1, hi=U128)
    b = I.sym('deposit_b', lo=1, hi=U128)
    x = I.sym('reserve_x', bits=128)
    y = I.sym('reserve_y', bits=128)
    t1 = I.sym('t1', hi=E18)
    t2 = I.sym('t2', hi=E18)
    I.assume(t1 <= t2)
    s1, r1 = _ast(I, Some(t1), [a, b], [x, y])
    if s1 != 'ok' or not is_ok(r1):
        return
    s2, r2 = _ast(I, Some(t2), [a, b], [x, y])
    I.cover('both')
    I.check('larger_tolerance_accepts', s2 == 'ok' and is_ok(r2))


# ---------------------------------------------------------------- handler level (replayable through the public Swap message)

from ..chain import Chain, bank_of
from .c04 import CONTRACTS, swap_msg, setup_world, _replay_s1, HINT as HINT4


def _ob_swap_tolerance(with_tol, belief=False):
    def s(I):
        I.set_hint(dict(HINT4, belief_price_atomics=E18 // 2))
        x = I.sym('reserve_x', lo=1, hi=U128)
        y = I.sym('reserve_y', lo=1, hi=U128)
        fees, (p, sf, bu, ex) = sym_fees(I, 0)
        pool = pool_info('p1', ['uA', 'uB'], [6, 6], [x, y], xyk(), fees)
        b = setup_world(I, pool)
        o = I.sym('offer', lo=1, hi=U128)
        b.set('trader', 'uA', o)
        b.supply['uA'] = simp(b.supply['uA'] + o)
        I.assume(b.supply['uA'] <= U128)      # the bank's total supply of a denom fits 128 bits
        if with_tol:
            tol = I.sym('max_slippage_atomics', hi=U128)
            cap = _cap(tol)
            tol_v = Some(tol)
        else:
            cap = DEFAULT
            tol_v = None
        ch = Chain(I, CONTRACTS)
        pre = b.snapshot()
        bp = I.sym('belief_price_atomics', lo=1, hi=U128) if belief else None
        st, resp = ch.execute('trader', PM, swap_msg('uB', 'p1', max_slippage=tol_v, belief=Some(bp) if belief else None), [coin_v('uA', o)])
        if st != 'ok':
            I.outcome('rejected')
            return
        I.cover('ok', dict(HINT4, belief_price_atomics=E18 // 2))
        I.observe('status', 'ok')
        observe_pool(I, 'p1')
        observe_bank(I, b, [(PM, 'uA'), (PM, 'uB'), ('trader', 'uA'), ('trader', 'uB'), ('fee_collector', 'uB')], ['uB'])
        f = I.ctx.fdiv
        gross = f(simp(y * o), x + o)
        fee_sum = simp(f(simp(gross * sf), E18) + f(simp(gross * p), E18) + f(simp(gross * bu), E18))
        ret = simp(gross - fee_sum)
        spot = f(simp(y * E18), x)
        at_spot = f(simp(o * spot), E18)
        slip = simp(at_spot - gross + fee_sum)
        if belief:
            # what the caller expects at the believed price: offer / belief (18-decimal inverse, rounded down as documented)
            expected = f(f(simp(o * E18 * f(E18 * E18, bp)), E18), E18)
            short = z3.If(expected >= ret, expected - ret, 0)
            I.check('executes_only_within_tolerance_of_belief_price',
                    smt.Or(ret >= expected, f(simp(short * E18), expected) <= cap))
            I.check('receiver_got_the_return', smt.Eq(b.get('trader', 'uB') - pre.get('trader', 'uB'), ret))
            return
        I.check('executes_only_within_tolerance', f(simp(slip * E18), simp(ret + slip)) <= cap)
        I.check('receiver_got_the_return', smt.Eq(b.get('trader', 'uB') - pre.get('trader', 'uB'), ret))
    return s


for _wt in (True, False):
    obligation('C13', 'S1.swap_enforces_%s' % ('caller_tolerance' if _wt else 'default_tolerance'),
               entries=['execute', 'swap::commands::swap', 'perform_swap', 'compute_swap', 'assert_max_slippage'], kind='S',
               statement='an executed constant-product swap has (price impact + fees) / (return + price impact + fees), measured against the pre-trade spot price, '
                         'within min(max_slippage, 50%%)%s' % ('' if _wt else ' = 1% when omitted'),
               bounds='reserves, offer [1,2^128), real is_valid fees, tolerance %s' % ('any Decimal' if _wt else 'omitted'),
               covers=['ok'], replay=_replay_s1(0, 'none') if _wt else None)(_ob_swap_tolerance(_wt))

obligation('C13', 'S1.swap_enforces_belief_price', entries=['execute', 'swap::commands::swap', 'perform_swap', 'compute_swap', 'assert_max_slippage'], kind='S',
           statement='an executed constant-product swap with a belief price p pays the trader at least floor(offer/p) or falls short of it by a fraction '
                     'of at most min(max_slippage, 50%) -- measured on what the trader receives, not on return + spread',
           bounds='reserves, offer [1,2^128), real is_valid fees, belief price and tolerance any Decimal', covers=['ok'],
           replay=_replay_s1(0, 'none', belief=True))(_ob_swap_tolerance(True, belief=True))


# ---------------------------------------------------------------- stableswap: the spread the tolerance is applied to (units), Newton solver abstracted

def _abs_stableswap_y(I, args):
    """calculate_stableswap_y as an arbitrary function: one fresh 256-bit result (or Err) per call.  The obligation is about the
    units of the spread computed AROUND the solver's result, so it must hold for whatever new pool balance the solver returns."""
    n = I.world.meta.setdefault('y_calls', 0)
    I.world.meta['y_calls'] = n + 1
    ok = I.symbool('y%d_ok' % n)
    if I.ctx.wit is not None:
        I.ctx.wit_define(ok, True)
    v = I.sym('new_ask_pool%d' % n, bits=256)
    if not I.fork(ok):
        return Err(En('pool_manager::error::ContractError', 'SwapOverflowError'))
    return Ok(v)


STABLE_PRESETS = {(6, 18): dict(x=10 ** 6 * 10 ** 6, y=10 ** 6 * 10 ** 18, offer=9 * 10 ** 5 * 10 ** 6),
                  (18, 6): dict(x=10 ** 6 * 10 ** 18, y=10 ** 6 * 10 ** 6, offer=9 * 10 ** 5 * 10 ** 18),
                  (6, 6): dict(x=10 ** 6 * 10 ** 6, y=10 ** 6 * 10 ** 6, offer=9 * 10 ** 5 * 10 ** 6)}


def _replay_stable(do, da):
    """native run on a real stableswap pool (real Newton solver): a sale of 90% of the pool size at the default 1% tolerance; confirmed when it
    executes although the trader receives less than offer * (1 - 1%) in real terms"""
    def rb(label, m):
        from .c02 import _mints
        from ..replayer import run_scenario
        ps = STABLE_PRESETS[(do, da)]
        pool = pool_json('p1', ['uA', 'uB'], [do, da], [ps['x'], ps['y']], {'stable_swap': {'amp': 100}}, (0, 0, 0, []))
        steps = [{'op': 'set_pool', 'pool': pool}]
        steps += _mints([('pool_manager', [('uA', ps['x']), ('uB', ps['y'])]), ('trader', [('uA', ps['offer'])])])
        steps.append({'op': 'execute', 'contract': 'pool_manager', 'sender': 'trader', 'funds': [coin_j('uA', ps['offer'])],
                      'msg': {'swap': {'ask_asset_denom': 'uB', 'belief_price': None, 'max_slippage': None, 'receiver': None, 'pool_identifier': 'p1'}}})
        steps.append({'op': 'balance', 'addr': 'trader', 'denom': 'uB'})
        sc = {'setup': {}, 'steps': steps}
        res = run_scenario(sc).get('results')
        if not res or 'ok' not in res[-2]:
            return None
        got = int(res[-1]['ok'])
        # real terms, 18-decimal fixed point
        o_real = ps['offer'] * 10 ** (18 - do)
        r_real = got * 10 ** (18 - da)
        if r_real * 100 < o_real * 99:
            why = ('stableswap %d/%d decimals, pool 1e6/1e6 tokens: selling 9e5 tokens with the default 1%% tolerance executes and pays %s tokens '
                   '(%.2f%% less than offered)' % (do, da, r_real / 1e18, 100.0 * (o_real - r_real) / o_real))
            return sc, (lambda out, w=why: (True, w))
        return None
    return rb


def _ob_stable_units(do, da):
    def s(I):
        I.set_hint({'reserve_x': 10 ** 6 * 10 ** do, 'reserve_y': 10 ** 6 * 10 ** da, 'offer': 10 ** 3 * 10 ** do, 'new_ask_pool0': (10 ** 6 - 999) * 10 ** 18,
                    'max_slippage_atomics': 10 ** 16, 'pm_balance_A': 10 ** 7 * 10 ** do, 'pm_balance_B': 10 ** 7 * 10 ** da,
                    'supply_A': 10 ** 8 * 10 ** do, 'supply_B': 10 ** 8 * 10 ** da})
        x = I.sym('reserve_x', lo=1, hi=U128)
        y = I.sym('reserve_y', lo=1, hi=U128)
        pool = pool_info('p1', ['uA', 'uB'], [do, da], [x, y], stable(100), pool_fee(0, 0, 0))
        b = setup_world(I, pool)
        o = I.sym('offer', lo=1, hi=U128)
        b.set('trader', 'uA', o)
        b.supply['uA'] = simp(b.supply['uA'] + o)
        I.assume(b.supply['uA'] <= U128)      # the bank's total supply of a denom fits 128 bits
        tol = I.sym('max_slippage_atomics', hi=U128)
        cap = _cap(tol)
        ch = Chain(I, CONTRACTS)
        pre = b.snapshot()
        st, resp = ch.execute('trader', PM, swap_msg('uB', 'p1', max_slippage=Some(tol)), [coin_v('uA', o)])
        if st != 'ok':
            I.outcome('rejected')
            return
        I.cover('ok')
        got = simp(b.get('trader', 'uB') - pre.get('trader', 'uB'))
        # both sides in 18-decimal real terms; slack: one unit of each precision plus the 18-decimal floor of the ratio
        o_real = simp(o * 10 ** (18 - do))
        r_real = simp(got * 10 ** (18 - da))
        slack = 10 ** (18 - do) + 10 ** (18 - da)
        I.check('executes_only_if_received_value_within_tolerance_of_offered_value',
                (r_real + slack) * E18 + o_real >= o_real * (E18 - cap))
    return s


for _do, _da in ((6, 6), (6, 18), (18, 6)):
    obligation('C13', 'S2.stableswap_swap_tolerance_decimals_%d_%d' % (_do, _da),
               entries=['execute', 'swap::commands::swap', 'perform_swap', 'compute_swap', 'assert_max_slippage', 'Decimal256Helper'], kind='S',
               statement='an executed stableswap swap (no belief price, zero fees) on a pool with %d / %d decimals delivers, in real (decimal-adjusted) terms, at least '
                         'offer x (1 - min(max_slippage, 50%%)) up to one unit of each precision: the spread the tolerance is applied to is measured in the same units as the return, '
                         'whatever new pool balance the Newton solver returns' % (_do, _da),
               bounds='reserves, offer [1,2^128), tolerance any Decimal; calculate_stableswap_y replaced by an arbitrary 256-bit result or error', covers=['ok'],
               abstractions=['calculate_stableswap_y replaced by an arbitrary function (fresh 256-bit result or Err per call)'],
               opts={'abstract': {'pool-manager::calculate_stableswap_y': _abs_stableswap_y}}, replay=_replay_stable(_do, _da))(_ob_stable_units(_do, _da))



# ---------------------------------------------------------------- deposit tolerance at handler level (the pool ratio BEFORE the deposit)

from . import c02 as _c02   # noqa: E402


def _replay_s3(m):
    sc, idx = _c02._replay_provide_later(m)
    sc['steps'][idx]['msg'] = {'provide_liquidity': {'pool_identifier': 'p1', 'liquidity_max_slippage': dec_j(m['tolerance'])}}
    return sc, idx


@obligation('C13', 'S3.deposit_executes_only_within_tolerance', entries=['execute', 'provide_liquidity', 'assert_slippage_tolerance'], kind='S',
            statement='a two-asset deposit into a funded constant-product pool with liquidity_max_slippage = t executes only if the deposit ratio is within t of the pool ratio '
                      'as it was BEFORE the deposit (both directions, 18-decimal floors)',
            bounds='reserves, supply, deposits [1,2^128), tolerance any Decimal, real is_valid fees', covers=['ok'],
            replay=generic_replay(lambda m: _replay_s3(m)))
def s3_dep(I):
    I.set_hint(dict(_c02.HINT, tolerance=10 ** 17))
    x, y, S, b = _c02.setup_funded_pool(I)
    a = I.sym('deposit_a', lo=1, hi=U128)
    bb = I.sym('deposit_b', lo=1, hi=U128)
    b.set('lp1', 'uA', a)
    b.set('lp1', 'uB', bb)
    t = I.sym('tolerance', hi=U128)
    ch = Chain(I, _c02.CONTRACTS)
    st, resp = ch.execute('lp1', PM, _c02.provide_msg('p1', liq_slip=Some(t)), [coin_v('uA', a), coin_v('uB', bb)])
    I.observe('status', 'ok' if st == 'ok' else 'err')
    observe_pool(I, 'p1')
    observe_bank(I, b, [('lp1', 'uA'), ('lp1', 'uB'), ('lp1', _c02.LP), (PM, 'uA'), (PM, 'uB')], [_c02.LP])
    if st != 'ok':
        I.outcome('rejected')
        return
    I.cover('ok', dict(_c02.HINT, tolerance=10 ** 17))
    I.check('tolerance_at_most_one', t <= E18)
    I.check('executes_only_within_tolerance_of_the_pre_deposit_ratio', _within(I, a, bb, x, y, t))

# ---------------------------------------------------------------- deposit tolerance on stableswap pools ("usable on every pool type")
# The Curve arithmetic runs on concrete pools (its loops are not encoded symbolically); the caller's tolerance is the symbolic input.

STABLE_SHAPES = [
    # (reserves, decimals, amp, divisor of the reserves giving the exact-proportion deposit)
    ((10 ** 6, 10 ** 6), (6, 6), 100, 1000),
    ((3 * 10 ** 12, 10 ** 12), (6, 6), 85, 10 ** 6),
    ((10 ** 9, 10 ** 21), (6, 18), 100, 1000),
]


def _replay_s4(m):
    res, decs, amp, div = STABLE_SHAPES[m.get('_choices', {}).get('param:stable_pool_shape', 0)]
    dep = [r // div for r in res]
    sup = 10 ** 9
    steps = [{'op': 'set_pool', 'pool': pool_json('p1', ['uA', 'uB'], list(decs), list(res), {'stable_swap': {'amp': amp}}, (0, 0, 0, []))},
             {'op': 'mint', 'to': 'pool_manager', 'funds': [coin_j('uA', res[0]), coin_j('uB', res[1]), coin_j(_c02.LP, _c02.MINLIQ)]},
             {'op': 'mint', 'to': 'holder', 'funds': [coin_j(_c02.LP, sup - _c02.MINLIQ)]},
             {'op': 'mint', 'to': 'lp1', 'funds': [coin_j('uA', dep[0]), coin_j('uB', dep[1])]},
             {'op': 'execute', 'contract': 'pool_manager', 'sender': 'lp1', 'funds': [coin_j('uA', dep[0]), coin_j('uB', dep[1])],
              'msg': {'provide_liquidity': {'pool_identifier': 'p1', 'liquidity_max_slippage': dec_j(m['tolerance'])}}}]
    return {'setup': {}, 'steps': steps}, len(steps) - 1


@obligation('C13', 'S4.stableswap_deposit_with_tolerance', entries=['execute', 'provide_liquidity', 'assert_slippage_tolerance', 'compute_d'], kind='S',
            statement='a deposit in exact pool proportion into a funded stableswap pool is accepted under every valid liquidity_max_slippage; a tolerance above 100% is refused; '
                      'a refused deposit changes nothing',
            bounds='three concrete two-asset stableswap pools (equal and 6/18 decimals; the Curve iterations run on concrete values), deposit = reserves / 1000 (or / 1e6); '
                   'tolerance symbolic over every Decimal', covers=['ok_or_known'], opts={'loop_bound': 300}, replay=generic_replay(lambda m: _replay_s4(m)))
def s4_stable_dep(I):
    I.set_hint({'tolerance': 10 ** 16})
    res, decs, amp, div = I.param('stable_pool_shape', STABLE_SHAPES)
    pm_config(I)
    b = bank_of(I)
    put_pool(I, pool_info('p1', ['uA', 'uB'], list(decs), list(res), stable(amp), pool_fee(0, 0, 0)))
    b.set(PM, 'uA', res[0]); b.set(PM, 'uB', res[1])
    sup = 10 ** 9
    b.set(PM, _c02.LP, _c02.MINLIQ); b.set('holder', _c02.LP, sup - _c02.MINLIQ)
    b.supply[_c02.LP] = sup
    dep = [r // div for r in res]
    b.set('lp1', 'uA', dep[0]); b.set('lp1', 'uB', dep[1])
    t = I.sym('tolerance', hi=U128)
    pre = b.snapshot()
    ch = Chain(I, _c02.CONTRACTS)
    st, resp = ch.execute('lp1', PM, _c02.provide_msg('p1', liq_slip=Some(t)), [coin_v('uA', dep[0]), coin_v('uB', dep[1])])
    I.observe('status', 'ok' if st == 'ok' else 'err')
    observe_pool(I, 'p1')
    observe_bank(I, b, [('lp1', 'uA'), ('lp1', 'uB'), ('lp1', _c02.LP), (PM, 'uA'), (PM, 'uB')], [_c02.LP])
    I.cover('ok_or_known', {'tolerance': 10 ** 16})
    if st == 'ok':
        I.check('tolerance_at_most_one', t <= E18)
        return
    I.check('refused_deposit_changes_nothing', smt.And(smt.Eq(b.get('lp1', 'uA'), pre.get('lp1', 'uA')), smt.Eq(b.get('lp1', _c02.LP), pre.get('lp1', _c02.LP)),
                                                    smt.Eq(b.supply[_c02.LP], pre.supply[_c02.LP])))
    # known finding C13-stableswap-deposit-tolerance: (sqrt(D1)/sqrt(D0))^2 >= 1 is compared with the tolerance itself
    I.check('exact_proportion_deposit_accepted_under_a_valid_tolerance', t > E18)


# ---------------------------------------------------------------- multi-hop minimum_receive (clause shared with C04's routed-swap obligations)
from . import c04 as _c04   # noqa: E402
share('C04', 'C13', 'H', lambda n: n in ('R1.route_hops_AB_BC', 'R1.route_hops_AB_BA_AB', 'R2.minimum_receive_boundary_AB_BC', 'R2.minimum_receive_boundary_AB_BA'))

# ---------------------------------------------------------------- the deposit tolerance of a SINGLE-ASSET deposit (clause shared with C14's relational obligations)
from . import c14 as _c14   # noqa: E402
share('C14', 'C13', 'D', lambda n: n.startswith('R1.') and 'with_liquidity_tolerance' in n)
