"""Farm-manager pre-state builders and the epoch-manager contract used by it (assume-guarantee: C18)."""
import z3

from .. import smt
from ..smt import simp
from ..values import *
from ..models_cw import MapStore, mk, mk_enum, coin_v
from ..interp import DEFAULT_ABSTRACTIONS, model_re
from ..models_core import deref
from ..chain import Chain, bank_of
from .common import *

FM = 'farm_manager'
CRF = 'farm-manager'
PMA = 'pool_manager'
EM = 'epoch_manager'
FC = 'fee_collector'
LP1 = 'factory/pool_manager/p1.LP'
LP2 = 'factory/pool_manager/p2.LP'
DAY = 86400
YEAR = 31556926
CONTRACTS_FM = {FM: 'farm-manager'}


def fm_config(I, fee=None, max_concurrent=2, buffer=14, min_unlock=DAY, max_unlock=YEAR, expiration=2629746, penalty=10 ** 17):
    cfg = mk('mantra_dex_std::farm_manager::Config', fee_collector_addr=FC, epoch_manager_addr=EM, pool_manager_addr=PMA,
             create_farm_fee=fee if fee is not None else coin_v('uom', 1000), max_concurrent_farms=max_concurrent,
             max_farm_epoch_buffer=buffer, min_unlocking_duration=min_unlock, max_unlocking_duration=max_unlock,
             farm_expiration_time=expiration, emergency_unlock_penalty=penalty)
    I.world.store(FM)['config'] = cfg
    return cfg


def set_epoch(I, epoch_id, genesis=0, duration=DAY, now_nanos=None, now_s=None):
    """the epoch manager as seen by the farm manager: id = floor((now-genesis)/duration) (C18)"""
    I.world.meta['epoch'] = {'id': epoch_id, 'genesis': genesis, 'duration': duration}
    if now_s is not None:
        now_nanos = simp(now_s * NS)
        # the contract proved for the epoch manager (C18): start(id) <= now < start(id+1)
        I.assume(smt.And(genesis + epoch_id * duration <= now_s, now_s < genesis + (epoch_id + 1) * duration))
    if now_nanos is not None:
        I.world.meta['time_nanos'] = now_nanos


def _abs_get_current_epoch(I, args):
    e = I.world.meta.get('epoch')
    if e is None:
        raise Unsupported('epoch not set in world')
    start = simp((e['genesis'] + e['id'] * e['duration']) * NS)
    return Ok(mk('mantra_dex_std::epoch_manager::Epoch', id=e['id'], start_time=start))


DEFAULT_ABSTRACTIONS['mantra-dex-std::get_current_epoch'] = _abs_get_current_epoch


@model_re(r'^QuerierWrapper::query_wasm_smart$')
def query_wasm_smart(I, c):
    target = deref(c.args[1])
    msg = deref(c.args[2])
    if target == EM:
        e = I.world.meta.get('epoch')
        if msg.var == 'Epoch':
            eid = msg.f[0]
            start = simp(e['genesis'] + eid * e['duration'])
            if I.fork(start * NS > U64):
                return Err(En('StdError', 'GenericErr', ['epoch start overflow']))
            ep = mk('mantra_dex_std::epoch_manager::Epoch', id=eid, start_time=simp(start * NS))
            return Ok(mk('mantra_dex_std::epoch_manager::EpochResponse', epoch=ep))
        if msg.var == 'CurrentEpoch':
            r = _abs_get_current_epoch(I, [])
            return Ok(mk('mantra_dex_std::epoch_manager::EpochResponse', epoch=r.f[0]))
        raise Unsupported('epoch manager query ' + msg.var)
    crate = I.world.meta.get('contracts', {}).get(target)
    if crate is None:
        return Err(En('StdError', 'GenericErr', ['no such contract']))
    from .common import deps, env
    st, r = I.try_call('query', [deps(target), env(I.world.meta.get('time_nanos', 0), target), clone(msg)], crate)
    if st == 'panic' or r.var == 'Err':
        return Err(En('StdError', 'GenericErr', ['querier contract error']))
    payload = r.f[0]
    return Ok(clone(payload.data))


def position(ident, denom, amount, dur, receiver, expiring_at=None):
    return mk('mantra_dex_std::farm_manager::Position', identifier=ident, lp_asset=coin_v(denom, amount), unlocking_duration=dur,
              open=expiring_at is None, expiring_at=NONE() if expiring_at is None else Some(expiring_at), receiver=receiver)


def put_position(I, pos):
    st = I.world.store(FM)
    ms = st.get('positions')
    if ms is None:
        ms = MapStore()
        st['positions'] = ms
    ms.entries.append([(pos.get('identifier'),), pos])


def get_position(I, ident):
    ms = I.world.store(FM).get('positions')
    if ms is None:
        return None
    for k, v in ms.entries:
        if k[0] == ident:
            return v
    return None


def all_positions(I):
    ms = I.world.store(FM).get('positions')
    return [] if ms is None else [v for _, v in ms.entries]


def farm(ident, owner, lp_denom, reward_denom, funded, claimed, rate, start, end):
    return mk('mantra_dex_std::farm_manager::Farm', identifier=ident, owner=owner, lp_denom=lp_denom, farm_asset=coin_v(reward_denom, funded),
              claimed_amount=claimed, emission_rate=rate, curve=mk_enum('mantra_dex_std::farm_manager::Curve', 'Linear'),
              start_epoch=start, preliminary_end_epoch=end)


def put_farm(I, f):
    st = I.world.store(FM)
    ms = st.get('farms')
    if ms is None:
        ms = MapStore()
        st['farms'] = ms
    ms.entries.append([(f.get('identifier'),), f])


def get_farm(I, ident):
    ms = I.world.store(FM).get('farms')
    if ms is None:
        return None
    for k, v in ms.entries:
        if k[0] == ident:
            return v
    return None


def put_weight(I, addr, denom, epoch, w):
    st = I.world.store(FM)
    ms = st.get('lp_weight_history')
    if ms is None:
        ms = MapStore()
        st['lp_weight_history'] = ms
    ms.entries.append([(addr, denom, epoch), w])


def weights_of(I, addr, denom):
    ms = I.world.store(FM).get('lp_weight_history')
    if ms is None:
        return []
    return [(k[2], v) for k, v in ms.entries if k[0] == addr and k[1] == denom]


def put_last_claimed(I, addr, epoch):
    st = I.world.store(FM)
    ms = st.get('last_claimed_epoch')
    if ms is None:
        ms = MapStore()
        st['last_claimed_epoch'] = ms
    ms.entries.append([(addr,), epoch])


def last_claimed_of(I, addr):
    ms = I.world.store(FM).get('last_claimed_epoch')
    if ms is None:
        return None
    for k, v in ms.entries:
        if k[0] == addr:
            return v
    return None


def manage_position(action, **kw):
    act = mk_enum('mantra_dex_std::farm_manager::PositionAction', action, **kw)
    return mk_enum('mantra_dex_std::farm_manager::ExecuteMsg', 'ManagePosition', action=act)


def manage_farm(action, **kw):
    act = mk_enum('mantra_dex_std::farm_manager::FarmAction', action, **kw)
    return mk_enum('mantra_dex_std::farm_manager::ExecuteMsg', 'ManageFarm', action=act)


def claim_msg(until=None):
    return mk_enum('mantra_dex_std::farm_manager::ExecuteMsg', 'Claim', until_epoch=NONE() if until is None else Some(until))


def set_ownership(I, ckey, owner='admin', pending=None, expiry=None):
    o = mk('cw_ownable::Ownership', owner=NONE() if owner is None else Some(owner),
           pending_owner=NONE() if pending is None else Some(pending), pending_expiry=NONE() if expiry is None else Some(expiry))
    I.world.store(ckey)['ownership'] = o
    return o


def farm_params(lp_denom, reward, start=None, end=None, ident=None):
    return mk('mantra_dex_std::farm_manager::FarmParams', lp_denom=lp_denom, start_epoch=NONE() if start is None else Some(start),
              preliminary_end_epoch=NONE() if end is None else Some(end), curve=NONE(), farm_asset=reward,
              farm_identifier=NONE() if ident is None else Some(ident))


# ---------------------------------------------------------------- native replay of farm-manager states

def fm_state_steps(I_or_none, positions=(), farms=(), weights=(), last_claimed=(), now_s=None, mints=()):
    """replay steps that inject a farm-manager pre-state (all values concrete)"""
    from .pm import rj, coin_j
    steps = []
    if now_s is not None:
        steps.append({'op': 'set_time', 'nanos': str(now_s * NS)})
    for (ident, denom, amount, dur, receiver, exp) in positions:
        steps.append({'op': 'set_position', 'position': {'identifier': ident, 'lp_asset': coin_j(denom, amount), 'unlocking_duration': dur,
                                                        'open': exp is None, 'expiring_at': exp, 'receiver': '@' + receiver}})
    for (ident, owner, lp, rd, funded, claimed, rate, start, end) in farms:
        steps.append({'op': 'set_farm', 'farm': {'identifier': ident, 'owner': '@' + owner, 'lp_denom': rj(lp), 'farm_asset': coin_j(rd, funded),
                                                'claimed_amount': str(claimed), 'emission_rate': str(rate), 'curve': 'linear',
                                                'start_epoch': start, 'preliminary_end_epoch': end}})
    for (addr, denom, epoch, w) in weights:
        steps.append({'op': 'set_weight', 'addr': addr, 'denom': rj(denom), 'epoch': str(epoch), 'weight': str(w)})
    for (addr, epoch) in last_claimed:
        steps.append({'op': 'set_last_claimed', 'addr': addr, 'epoch': str(epoch)})
    for (to, coins) in mints:
        cs = [coin_j(d, a) for d, a in coins if int(a) > 0]
        if cs:
            steps.append({'op': 'mint', 'to': to, 'funds': cs})
    return steps


def observe_position(I, ident):
    p = get_position(I, ident)
    if p is None:
        I.observe('pos:%s:amount' % ident, None)
        return
    I.observe('pos:%s:amount' % ident, p.get('lp_asset').get('amount'))
    I.observe('pos:%s:open' % ident, p.get('open'))
    e = p.get('expiring_at')
    I.observe('pos:%s:expiring_at' % ident, None if e.var == 'None' else e.f[0])
    I.observe('pos:%s:receiver' % ident, p.get('receiver'))


def observe_farm(I, ident):
    f = get_farm(I, ident)
    if f is None:
        I.observe('farm:%s:funded' % ident, None)
        return
    I.observe('farm:%s:funded' % ident, f.get('farm_asset').get('amount'))
    I.observe('farm:%s:claimed' % ident, f.get('claimed_amount'))
    I.observe('farm:%s:end' % ident, f.get('preliminary_end_epoch'))


def observe_balances(I, b, keys):
    for (a, d) in keys:
        I.observe('bal:%s:%s' % (a, d), b.get(a, d))


def fm_replay(build):
    """build(model) -> dict(now_s, positions, farms, weights, last_claimed, mints, counters, config, txs=[(sender, msg_json, funds)])"""
    from .pm import generic_replay, coin_j

    def b2(m):
        d = build(m)
        steps = fm_state_steps(None, positions=d.get('positions', ()), farms=d.get('farms', ()), weights=d.get('weights', ()),
                               last_claimed=d.get('last_claimed', ()), now_s=d.get('now_s'), mints=d.get('mints', ()))
        for which, val in d.get('counters', {}).items():
            steps.append({'op': 'set_counter', 'which': which, 'value': str(val)})
        steps += d.get('pre_tx_steps', [])          # e.g. native fault injection armed right before the transaction(s)
        for (sender, msg, funds) in d['txs']:
            steps.append({'op': 'execute', 'contract': 'farm_manager', 'sender': sender, 'funds': [coin_j(dd, a) for dd, a in funds], 'msg': msg})
        farmcfg = {'max_concurrent_farms': 2}
        farmcfg.update(d.get('config', {}))
        sc = {'setup': {'time_nanos': '0', 'epoch': {'genesis': '0', 'duration': str(DAY)}, 'farm': farmcfg}, 'steps': steps}
        return sc, len(steps) - 1
    return generic_replay(b2)
