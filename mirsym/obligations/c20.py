"""C20 — rejected or partially failing operations leave no trace (relative to the chain model's rollback rule)."""
import json
import z3

from .. import smt
from ..smt import simp
from ..values import *
from ..chain import Chain, bank_of
from .common import *
from .pm import *
from .fm import *
from . import c17, c05, c11
from .c04 import CONTRACTS

HINT = {}


def _world_digest(I, ch):
    st, bk = ch.snapshot()
    return st, bk


def _same_world(I, a, b):
    """structural equality of two (storage, bank) snapshots as a Bool term"""
    sa, ba = a
    sb, bb = b
    conds = []
    if set(sa.keys()) != set(sb.keys()):
        return False
    for ck in sa:
        if set(sa[ck].keys()) != set(sb[ck].keys()):
            return False
        for ns in sa[ck]:
            ka, va = sa[ck][ns]
            kb, vb = sb[ck][ns]
            if ka != kb:
                return False
            if ka == 'map':
                if len(va) != len(vb):
                    return False
                for (k1, v1), (k2, v2) in zip(va, vb):
                    conds.append(I.values_eq(St('()', list(k1)), St('()', list(k2))))
                    conds.append(I.values_eq(v1, v2))
            else:
                conds.append(I.values_eq(va, vb))
    keys = set(ba.bal.keys()) | set(bb.bal.keys())
    for k in keys:
        conds.append(smt.Eq(ba.get(*k), bb.get(*k)))
    for d in set(ba.supply.keys()) | set(bb.supply.keys()):
        conds.append(smt.Eq(ba.supply.get(d, 0), bb.supply.get(d, 0)))
    return smt.And(*conds)


def _ob_pm(op):
    def s(I):
        b, res, amt, amt_b = c17.world(I, (True, True, True))
        lp_amt = I.sym('lp_amount', lo=1, hi=U128 // 8)
        I.assume(lp_amt <= res['p1'][2] - 1000)
        I.assume(lp_amt <= res['p2'][2] - 1000)
        k = I.choose(6, 'fault_at')          # 0 = no fault, 1..5 = the k-th outgoing bank / token-factory / wasm call fails
        ch = Chain(I, CONTRACTS)
        ch.fault_inject = (lambda n, kind, detail: n == k) if k else None
        pre = ch.snapshot()
        st, _ = c17.run_op(I, ch, op, amt, amt_b, lp_amt)
        hit = k != 0 and ch.calls >= k
        for (c, mode, mid, kind, sub) in ch.submsgs:
            I.check('pool_manager_only_uses_never_or_reply_on_success', mode in ('Never', 'Success'))
        if hit:
            I.cover('fault_hit')
            I.check('internal_failure_fails_the_whole_message', st != 'ok')
        if st != 'ok':
            I.check('failed_message_leaves_no_trace', _same_world(I, pre, ch.snapshot()))
            I.check('no_buffer_left_behind', 'single_side_liquidity_provision_buffer' not in I.world.store(PM))
        else:
            I.cover('committed')
    return s


for _op in ('swap_p1', 'route_p1_p2', 'provide_p1', 'single_sided_p1', 'withdraw_p1'):
    obligation('C20', 'F1.pool_manager_%s_with_fault' % _op, entries=['execute', 'reply'], kind='S',
               statement='%s with a failure injected at the k-th internal bank / token-factory / contract call (k = none, 1..5): every emitted sub-message is reply-never or '
                         'reply-on-success, so any internal failure fails the whole message; a failed message leaves storage (incl. the single-asset buffer), balances and '
                         'supplies exactly as before (rollback rule of the platform, assumed)' % _op,
               bounds='two funded pools, symbolic amounts, fault position in {none,1,...,5}', covers=['fault_hit', 'committed'],
               abstractions=[ABSTRACT_PRICING_NOTE], opts={'abstract': ABSTRACT_PRICING})(_ob_pm(_op))


CLOSING_OPS = ('create_farm', 'close_farm')      # the only operations allowed to tolerate a failure: the refund of a closed farm


def _ob_fm(op):
    def s(I):
        b, X, v = c05.world(I)
        k = I.choose(5, 'fault_at')
        ch = Chain(I, CONTRACTS_FM)
        hit_msg = []
        sends = [0]

        def inject(n, kind, detail):
            if kind == 'send':
                sends[0] += 1
            if n == k:
                hit_msg.append(ch.submsgs[-1] if ch.submsgs else None)
                # which bank transfer (counted among transfers only) fails: reproduced natively by the replayer's fault-injecting bank
                I.choices['fault_send_index'] = sends[0] if kind == 'send' else 0
                return True
            return False
        ch.fault_inject = inject if k else None
        st, _ = c05.run(I, ch, b, op, v)
        pre = ch.last_pre
        I.observe('status', 'ok' if st == 'ok' else 'err')
        observe_balances(I, b, [('alice', 'uusd'), ('alice', LP1), ('bob', LP1)])

        def is_refund(m):
            (c, mode, mid, kind, sub) = m
            # in this world no farm has expired, so creating a farm closes none: only the manual close has a refund to tolerate
            # (the automatic close on creation is F3's subject)
            return op == 'close_farm' and mode == 'Error' and mid == 1 and kind == 'Bank' and sub == 'Send'
        for m in ch.submsgs:
            # reply-never and reply-on-success cannot swallow a failure; reply-on-error / always is tolerated for the farm-closing refund only
            I.check('farm_manager_reply_modes', m[1] in ('Never', 'Success') or is_refund(m))
        if hit_msg and not (hit_msg[0] is not None and is_refund(hit_msg[0])):
            I.cover('fault_hit')
            I.check('internal_failure_fails_the_whole_message', st != 'ok')
        if st != 'ok':
            I.check('failed_message_leaves_no_trace', _same_world(I, pre, ch.snapshot()))
        else:
            I.cover('committed')
    return s


def _replay_fm_fault(op):
    """native reproduction of `the k-th internal transfer fails`: the replayer's bank is told to fail exactly that transfer"""
    inner = c05._build(op)

    def build(m):
        d = inner(m)
        idx = m.get('_choices', {}).get('fault_send_index', 0)
        if m.get('_choices', {}).get('fault_at', 0) != 0 and idx == 0:
            raise ValueError('the injected failure is not a bank transfer: not reproducible by the fault-injecting bank')
        if idx:
            # natively the funds attached to the message reach the contract through a bank transfer of their own, which comes first
            shift = 1 if any(int(a) > 0 for _, a in d['txs'][-1][2]) else 0
            d['pre_tx_steps'] = [{'op': 'fail_send_number', 'n': idx + shift}]
        return d
    return fm_replay(build)


for _op in ('create_position', 'withdraw_unlocked', 'emergency_open', 'claim', 'create_farm', 'expand_farm'):
    obligation('C20', 'F2.farm_manager_%s_with_fault' % _op, entries=['execute', 'reply'], kind='S',
               statement='%s with a failure injected at the k-th internal call: sub-messages are reply-never (only close-farm refunds use reply-on-error id 1), so the '
                         'failure fails the whole message and nothing changes' % _op,
               bounds='farm-manager state of C05, fault position in {none,1,...,4}',
               covers=['committed'] if _op in ('create_position', 'expand_farm') else ['fault_hit', 'committed'],
               replay=_replay_fm_fault(_op))(_ob_fm(_op))


def _ob_close_refund_fails(auto):
    def s(I):
        I.set_hint(c11.HINT)
        now = I.sym('now_s', hi=U64 // NS - 2 * YEAR)
        ep = I.sym('epoch', lo=60, hi=10 ** 9)
        set_epoch(I, ep, now_s=now)
        set_ownership(I, FM, 'creator')
        I.world.store(FM)['farm_counter'] = 3
        fm_config(I, fee=coin_v('uom', 1000), max_concurrent=2)
        b = bank_of(I)
        funded = I.sym('funded', lo=1, hi=U128 // 4)
        claimed = I.sym('claimed', hi=U128)
        I.assume(claimed < funded)
        put_farm(I, farm('m-x', 'fowner', LP1, 'uusd', funded, claimed, 1, 1, 3))          # ended long ago: expired
        other_f = I.sym('f2_funded', lo=1, hi=U128 // 4)
        put_farm(I, farm('m-y', 'owner2', LP2, 'uusd', other_f, 0, 1, simp(ep - 1), simp(ep + 5)))
        put_position(I, position('u-a', LP1, 77, DAY, 'alice', None))
        b.set(FM, 'uusd', simp(funded - claimed + other_f))
        b.set(FM, LP1, 77)
        fail = I.choose(2, 'refund_fails') == 1
        ch = Chain(I, CONTRACTS_FM)
        ch.fault_inject = (lambda n, kind, detail: kind == 'send' and detail[1] == 'fowner') if fail else None
        pre = b.snapshot()
        if auto:
            reward = I.sym('reward', lo=1000, hi=U128 // 4)
            b.set('dave', 'uusd', reward)
            b.set('dave', 'uom', 1000)
            st, _ = ch.execute('dave', FM, manage_farm('Create', params=farm_params(LP1, coin_v('uusd', reward), simp(ep + 1), simp(ep + 5))),
                               [coin_v('uom', 1000), coin_v('uusd', reward)])
        else:
            st, _ = ch.execute('fowner', FM, manage_farm('Close', farm_identifier='m-x'), [])
        I.observe('status', 'ok' if st == 'ok' else 'err')
        observe_farm(I, 'm-x')
        observe_farm(I, 'm-y')
        observe_position(I, 'u-a')
        observe_balances(I, b, [('fowner', 'uusd'), ('owner2', 'uusd'), (FM, 'uusd'), (FM, LP1)])
        I.cover('done')
        I.cover('done_refund_fails' if fail else 'done_refund_paid')
        I.check('close_not_blocked_by_failing_refund', st == 'ok')
        if st != 'ok':
            return
        I.check('farm_removed_either_way', get_farm(I, 'm-x') is None)
        I.check('other_farm_untouched', get_farm(I, 'm-y') is not None and I.values_eq(get_farm(I, 'm-y').get('farm_asset').get('amount'), other_f) is True)
        I.check('position_untouched', get_position(I, 'u-a') is not None)
        if fail:
            I.check('failed_refund_stays_in_contract', smt.Eq(b.get('fowner', 'uusd'), pre.get('fowner', 'uusd')))
            kept = simp(b.get(FM, 'uusd') - pre.get(FM, 'uusd'))
            I.check('nothing_else_leaves_the_contract', kept >= 0 if auto else smt.Eq(kept, 0))
        else:
            I.check('refund_paid_when_transfer_works', smt.Eq(b.get('fowner', 'uusd'), pre.get('fowner', 'uusd') + funded - claimed))
        I.check('no_other_balance_changes', smt.And(smt.Eq(b.get('owner2', 'uusd'), pre.get('owner2', 'uusd')), smt.Eq(b.get(FM, LP1), pre.get(FM, LP1))))
    return s


def _replay_close_refund(auto):
    """native: the same two farms and position; when the refund is to fail, transfers to the farm owner are blocked in the replayer's bank"""
    def build(m):
        ep = m['epoch']
        fail = m.get('_choices', {}).get('refund_fails', 0) == 1
        d = {'now_s': m['now_s'], 'counters': {'farm': 3},
             'farms': [('m-x', 'fowner', LP1, 'uusd', m['funded'], m['claimed'], 1, 1, 3), ('m-y', 'owner2', LP2, 'uusd', m['f2_funded'], 0, 1, ep - 1, ep + 5)],
             'positions': [('u-a', LP1, 77, DAY, 'alice', None)],
             'mints': [('farm_manager', [('uusd', m['funded'] - m['claimed'] + m['f2_funded']), (LP1, 77)])],
             'config': {'create_farm_fee': {'denom': 'uom', 'amount': '1000'}, 'max_concurrent_farms': 2},
             'pre_tx_steps': [{'op': 'block_recipient', 'addr': 'fowner'}] if fail else []}
        if auto:
            d['mints'].append(('dave', [('uusd', m['reward']), ('uom', 1000)]))
            d['txs'] = [('dave', c11._farm_msg('create', params=c11._params_json('uusd', m['reward'], ep + 1, ep + 5)), [('uom', 1000), ('uusd', m['reward'])])]
        else:
            d['txs'] = [('fowner', c11._farm_msg('close', farm_identifier='m-x'), [])]
        return d
    return fm_replay(build)


for _auto in (False, True):
    obligation('C20', 'F3.close_farm_refund_failure_%s' % ('auto_close_on_create' if _auto else 'manual_close'),
               entries=['execute', 'close_farm', 'create_farm', 'close_farms', 'reply'], kind='S',
               statement='the refund transfer of a closed farm fails (tolerated): the close (or the creation that auto-closes an expired farm) still succeeds, the farm is '
                         'removed, the remainder stays in the contract, no other farm, position or balance differs from the run where the transfer works',
               bounds='one expired farm with symbolic budget, one live farm on another LP, one position; refund transfer fails or not', covers=['done', 'done_refund_fails', 'done_refund_paid'],
               replay=_replay_close_refund(_auto))(_ob_close_refund_fails(_auto))


# ---------------------------------------------------------------- two expired farms of one owner, one refund cannot be paid

def _replay_two_refunds(m):
    ep = m['epoch']
    return {'now_s': m['now_s'], 'counters': {'farm': 3},
            'farms': [('m-x', 'fowner', LP1, 'uusd', m['funded'], m['claimed'], 1, 1, 3), ('m-z', 'fowner', LP1, 'uom', m['funded_z'], m['claimed_z'], 1, 1, 3)],
            'positions': [('u-a', LP1, 77, DAY, 'alice', None)],
            'mints': [('farm_manager', [('uom', m['funded_z'] - m['claimed_z']), (LP1, 77)]), ('dave', [('uatom', m['reward']), ('uom', 1000)])],
            'config': {'create_farm_fee': {'denom': 'uom', 'amount': '1000'}, 'max_concurrent_farms': 3},
            'txs': [('dave', c11._farm_msg('create', params=c11._params_json('uatom', m['reward'], ep + 1, ep + 5)), [('uatom', m['reward']), ('uom', 1000)])]}


@obligation('C20', 'F3.two_expired_farms_one_refund_unpayable', entries=['execute', 'create_farm', 'close_farms', 'reply'], kind='S',
            statement='a creation auto-closes TWO expired farms of the same owner paying different denoms; the contract cannot pay the remainder of the first (it does not hold '
                      'the tokens): the creation still succeeds, both farms are removed, and the refund of the OTHER farm is paid in full -- the tolerated failure affects nothing else',
            bounds='two expired farms with symbolic budgets (uusd: unpayable, uom: payable), a new farm paying a third denom; symbolic time', covers=['done'],
            replay=fm_replay(lambda m: _replay_two_refunds(m)))
def f3_two(I):
    I.set_hint(dict(c11.HINT, funded=10 ** 6, claimed=10, funded_z=10 ** 6, claimed_z=10, reward=10 ** 6))
    now = I.sym('now_s', hi=U64 // NS - 2 * YEAR)
    ep = I.sym('epoch', lo=60, hi=10 ** 9)
    set_epoch(I, ep, now_s=now)
    set_ownership(I, FM, 'creator')
    I.world.store(FM)['farm_counter'] = 3
    fm_config(I, fee=coin_v('uom', 1000), max_concurrent=3)
    b = bank_of(I)
    funded = I.sym('funded', lo=1, hi=U128 // 4)
    claimed = I.sym('claimed', hi=U128)
    I.assume(claimed < funded)
    fz = I.sym('funded_z', lo=1, hi=U128 // 4)
    cz = I.sym('claimed_z', hi=U128)
    I.assume(cz < fz)
    put_farm(I, farm('m-x', 'fowner', LP1, 'uusd', funded, claimed, 1, 1, 3))      # expired; the contract holds NO uusd: its refund cannot be paid
    put_farm(I, farm('m-z', 'fowner', LP1, 'uom', fz, cz, 1, 1, 3))                # expired; payable
    put_position(I, position('u-a', LP1, 77, DAY, 'alice', None))
    b.set(FM, 'uom', simp(fz - cz))
    b.set(FM, LP1, 77)
    reward = I.sym('reward', lo=1000, hi=U128 // 4)
    b.set('dave', 'uatom', reward)
    b.set('dave', 'uom', 1000)
    ch = Chain(I, CONTRACTS_FM)
    pre = b.snapshot()
    st, _ = ch.execute('dave', FM, manage_farm('Create', params=farm_params(LP1, coin_v('uatom', reward), simp(ep + 1), simp(ep + 5))),
                       [coin_v('uatom', reward), coin_v('uom', 1000)])
    I.observe('status', 'ok' if st == 'ok' else 'err')
    observe_farm(I, 'm-x')
    observe_farm(I, 'm-z')
    observe_balances(I, b, [('fowner', 'uusd'), ('fowner', 'uom'), (FM, 'uusd'), (FM, 'uom'), (FM, 'uatom'), (FM, LP1)])
    I.cover('done')
    I.check('close_not_blocked_by_failing_refund', st == 'ok')
    if st != 'ok':
        return
    I.check('both_expired_farms_removed', get_farm(I, 'm-x') is None and get_farm(I, 'm-z') is None)
    I.check('payable_refund_of_the_other_farm_paid_in_full', smt.Eq(b.get('fowner', 'uom'), pre.get('fowner', 'uom') + fz - cz))
    I.check('unpayable_refund_moves_nothing', smt.And(smt.Eq(b.get('fowner', 'uusd'), pre.get('fowner', 'uusd')), smt.Eq(b.get(FM, 'uusd'), pre.get(FM, 'uusd'))))
    I.check('position_untouched', get_position(I, 'u-a') is not None and smt.Eq(b.get(FM, LP1), pre.get(FM, LP1)))

from . import lockdep   # noqa: E402,F401  (a lock refused by the farm manager fails the whole deposit)
