"""Pool-manager pre-state builders."""
import z3

from .. import smt
from ..smt import simp
from ..values import *
from ..models_cw import MapStore
from .common import *

CR = 'pool-manager'
PM = 'pool_manager'        # storage key / contract address label of the pool manager


def fee(share):
    return mk('mantra_dex_std::fee::Fee', share=share)


def pool_fee(protocol, swap, burn, extra=()):
    return mk('mantra_dex_std::fee::PoolFee', protocol_fee=fee(protocol), swap_fee=fee(swap), burn_fee=fee(burn),
              extra_fees=Vc([fee(x) for x in extra]))


def sym_fees(I, n_extra=0, prefix='', validate=True):
    """symbolic fee shares accepted by the real PoolFee::is_valid (executed from the dependency's MIR)"""
    p = I.sym(prefix + 'protocol_fee', hi=U128)
    s = I.sym(prefix + 'swap_fee', hi=U128)
    b = I.sym(prefix + 'burn_fee', hi=U128)
    ex = [I.sym('%sextra_fee%d' % (prefix, i), hi=U128) for i in range(n_extra)]
    pf = pool_fee(p, s, b, ex)
    if validate:
        st, r = I.try_call_method('PoolFee::is_valid', [Ref([pf], 0)])
        if st != 'ok' or not is_ok(r):
            raise Infeasible()
    return pf, (p, s, b, ex)


def pool_status(sw=True, dep=True, wd=True):
    return mk('mantra_dex_std::pool_manager::PoolStatus', swaps_enabled=sw, deposits_enabled=dep, withdrawals_enabled=wd)


def pool_info(ident, denoms, decimals, reserves, pool_type, fees, status=None, lp_denom=None):
    return mk('mantra_dex_std::pool_manager::PoolInfo',
              pool_identifier=ident,
              asset_denoms=Vc(list(denoms)),
              lp_denom=lp_denom if lp_denom is not None else 'factory/pool_manager/%s.LP' % ident,
              asset_decimals=Vc(list(decimals)),
              assets=Vc([coin_v(d, r) for d, r in zip(denoms, reserves)]),
              pool_type=pool_type,
              pool_fees=fees,
              status=status or pool_status())


def xyk():
    return mk_enum('mantra_dex_std::pool_manager::PoolType', 'ConstantProduct')


def stable(amp):
    return mk_enum('mantra_dex_std::pool_manager::PoolType', 'StableSwap', amp=amp)


def put_pool(I, pool):
    st = I.world.store(PM)
    ms = st.get('pools')
    if ms is None:
        ms = MapStore()
        st['pools'] = ms
    ms.entries.append([(pool.get('pool_identifier'),), pool])


def get_pool(I, ident):
    ms = I.world.store(PM).get('pools')
    for k, v in ms.entries:
        if k[0] == ident:
            return v
    return None


def pm_config(I, fee_collector='fee_collector', farm_manager='farm_manager', creation_fee=None):
    cfg = mk('mantra_dex_std::pool_manager::Config', fee_collector_addr=fee_collector, farm_manager_addr=farm_manager,
             pool_creation_fee=creation_fee if creation_fee is not None else coin_v('uusd', 1000))
    I.world.store(PM)['config'] = cfg
    return cfg


def reserves_of(pool):
    return [c.get('amount') for c in pool.get('assets').e]
