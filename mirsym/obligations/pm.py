"""Pool-manager pre-state builders."""
import z3

from .. import smt
from ..smt import simp
from ..values import *
from ..models_cw import MapStore
from .common import *

CR = 'pool-manager'
PM = 'pool_manager'        # storage key / contract address label of the pool manager


def fee(share):
    return mk('mantra_dex_std::fee::Fee', share=share)


def pool_fee(protocol, swap, burn, extra=()):
    return mk('mantra_dex_std::fee::PoolFee', protocol_fee=fee(protocol), swap_fee=fee(swap), burn_fee=fee(burn),
              extra_fees=Vc([fee(x) for x in extra]))


# fee configurations of the worlds whose fees are concrete (the swap-accounting obligations of C03/C04/C13 use fully symbolic fees instead):
# the quick tier takes the one selected by VERIF_SEED, the thorough tier all of them
# (option 0, the one every quick run with VERIF_SEED=0 uses, has EVERY kind of fee non-zero)
FEE_OPTIONS = [(10 ** 15, 2 * 10 ** 15, 10 ** 15, (10 ** 15,)), (10 ** 15, 2 * 10 ** 15, 0, ()), (0, 0, 0, ()),
               (5 * 10 ** 16, 10 ** 17, 3 * 10 ** 16, (10 ** 16, 5 * 10 ** 15))]


def param_fees(I):
    o = I.param('fees', FEE_OPTIONS)
    return pool_fee(o[0], o[1], o[2], o[3])


def fees_of_model(m):
    o = FEE_OPTIONS[m.get('_choices', {}).get('param:fees', 0)]
    return (o[0], o[1], o[2], list(o[3]))


def sym_fees(I, n_extra=0, prefix='', validate=True):
    """symbolic fee shares accepted by the real PoolFee::is_valid (executed from the dependency's MIR)"""
    p = I.sym(prefix + 'protocol_fee', hi=U128)
    s = I.sym(prefix + 'swap_fee', hi=U128)
    b = I.sym(prefix + 'burn_fee', hi=U128)
    ex = [I.sym('%sextra_fee%d' % (prefix, i), hi=U128) for i in range(n_extra)]
    pf = pool_fee(p, s, b, ex)
    if validate:
        st, r = I.try_call_method('PoolFee::is_valid', [Ref([pf], 0)])
        if st != 'ok' or not is_ok(r):
            raise Infeasible()
    return pf, (p, s, b, ex)


def pool_status(sw=True, dep=True, wd=True):
    return mk('mantra_dex_std::pool_manager::PoolStatus', swaps_enabled=sw, deposits_enabled=dep, withdrawals_enabled=wd)


def pool_info(ident, denoms, decimals, reserves, pool_type, fees, status=None, lp_denom=None):
    return mk('mantra_dex_std::pool_manager::PoolInfo',
              pool_identifier=ident,
              asset_denoms=Vc(list(denoms)),
              lp_denom=lp_denom if lp_denom is not None else 'factory/pool_manager/%s.LP' % ident,
              asset_decimals=Vc(list(decimals)),
              assets=Vc([coin_v(d, r) for d, r in zip(denoms, reserves)]),
              pool_type=pool_type,
              pool_fees=fees,
              status=status or pool_status())


def xyk():
    return mk_enum('mantra_dex_std::pool_manager::PoolType', 'ConstantProduct')


def stable(amp):
    return mk_enum('mantra_dex_std::pool_manager::PoolType', 'StableSwap', amp=amp)


def put_pool(I, pool):
    st = I.world.store(PM)
    ms = st.get('pools')
    if ms is None:
        ms = MapStore()
        st['pools'] = ms
    ms.entries.append([(pool.get('pool_identifier'),), pool])


def get_pool(I, ident):
    ms = I.world.store(PM).get('pools')
    for k, v in ms.entries:
        if k[0] == ident:
            return v
    return None


def pm_config(I, fee_collector='fee_collector', farm_manager='farm_manager', creation_fee=None):
    cfg = mk('mantra_dex_std::pool_manager::Config', fee_collector_addr=fee_collector, farm_manager_addr=farm_manager,
             pool_creation_fee=creation_fee if creation_fee is not None else coin_v('uusd', 1000))
    I.world.store(PM)['config'] = cfg
    return cfg


def reserves_of(pool):
    return [c.get('amount') for c in pool.get('assets').e]


# ---------------------------------------------------------------- native replay helpers

def rj(x):
    """symbolic-world string -> replay JSON string (addresses as @label, contract addresses inside denoms)"""
    if isinstance(x, str):
        return x.replace('factory/pool_manager/', 'factory/{@pool_manager}/').replace('factory/farm_manager/', 'factory/{@farm_manager}/')
    return x


def addr_j(a):
    return '@' + a


def coin_j(denom, amount):
    return {'denom': rj(denom), 'amount': str(amount)}


def dec_j(atomics):
    """Decimal JSON (string with 18 fractional digits)"""
    a = int(atomics)
    return '%d.%018d' % (a // E18, a % E18)


def pool_json(ident, denoms, decimals, reserves, ptype, fees, status=(True, True, True), lp_denom=None):
    p, s, b, ex = fees
    return {
        'pool_identifier': ident,
        'asset_denoms': [rj(d) for d in denoms],
        'lp_denom': rj(lp_denom or 'factory/pool_manager/%s.LP' % ident),
        'asset_decimals': list(decimals),
        'assets': [coin_j(d, r) for d, r in zip(denoms, reserves)],
        'pool_type': ptype,
        'pool_fees': {'protocol_fee': {'share': dec_j(p)}, 'swap_fee': {'share': dec_j(s)}, 'burn_fee': {'share': dec_j(b)},
                      'extra_fees': [{'share': dec_j(e)} for e in ex]},
        'status': {'swaps_enabled': status[0], 'deposits_enabled': status[1], 'withdrawals_enabled': status[2]},
    }


def observe_bank(I, b, keys, supplies=()):
    for (a, d) in keys:
        I.observe('bal:%s:%s' % (a, d), b.get(a, d))
    for d in supplies:
        I.observe('supply:%s' % d, b.supply.get(d, 0))


def observe_pool(I, ident):
    p = get_pool(I, ident)
    if p is None:
        I.observe('pool:%s' % ident, None)
        return
    I.observe('poolorder:%s' % ident, [c.get('denom') for c in p.get('assets').e])
    for c in p.get('assets').e:
        I.observe('pool:%s:%s' % (ident, c.get('denom')), c.get('amount'))


def obs_steps_and_judge(obs, tx_index):
    """query steps for the registered observables + a judge comparing native values with the predicted ones"""
    steps = []
    keys = []
    pools = set()
    for k in sorted(obs):
        parts = k.split(':')
        if parts[0] == 'bal':
            steps.append({'op': 'balance', 'addr': parts[1], 'denom': rj(':'.join(parts[2:]))})
            keys.append(k)
        elif parts[0] == 'supply':
            steps.append({'op': 'supply', 'denom': rj(':'.join(parts[1:]))})
            keys.append(k)
        elif parts[0] == 'pos':
            steps.append({'op': 'query', 'contract': 'farm_manager', 'msg': {'positions': {'filter_by': {'identifier': parts[1]}}}})
            keys.append(k)
        elif parts[0] == 'farm':
            steps.append({'op': 'query', 'contract': 'farm_manager', 'msg': {'farms': {'filter_by': {'identifier': parts[1]}}}})
            keys.append(k)
        elif parts[0] == 'snap':
            steps.append({'op': 'get_weight', 'addr': parts[1], 'epoch': str(parts[-1]), 'denom': rj(':'.join(parts[2:-1]))})
            keys.append(k)
        elif parts[0] == 'last':
            steps.append({'op': 'get_last_claimed', 'addr': parts[1]})
            keys.append(k)
        elif parts[0] == 'pool' and parts[1] not in pools:
            pools.add(parts[1])
            steps.append({'op': 'query', 'contract': 'pool_manager', 'msg': {'pools': {'pool_identifier': parts[1]}}})
            keys.append('poolq:' + parts[1])

    def judge(out, base):
        res = out['results']
        diffs = []
        st = obs.get('status')
        if st is not None:
            r = res[tx_index]
            native = 'ok' if 'ok' in r else 'err'
            if native != st:
                diffs.append('status predicted %s native %s (%s)' % (st, native, json_short(r)))
        # attributes reported by the observed transaction (`attr:<key>`) and fields of the query answered right before it (`prevq:<field>`)
        for k, v in obs.items():
            if k.startswith('attr:') and 'ok' in res[tx_index]:
                key = k[5:]
                found = [a[1] for ev in res[tx_index]['ok'].get('events', []) if ev.get('type') == 'wasm' for a in ev.get('attrs', []) if a[0] == key]
                nv = found[0] if found else None
                if nv is not None and isinstance(v, int):
                    try:
                        nv = int(nv)
                    except ValueError:
                        pass
                if nv != v:
                    diffs.append('%s predicted %s native %s' % (k, v, nv))
            elif k.startswith('prevq:') and tx_index > 0:
                rq = res[tx_index - 1]
                nv = rq['ok'].get(k[6:]) if ('ok' in rq and isinstance(rq['ok'], dict)) else None
                if nv is not None and isinstance(v, int):
                    nv = int(nv)
                if nv != v:
                    diffs.append('%s predicted %s native %s' % (k, v, nv))
        for i, k in enumerate(keys):
            r = res[base + i]
            if k.startswith('poolq:'):
                pid = k[6:]
                if 'ok' not in r:
                    if any(kk.startswith('pool:%s:' % pid) for kk in obs):
                        diffs.append('pool %s query failed natively' % pid)
                    continue
                assets = r['ok']['pools'][0]['pool_info']['assets']
                amap = {a['denom']: int(a['amount']) for a in assets}
                addrs = out.get('addrs', {})
                order = obs.get('poolorder:%s' % pid)
                if order is not None:
                    native_order = [a['denom'] for a in assets]
                    if native_order != [_native_denom(d, addrs) for d in order]:
                        diffs.append('poolorder:%s predicted %s native %s' % (pid, order, native_order))
                for kk, v in obs.items():
                    if kk.startswith('pool:%s:' % pid):
                        d = _native_denom(':'.join(kk.split(':')[2:]), addrs)
                        if amap.get(d) != v:
                            diffs.append('%s predicted %s native %s' % (kk, v, amap.get(d)))
            elif k.startswith('pos:') or k.startswith('farm:'):
                field = k.split(':')[2]
                nv = None
                if 'ok' in r:
                    if k.startswith('pos:') and r['ok'].get('positions'):
                        pz = r['ok']['positions'][0]
                        nv = {'amount': int(pz['lp_asset']['amount']), 'open': pz['open'], 'expiring_at': pz['expiring_at'],
                              'receiver': pz['receiver']}.get(field)
                    elif k.startswith('farm:') and r['ok'].get('farms'):
                        fz = r['ok']['farms'][0]
                        nv = {'funded': int(fz['farm_asset']['amount']), 'claimed': int(fz['claimed_amount']), 'end': fz['preliminary_end_epoch'],
                              'start': fz['start_epoch'], 'rate': int(fz['emission_rate'])}.get(field)
                if field == 'receiver' and nv is not None and obs[k] is not None:
                    if nv != out.get('addrs', {}).get(obs[k]):
                        diffs.append('%s predicted %s native %s' % (k, obs[k], nv))
                elif nv != obs[k]:
                    diffs.append('%s predicted %s native %s' % (k, obs[k], nv))
            else:
                nv = int(r['ok']) if ('ok' in r and r['ok'] is not None) else None
                if nv != obs[k]:
                    diffs.append('%s predicted %s native %s' % (k, obs[k], nv))
        return diffs
    return steps, judge


def _native_denom(d, addrs):
    for lab in ('pool_manager', 'farm_manager'):
        if ('factory/%s/' % lab) in d and lab in addrs:
            d = d.replace('factory/%s/' % lab, 'factory/%s/' % addrs[lab])
    return d


def json_short(x):
    import json as _j
    return _j.dumps(x)[:300]


def generic_replay(build):
    """build(model) -> (scenario dict with 'setup' and 'steps', index of the transaction step whose status is observed).
    The counterexample is confirmed when the native run reproduces every predicted observable: the violated
    post-condition was evaluated on exactly these values."""
    def rb(label, m):
        sc, tx_index = build(m)
        obs = m.get('_obs', {})
        extra, judge0 = obs_steps_and_judge(obs, tx_index)
        base = len(sc['steps'])
        sc = dict(sc)
        sc['steps'] = list(sc['steps']) + extra

        def judge(out):
            diffs = judge0(out, base)
            if diffs:
                return False, 'native run differs from the prediction: ' + '; '.join(diffs[:6])
            return True, 'native run reproduces all %d predicted observables (status, balances, reserves, positions, farms, weights)' % len(obs)
        return sc, judge
    rb.generic = True          # compares predicted observables with native ones (usable for fidelity runs on the unchanged tree)
    return rb


def response_attr(resp, key):
    """value of the first attribute `key` of a contract Response: an integer term for amounts printed with to_string, else the string"""
    from ..models_core import deref
    for a in deref(resp).get('attributes').e:
        a = deref(a)
        if deref(a.f[0]) == key:
            v = deref(a.f[1])
            if isinstance(v, Opaque) and v.tag == 'text':
                return v.data
            if isinstance(v, str) and v.isdigit():
                return int(v)
            return v
    return None


# ---------------------------------------------------------------- abstraction of the pricing kernel

def _leaves(v, out):
    from ..models_core import deref
    v = deref(v)
    if isinstance(v, (St, En, Clo)):
        if isinstance(v, En):
            out.append(('v', v.var))
        for x in v.f:
            _leaves(x, out)
    elif isinstance(v, Vc):
        out.append(('n', len(v.e)))
        for x in v.e:
            _leaves(x, out)
    elif isinstance(v, z3.ExprRef):
        out.append(('z', v.get_id()))
    else:
        out.append(('c', v))


def abstract_compute_swap(I, args):
    """compute_swap as an uninterpreted function of its arguments: identical argument terms give the identical
    result (fresh variables memoised on the argument tuple); Ok or Err is part of the result.  Used where the
    obligation is about the glue around the pricing kernel (routes, single-asset chain), never about prices."""
    from ..models_core import deref
    key = []
    pool = deref(args[0])
    # the arguments the kernel can depend on: reserves, decimals, type, fees, offer, ask denom (not the switches / ids)
    for fld in ('assets', 'asset_decimals', 'pool_type', 'pool_fees'):
        _leaves(pool.get(fld), key)
    for a in args[1:]:
        _leaves(a, key)
    key = ('compute_swap', tuple(key))
    memo = I.world.meta.setdefault('uf_memo', {})
    ent = memo.get(key)
    if ent is None:
        n = len(memo)
        ok = I.symbool('swapcomp%d_ok' % n)
        if I.ctx.wit is not None:
            I.ctx.wit_define(ok, True)
        vals = [I.sym('swapcomp%d_%s' % (n, f), bits=128) for f in
                ('return_amount', 'slippage_amount', 'swap_fee_amount', 'protocol_fee_amount', 'burn_fee_amount', 'extra_fees_amount')]
        pat = I.world.meta.get('uf_pattern')
        if pat is not None:
            for f, v in zip(('return', 'slippage', 'swap_fee', 'protocol_fee', 'burn_fee', 'extra_fees'), vals):
                z = pat(n, f)
                if z == 'zero':
                    I.assume(v == 0)
                elif z == 'nonzero':
                    I.assume(v > 0)
        ent = (ok, vals, args)      # args kept alive: the key uses AST ids
        memo[key] = ent
    ok, vals, _ = ent
    off = deref(args[1])
    I.world.meta.setdefault('uf_calls', []).append((off.get('denom'), off.get('amount'), deref(args[2]), vals))
    if not I.fork(ok):
        return Err(En('pool_manager::error::ContractError', 'SwapOverflowError'))
    return Ok(St('SwapComputation', list(vals), ['return_amount', 'slippage_amount', 'swap_fee_amount', 'protocol_fee_amount',
                                                  'burn_fee_amount', 'extra_fees_amount']))


ABSTRACT_PRICING = {'pool-manager::compute_swap': abstract_compute_swap}
ABSTRACT_PRICING_NOTE = 'compute_swap replaced by an uninterpreted function of (reserves, decimals, pool type, fees, offer, ask denom): same arguments => same result, Ok/Err included'


# ---------------------------------------------------------------- router messages

def swap_op(tin, tout, pool_id):
    return mk_enum('mantra_dex_std::pool_manager::SwapOperation', 'MantraSwap', token_in_denom=tin, token_out_denom=tout, pool_identifier=pool_id)


def route_msg(ops, minimum=None, receiver=None, max_slippage=None):
    return mk_enum('mantra_dex_std::pool_manager::ExecuteMsg', 'ExecuteSwapOperations', operations=Vc(ops),
                   minimum_receive=minimum or NONE(), receiver=receiver or NONE(), max_slippage=max_slippage or NONE())
