"""C15 — only authorised parties can perform privileged actions."""
import json
import z3

from .. import smt
from ..smt import simp
from ..values import *
from ..chain import Chain, bank_of
from .common import *
from .pm import *
from .fm import FM, EM, FC, fm_config, set_ownership, set_epoch, DAY
from .c17 import toggle_msg

ALL = {PM: 'pool-manager', FM: 'farm-manager', EM: 'epoch-manager', FC: 'fee-collector'}
MSGTY = {PM: 'mantra_dex_std::pool_manager::ExecuteMsg', FM: 'mantra_dex_std::farm_manager::ExecuteMsg',
         EM: 'mantra_dex_std::epoch_manager::ExecuteMsg', FC: 'mantra_dex_std::fee_collector::ExecuteMsg'}
HINT = {}


def ownership_msg(contract, action, **kw):
    act = mk_enum('cw_ownable::Action', action, **kw)
    return En(MSGTY[contract].split('::')[-2] + '::ExecuteMsg', 'UpdateOwnership', [act])


def config_msg(contract, full=False):
    if full and contract == PM:
        return mk_enum(MSGTY[PM], 'UpdateConfig', fee_collector_addr=Some('newfc'), farm_manager_addr=Some('newfm'), pool_creation_fee=Some(coin_v('uusd', 5)), feature_toggle=NONE())
    if full and contract == FM:
        # every configurable field at once: a field applied outside the owner check shows for any of them
        return mk_enum(MSGTY[FM], 'UpdateConfig', fee_collector_addr=Some('newfc'), epoch_manager_addr=Some('newem'), pool_manager_addr=Some('newpm'),
                       create_farm_fee=Some(coin_v('uom', 7)), max_concurrent_farms=Some(9), max_farm_epoch_buffer=Some(20), min_unlocking_duration=Some(2 * DAY),
                       max_unlocking_duration=Some(300 * DAY), farm_expiration_time=Some(3000000), emergency_unlock_penalty=Some(5 * 10 ** 16))
    if contract == PM:
        return mk_enum(MSGTY[PM], 'UpdateConfig', fee_collector_addr=Some('newfc'), farm_manager_addr=NONE(), pool_creation_fee=Some(coin_v('uusd', 5)), feature_toggle=NONE())
    if contract == FM:
        return mk_enum(MSGTY[FM], 'UpdateConfig', fee_collector_addr=NONE(), epoch_manager_addr=NONE(), pool_manager_addr=NONE(), create_farm_fee=Some(coin_v('uom', 7)),
                       max_concurrent_farms=Some(9), max_farm_epoch_buffer=NONE(), min_unlocking_duration=NONE(), max_unlocking_duration=NONE(),
                       farm_expiration_time=NONE(), emergency_unlock_penalty=NONE())
    if contract == EM:
        ec = mk('mantra_dex_std::epoch_manager::EpochConfig', duration=2 * DAY, genesis_epoch=10 ** 9)
        return mk_enum(MSGTY[EM], 'UpdateConfig', epoch_config=Some(ec))
    return None


def setup(I, contract, pending):
    pm_config(I)
    fm_config(I)
    ec = mk('mantra_dex_std::epoch_manager::EpochConfig', duration=DAY, genesis_epoch=0)
    I.world.store(EM)['config'] = mk('mantra_dex_std::epoch_manager::Config', epoch_config=ec)
    set_epoch(I, 20, now_s=20 * DAY + 5)
    for c in ALL:
        set_ownership(I, c, 'creator', pending='pendy' if pending else None)
    for a in ('newfc', 'newfm', 'newem', 'newpm', 'pendy', 'mallory', 'creator', 'newowner'):
        I.assume(I.addr_valid(a))


def store_snapshot(I, contract):
    return {k: (clone(v) if not hasattr(v, 'entries') else [[kk, clone(vv)] for kk, vv in v.entries]) for k, v in I.world.store(contract).items()}


def _replay(contract, kind):
    """native replay: the fresh native deployment has owner `creator`; a pending transfer is set up by a real TransferOwnership first"""
    from .pm import generic_replay, pool_json

    def build(m):
        ch = m['_choices']
        who = ['creator', 'pendy', 'mallory', 'pool_manager', 'farm_manager'][ch['sender']]
        steps = []
        if ch['pending'] == 1:
            steps.append({'op': 'execute', 'contract': contract, 'sender': 'creator', 'funds': [],
                          'msg': {'update_ownership': {'transfer_ownership': {'new_owner': '@pendy', 'expiry': None}}}})
        funds = []
        if ch['funds'] == 1:
            steps.append({'op': 'mint', 'to': who, 'funds': [{'denom': 'uom', 'amount': '5'}]})
            funds = [{'denom': 'uom', 'amount': '5'}]
        if kind == 'toggle':
            steps.append({'op': 'set_pool', 'pool': pool_json('p1', ['uA', 'uB'], [6, 6], [5, 5], 'constant_product', (0, 0, 0, []))})
            msg = {'update_config': {'feature_toggle': {'pool_identifier': 'p1', 'swaps_enabled': False}}}
        elif kind == 'config_full':
            msg = {PM: {'update_config': {'fee_collector_addr': '@newfc', 'farm_manager_addr': '@newfm', 'pool_creation_fee': {'denom': 'uusd', 'amount': '5'}}},
                   FM: {'update_config': {'fee_collector_addr': '@newfc', 'epoch_manager_addr': '@newem', 'pool_manager_addr': '@newpm',
                                          'create_farm_fee': {'denom': 'uom', 'amount': '7'}, 'max_concurrent_farms': 9, 'max_farm_epoch_buffer': 20,
                                          'min_unlocking_duration': 2 * DAY, 'max_unlocking_duration': 300 * DAY, 'farm_expiration_time': 3000000,
                                          'emergency_unlock_penalty': '0.05'}}}[contract]
        elif kind == 'config':
            msg = {PM: {'update_config': {'fee_collector_addr': '@newfc', 'pool_creation_fee': {'denom': 'uusd', 'amount': '5'}}},
                   FM: {'update_config': {'create_farm_fee': {'denom': 'uom', 'amount': '7'}, 'max_concurrent_farms': 9}},
                   EM: {'update_config': {'epoch_config': {'duration': str(2 * DAY), 'genesis_epoch': str(10 ** 9)}}}}[contract]
        elif kind == 'transfer':
            msg = {'update_ownership': {'transfer_ownership': {'new_owner': '@newowner', 'expiry': None}}}
        elif kind == 'accept':
            msg = {'update_ownership': 'accept_ownership'}
        else:
            msg = {'update_ownership': 'renounce_ownership'}
        steps.append({'op': 'execute', 'contract': contract, 'sender': who, 'funds': funds, 'msg': msg})
        return {'setup': {'time_nanos': '0', 'epoch': {'genesis': '0', 'duration': str(DAY)}}, 'steps': steps}, len(steps) - 1
    return generic_replay(build)


def _ob(contract, kind):
    def s(I):
        pending = I.choose(2, 'pending') == 1
        setup(I, contract, pending)
        who = ['creator', 'pendy', 'mallory', PM, FM][I.choose(5, 'sender')]
        with_funds = I.choose(2, 'funds') == 1
        b = bank_of(I)
        funds = []
        if with_funds:
            b.set(who, 'uom', 5)
            funds = [coin_v('uom', 5)]
        if kind == 'config':
            msg = config_msg(contract)
        elif kind == 'config_full':
            msg = config_msg(contract, full=True)
        elif kind == 'toggle':
            put_pool(I, pool_info('p1', ['uA', 'uB'], [6, 6], [5, 5], xyk(), pool_fee(0, 0, 0)))
            msg = toggle_msg('p1', sw=False)
        elif kind == 'transfer':
            msg = ownership_msg(contract, 'TransferOwnership', new_owner='newowner', expiry=NONE())
        elif kind == 'accept':
            msg = ownership_msg(contract, 'AcceptOwnership')
        else:
            msg = ownership_msg(contract, 'RenounceOwnership')
        before = store_snapshot(I, contract)
        ch = Chain(I, ALL)
        st, _ = ch.execute(who, contract, msg, funds)
        I.observe('status', 'ok' if st == 'ok' else 'err')
        if kind == 'toggle':
            observe_pool(I, 'p1')
        if kind == 'accept':
            authorised = pending and who == 'pendy'
        else:
            authorised = who == 'creator'
        if st != 'ok':
            I.cover('rejected')
            I.check('authorised_unfunded_request_accepted', not (authorised and not with_funds))
            after = store_snapshot(I, contract)
            I.check('rejected_request_changes_nothing', repr(before) == repr(after))
            return
        I.cover('ok')
        I.check('accepted_only_from_authorised_sender', authorised)
        I.check('privileged_messages_accept_no_funds', not with_funds)
        own = I.world.store(contract)['ownership']
        o = own.get('owner')
        if kind == 'transfer':
            I.check('transfer_only_proposes', o.var == 'Some' and o.f[0] == 'creator' and own.get('pending_owner').var == 'Some' and own.get('pending_owner').f[0] == 'newowner')
        elif kind == 'accept':
            I.check('accept_moves_ownership_to_pending', o.var == 'Some' and o.f[0] == 'pendy' and own.get('pending_owner').var == 'None')
        elif kind == 'renounce':
            I.check('renounce_ends_ownership', o.var == 'None' and own.get('pending_owner').var == 'None')
        else:
            I.check('ownership_untouched_by_config', o.var == 'Some' and o.f[0] == 'creator')
    return s


for _c in ALL:
    kinds = ['transfer', 'accept', 'renounce'] + (['config'] if _c != FC else []) + (['toggle'] if _c == PM else []) + (['config_full'] if _c in (PM, FM) else [])
    for _k in kinds:
        obligation('C15', 'S1.%s_%s' % (_c, _k), entries=['execute', 'update_config', 'update_ownership', 'assert_owner', 'nonpayable'], kind='S',
                   statement='%s / %s: accepted only from the current owner (AcceptOwnership: only from the pending owner), never with funds; every other '
                             'sender role (pending owner, stranger, pool manager, farm manager) is rejected and the contract storage is unchanged; ownership moves only '
                             'by propose + accept or ends by renounce' % (_c, _k),
                   bounds='sender in {owner, pending owner, stranger, pool manager, farm manager}; pending transfer present or not; with / without funds',
                   covers=['ok', 'rejected'], replay=_replay(_c, _k))(_ob(_c, _k))


# ---------------------------------------------------------------- position and farm authorisations (clauses shared with C08 / C11)
from . import c08 as _c08, c11 as _c11   # noqa: E402
share('C08', 'C15', 'P', lambda n: n.split('.')[0] in ('S1', 'S2', 'S3', 'S4', 'S6'))      # withdraw / close / create / expand: sender roles incl. the pool manager
share('C11', 'C15', 'F', lambda n: n.startswith(('S3.', 'S4.')))                      # farm expand / close: farm owner, contract owner, others
from . import lockdep   # noqa: E402,F401  (the pool manager as the only delegate: locked deposits reach only the sender's own positions; registered as C15.L1)
