"""C04 — every swap conserves tokens and routes each fee to its destination."""
import json
import z3

from .. import smt
from ..smt import simp
from ..values import *
from ..chain import Chain, bank_of
from .common import *
from .pm import *

CONTRACTS = {PM: 'pool-manager'}
HINT = {'reserve_x': 10 ** 12, 'reserve_y': 10 ** 12, 'offer': 10 ** 6, 'protocol_fee': 10 ** 15, 'swap_fee': 2 * 10 ** 15,
        'burn_fee': 10 ** 15, 'extra_fee0': 10 ** 15, 'extra_fee1': 0, 'max_slippage_atomics': 5 * 10 ** 17,
        'pm_balance_A': 10 ** 13, 'pm_balance_B': 10 ** 13, 'stable_y': 10 ** 12 - 999000}


def swap_msg(ask, pool_id, belief=None, max_slippage=None, receiver=None):
    return mk_enum('mantra_dex_std::pool_manager::ExecuteMsg', 'Swap', ask_asset_denom=ask,
                   belief_price=belief or NONE(), max_slippage=max_slippage or NONE(),
                   receiver=receiver or NONE(), pool_identifier=pool_id)


def setup_world(I, pool, users=('trader',), extra_pm=None):
    """bank: the pool manager holds symbolic balances >= reserves (Inv01); users hold the offer"""
    b = bank_of(I)
    pm_config(I)
    put_pool(I, pool)
    for c in pool.get('assets').e:
        d = c.get('denom')
        bal = I.sym('pm_balance_' + d[1:], hi=U128)
        I.assume(bal >= c.get('amount'))
        b.set(PM, d, bal)
        b.supply[d] = I.sym('supply_' + d[1:], hi=U128 * 4)
        I.assume(b.supply[d] >= bal)
    return b


def _replay_s1(n_extra, recv_kind):
    def build(m):
        fees = (m['protocol_fee'], m['swap_fee'], m['burn_fee'], [m['extra_fee%d' % i] for i in range(n_extra)])
        pool = pool_json('p1', ['uA', 'uB'], [6, 6], [m['reserve_x'], m['reserve_y']], 'constant_product', fees)
        recv = {'none': None, 'valid': '@alice', 'invalid': 'not-an-address'}[recv_kind]
        steps = [
            {'op': 'set_pool', 'pool': pool},
            {'op': 'mint', 'to': 'pool_manager', 'funds': [coin_j('uA', m['pm_balance_A']), coin_j('uB', m['pm_balance_B'])]},
            {'op': 'mint', 'to': 'sink', 'funds': [coin_j('uA', m['supply_A'] - m['pm_balance_A']), coin_j('uB', m['supply_B'] - m['pm_balance_B'])]},
            {'op': 'mint', 'to': 'trader', 'funds': [coin_j('uA', m['offer'])]},
            {'op': 'execute', 'contract': 'pool_manager', 'sender': 'trader', 'funds': [coin_j('uA', m['offer'])],
             'msg': {'swap': {'ask_asset_denom': 'uB', 'belief_price': None, 'max_slippage': dec_j(m['max_slippage_atomics']),
                              'receiver': recv, 'pool_identifier': 'p1'}}},
        ]
        steps = [s for s in steps if s['op'] != 'mint' or any(int(c['amount']) > 0 for c in s['funds'])]
        for s in steps:
            if s['op'] == 'mint':
                s['funds'] = [c for c in s['funds'] if int(c['amount']) > 0]
        return {'setup': {}, 'steps': steps}, len(steps) - 1
    return generic_replay(build)


def _ob_s1(n_extra, recv_kind):
    def s1(I):
        I.set_hint(HINT)
        x = I.sym('reserve_x', lo=1, hi=U128)
        y = I.sym('reserve_y', lo=1, hi=U128)
        fees, (p, s, bu, ex) = sym_fees(I, n_extra)
        pool = pool_info('p1', ['uA', 'uB'], [6, 6], [x, y], xyk(), fees)
        b = setup_world(I, pool)
        o = I.sym('offer', lo=1, hi=U128)
        b.set('trader', 'uA', o)
        b.supply['uA'] = simp(b.supply['uA'] + o)
        tol = I.sym('max_slippage_atomics', hi=U128)
        if recv_kind == 'none':
            recv, recv_addr = NONE(), 'trader'
        elif recv_kind == 'valid':
            recv, recv_addr = Some('alice'), 'alice'
            I.assume(I.addr_valid('alice'))
        else:
            recv, recv_addr = Some('not-an-address'), 'trader'
            I.assume(smt.Not(I.addr_valid('not-an-address')))
        ch = Chain(I, CONTRACTS)
        pre = b.snapshot()
        st, resp = ch.execute('trader', PM, swap_msg('uB', 'p1', max_slippage=Some(tol), receiver=recv), [coin_v('uA', o)])
        if st != 'ok':
            I.outcome('rejected')
            # rejected: nothing changed (chain rollback) -- checked structurally by C20
            return
        I.cover('ok', HINT)
        I.observe('status', 'ok')
        observe_pool(I, 'p1')
        observe_bank(I, b, [(PM, 'uA'), (PM, 'uB'), ('trader', 'uA'), ('trader', 'uB'), (recv_addr, 'uB'), ('fee_collector', 'uB')], ['uA', 'uB'])
        x2, y2 = reserves_of(get_pool(I, 'p1'))
        gross = I.ctx.fdiv(simp(y * o), x + o)
        f_sw = I.ctx.fdiv(simp(gross * s), E18)
        f_pr = I.ctx.fdiv(simp(gross * p), E18)
        f_bu = I.ctx.fdiv(simp(gross * bu), E18)
        f_ex = sum([I.ctx.fdiv(simp(gross * e), E18) for e in ex], 0)
        ret = simp(gross - f_sw - f_pr - f_bu - f_ex)
        I.check('offer_reserve_plus_offer', smt.Eq(x2, x + o))
        I.check('ask_reserve_minus_outgoing', smt.Eq(y2, y - ret - f_pr - f_bu))
        # balances
        I.check('receiver_gets_return', smt.Eq(b.get(recv_addr, 'uB'), pre.get(recv_addr, 'uB') + ret))
        I.check('fee_collector_gets_protocol_fee', smt.Eq(b.get('fee_collector', 'uB'), pre.get('fee_collector', 'uB') + f_pr))
        I.check('burn_reduces_supply', smt.Eq(b.supply['uB'], pre.supply['uB'] - f_bu))
        I.check('pm_ask_balance', smt.Eq(b.get(PM, 'uB'), pre.get(PM, 'uB') - ret - f_pr - f_bu))
        I.check('pm_offer_balance', smt.Eq(b.get(PM, 'uA'), pre.get(PM, 'uA') + o))
        I.check('trader_paid_offer', smt.Eq(b.get('trader', 'uA'), 0))
        # nobody else's balance changed
        others = [k for k in set(list(b.bal.keys()) + list(pre.bal.keys()))
                  if k not in ((PM, 'uA'), (PM, 'uB'), ('trader', 'uA'), (recv_addr, 'uB'), ('fee_collector', 'uB'))]
        I.check('no_other_balance_changes', smt.And(*[smt.Eq(b.get(*k), pre.get(*k)) for k in others]))
        # message list shape: only sends/burn, in the documented order, each present iff non-zero
        kinds = [m[0] for m in ch.log if m[0] in ('send', 'burn', 'tf_mint', 'tf_burn', 'sink', 'reply')]
        exp = []
        I.check('fees_never_exceed_share', smt.And(f_sw * E18 <= gross * s, f_pr * E18 <= gross * p, f_bu * E18 <= gross * bu))
        I.outcome('msgs:' + ','.join(kinds))
        I.check('only_bank_messages', all(k in ('send', 'burn') for k in kinds))
    return s1


for _n, _rk in ((0, 'none'), (1, 'valid'), (0, 'invalid'), (2, 'none')):
    obligation('C04', 'S1.swap_xyk_extra%d_recv_%s' % (_n, _rk),
               entries=['execute', 'swap::commands::swap', 'perform_swap', 'compute_swap', 'compute_fees', 'get_swap_computation',
                        'aggregate_outgoing_fees', 'one_coin', 'validate_addr_or_default', 'burn_coin_msg'],
               kind='S', tier='quick' if _n < 2 else 'thorough',
               statement='executed constant-product swap through the public Swap message: offer reserve += offer; ask reserve -= return+protocol+burn; '
                         'receiver (validated receiver or sender) gets gross - all fees; fee collector gets floor(gross*protocol); burn leaves supply; '
                         'swap/extra fees stay; no other balance changes; only bank messages',
               bounds='reserves/offer [1,2^128), fees via real is_valid (%d extra), receiver %s; pool-manager balances >= reserves' % (_n, _rk),
               covers=['ok'], replay=_replay_s1(_n, _rk))(_ob_s1(_n, _rk))
