"""C04 — every swap conserves tokens and routes each fee to its destination."""
import json
import z3

from .. import smt
from ..smt import simp
from ..values import *
from ..chain import Chain, bank_of
from .common import *
from .pm import *

CONTRACTS = {PM: 'pool-manager'}
HINT = {'reserve_x': 10 ** 12, 'reserve_y': 10 ** 12, 'offer': 10 ** 6, 'protocol_fee': 10 ** 15, 'swap_fee': 2 * 10 ** 15,
        'burn_fee': 10 ** 15, 'extra_fee0': 10 ** 15, 'extra_fee1': 0, 'max_slippage_atomics': 5 * 10 ** 17,
        'pm_balance_A': 10 ** 13, 'pm_balance_B': 10 ** 13, 'stable_y': 10 ** 12 - 999000}


def swap_msg(ask, pool_id, belief=None, max_slippage=None, receiver=None):
    return mk_enum('mantra_dex_std::pool_manager::ExecuteMsg', 'Swap', ask_asset_denom=ask,
                   belief_price=belief or NONE(), max_slippage=max_slippage or NONE(),
                   receiver=receiver or NONE(), pool_identifier=pool_id)


def setup_world(I, pool, users=('trader',), extra_pm=None):
    """bank: the pool manager holds symbolic balances >= reserves (Inv01); users hold the offer"""
    b = bank_of(I)
    pm_config(I)
    put_pool(I, pool)
    for c in pool.get('assets').e:
        d = c.get('denom')
        bal = I.sym('pm_balance_' + d[1:], hi=U128)
        I.assume(bal >= c.get('amount'))
        b.set(PM, d, bal)
        # total supply of a denom fits 128 bits on the chain (also after the users' funds are added on top)
        b.supply[d] = I.sym('supply_' + d[1:], hi=U128)
        I.assume(b.supply[d] >= bal)
    return b


def _replay_s1(n_extra, recv_kind, belief=False):
    def build(m):
        fees = (m['protocol_fee'], m['swap_fee'], m['burn_fee'], [m['extra_fee%d' % i] for i in range(n_extra)])
        pool = pool_json('p1', ['uA', 'uB'], [6, 6], [m['reserve_x'], m['reserve_y']], 'constant_product', fees)
        recv = {'none': None, 'valid': '@alice', 'invalid': 'not-an-address'}[recv_kind]
        steps = [
            {'op': 'set_pool', 'pool': pool},
            {'op': 'mint', 'to': 'pool_manager', 'funds': [coin_j('uA', m['pm_balance_A']), coin_j('uB', m['pm_balance_B'])]},
            {'op': 'mint', 'to': 'sink', 'funds': [coin_j('uA', m['supply_A'] - m['pm_balance_A']), coin_j('uB', m['supply_B'] - m['pm_balance_B'])]},
            {'op': 'mint', 'to': 'trader', 'funds': [coin_j('uA', m['offer'])] + ([coin_j('uC', 7)] if m.get('_choices', {}).get('extra_coin', 0) == 1 else [])},
            {'op': 'execute', 'contract': 'pool_manager', 'sender': 'trader',
             'funds': [coin_j('uA', m['offer'])] + ([coin_j('uC', 7)] if m.get('_choices', {}).get('extra_coin', 0) == 1 else []),
             'msg': {'swap': {'ask_asset_denom': 'uB', 'belief_price': dec_j(m['belief_price_atomics']) if belief else None, 'max_slippage': dec_j(m['max_slippage_atomics']),
                              'receiver': recv, 'pool_identifier': 'p1'}}},
        ]
        steps = [s for s in steps if s['op'] != 'mint' or any(int(c['amount']) > 0 for c in s['funds'])]
        for s in steps:
            if s['op'] == 'mint':
                s['funds'] = [c for c in s['funds'] if int(c['amount']) > 0]
        return {'setup': {}, 'steps': steps}, len(steps) - 1
    return generic_replay(build)


def _ob_s1(n_extra, recv_kind):
    def s1(I):
        I.set_hint(HINT)
        x = I.sym('reserve_x', lo=1, hi=U128)
        y = I.sym('reserve_y', lo=1, hi=U128)
        fees, (p, s, bu, ex) = sym_fees(I, n_extra)
        pool = pool_info('p1', ['uA', 'uB'], [6, 6], [x, y], xyk(), fees)
        b = setup_world(I, pool)
        o = I.sym('offer', lo=1, hi=U128)
        b.set('trader', 'uA', o)
        b.supply['uA'] = simp(b.supply['uA'] + o)
        I.assume(b.supply['uA'] <= U128)      # the bank's total supply of a denom fits 128 bits
        tol = I.sym('max_slippage_atomics', hi=U128)
        if recv_kind == 'none':
            recv, recv_addr = NONE(), 'trader'
        elif recv_kind == 'valid':
            recv, recv_addr = Some('alice'), 'alice'
            I.assume(I.addr_valid('alice'))
        else:
            recv, recv_addr = Some('not-an-address'), 'trader'
            I.assume(smt.Not(I.addr_valid('not-an-address')))
        ch = Chain(I, CONTRACTS)
        pre = b.snapshot()
        extra = I.choose(2, 'extra_coin') == 1         # a second coin attached to the swap: must be refused, never silently kept
        if extra:
            b.set('trader', 'uC', 7)
        st, resp = ch.execute('trader', PM, swap_msg('uB', 'p1', max_slippage=Some(tol), receiver=recv), [coin_v('uA', o)] + ([coin_v('uC', 7)] if extra else []))
        if extra:
            I.observe('status', 'ok' if st == 'ok' else 'err')
            I.check('swap_with_a_second_coin_refused', st != 'ok')
            return
        if st != 'ok':
            I.outcome('rejected')
            # rejected: nothing changed (chain rollback) -- checked structurally by C20
            return
        I.cover('ok', HINT)
        I.observe('status', 'ok')
        observe_pool(I, 'p1')
        observe_bank(I, b, [(PM, 'uA'), (PM, 'uB'), ('trader', 'uA'), ('trader', 'uB'), (recv_addr, 'uB'), ('fee_collector', 'uB')], ['uA', 'uB'])
        x2, y2 = reserves_of(get_pool(I, 'p1'))
        gross = I.ctx.fdiv(simp(y * o), x + o)
        f_sw = I.ctx.fdiv(simp(gross * s), E18)
        f_pr = I.ctx.fdiv(simp(gross * p), E18)
        f_bu = I.ctx.fdiv(simp(gross * bu), E18)
        f_ex = sum([I.ctx.fdiv(simp(gross * e), E18) for e in ex], 0)
        ret = simp(gross - f_sw - f_pr - f_bu - f_ex)
        I.check('offer_reserve_plus_offer', smt.Eq(x2, x + o))
        I.check('ask_reserve_minus_outgoing', smt.Eq(y2, y - ret - f_pr - f_bu))
        # balances
        I.check('receiver_gets_return', smt.Eq(b.get(recv_addr, 'uB'), pre.get(recv_addr, 'uB') + ret))
        I.check('fee_collector_gets_protocol_fee', smt.Eq(b.get('fee_collector', 'uB'), pre.get('fee_collector', 'uB') + f_pr))
        I.check('burn_reduces_supply', smt.Eq(b.supply['uB'], pre.supply['uB'] - f_bu))
        I.check('pm_ask_balance', smt.Eq(b.get(PM, 'uB'), pre.get(PM, 'uB') - ret - f_pr - f_bu))
        I.check('pm_offer_balance', smt.Eq(b.get(PM, 'uA'), pre.get(PM, 'uA') + o))
        I.check('trader_paid_offer', smt.Eq(b.get('trader', 'uA'), 0))
        # nobody else's balance changed
        others = [k for k in set(list(b.bal.keys()) + list(pre.bal.keys()))
                  if k not in ((PM, 'uA'), (PM, 'uB'), ('trader', 'uA'), (recv_addr, 'uB'), ('fee_collector', 'uB'))]
        I.check('no_other_balance_changes', smt.And(*[smt.Eq(b.get(*k), pre.get(*k)) for k in others]))
        # message list shape: only sends/burn, in the documented order, each present iff non-zero
        kinds = [m[0] for m in ch.log if m[0] in ('send', 'burn', 'tf_mint', 'tf_burn', 'sink', 'reply')]
        exp = []
        I.check('fees_never_exceed_share', smt.And(f_sw * E18 <= gross * s, f_pr * E18 <= gross * p, f_bu * E18 <= gross * bu))
        I.outcome('msgs:' + ','.join(kinds))
        # the burn fee may leave the supply through the bank or through the token factory; nothing else (no mint, no sub-call) belongs in a swap
        I.check('only_transfers_and_burns', all(k in ('send', 'burn', 'tf_burn') for k in kinds))
    return s1


for _n, _rk in ((0, 'none'), (1, 'valid'), (0, 'invalid'), (2, 'none'), (2, 'valid')):
    obligation('C04', 'S1.swap_xyk_extra%d_recv_%s' % (_n, _rk),
               entries=['execute', 'swap::commands::swap', 'perform_swap', 'compute_swap', 'compute_fees', 'get_swap_computation',
                        'aggregate_outgoing_fees', 'one_coin', 'validate_addr_or_default', 'burn_coin_msg'],
               kind='S', tier='quick' if (_n < 2 or _rk == 'valid') else 'thorough',
               statement='executed constant-product swap through the public Swap message: offer reserve += offer; ask reserve -= return+protocol+burn; '
                         'receiver (validated receiver or sender) gets gross - all fees; fee collector gets floor(gross*protocol); burn leaves supply; '
                         'swap/extra fees stay; no other balance changes; only transfers and burns',
               bounds='reserves/offer [1,2^128), fees via real is_valid (%d extra), receiver %s; pool-manager balances >= reserves' % (_n, _rk),
               covers=['ok'], replay=_replay_s1(_n, _rk))(_ob_s1(_n, _rk))


# ---------------------------------------------------------------- routed swaps: hop chaining (pricing kernel abstracted)


ROUTES = {
    'AB_BC': [('uA', 'uB', 'p1'), ('uB', 'uC', 'p2')],
    'AB_BA': [('uA', 'uB', 'p1'), ('uB', 'uA', 'p1')],
    'AB_BA_AB': [('uA', 'uB', 'p1'), ('uB', 'uA', 'p1'), ('uA', 'uB', 'p1')],
    'AB_BC_CB_BA': [('uA', 'uB', 'p1'), ('uB', 'uC', 'p2'), ('uC', 'uB', 'p2'), ('uB', 'uA', 'p1')],
}
ROUTE_PRESETS4 = [dict(x=10 ** 9, y=2 * 10 ** 9, z=3 * 10 ** 9, w=10 ** 9, offer=10 ** 6, fees=(10 ** 15, 2 * 10 ** 15, 10 ** 15)),
                  dict(x=10 ** 12, y=10 ** 12, z=10 ** 12, w=10 ** 12, offer=10 ** 9, fees=(0, 0, 0)),
                  dict(x=777777, y=123456789, z=987654321, w=55555, offer=4321, fees=(10 ** 16, 3 * 10 ** 16, 0))]


def _replay_route_vs_manual(shape):
    """native differential run: the routed swap against the same hops sent one by one as plain Swap messages (each offering exactly what the
    previous one delivered), from the same state; any difference in the final reserves or in the trader's balances confirms the violation"""
    def rb(label, m):
        from .c02 import _mints
        from ..replayer import run_scenario
        hops = ROUTES[shape]
        jops = [{'mantra_swap': {'token_in_denom': a, 'token_out_denom': bb, 'pool_identifier': pid}} for a, bb, pid in hops]
        if label == 'delivered_at_least_minimum_receive':
            return _replay_minimum_receive(shape, jops)
        if label == 'every_hop_within_the_callers_tolerance':
            return _replay_hop_tolerance(shape, jops)
        cands = []
        if all(k in m for k in ('reserve_x', 'reserve_y', 'reserve_z', 'reserve_w', 'offer')):
            cands.append(dict(x=m['reserve_x'], y=m['reserve_y'], z=m['reserve_z'], w=m['reserve_w'], offer=m['offer'],
                              fees=(m.get('protocol_fee', 0), m.get('swap_fee', 0), m.get('burn_fee', 0))))
        for ps in cands + ROUTE_PRESETS4:
            fees = (ps['fees'][0], ps['fees'][1], ps['fees'][2], [])
            base = [{'op': 'set_pool', 'pool': pool_json('p1', ['uA', 'uB'], [6, 6], [ps['x'], ps['y']], 'constant_product', fees)},
                    {'op': 'set_pool', 'pool': pool_json('p2', ['uB', 'uC'], [6, 6], [ps['z'], ps['w']], 'constant_product', fees)}]
            base += _mints([('pool_manager', [('uA', ps['x']), ('uB', ps['y'] + ps['z']), ('uC', ps['w'])]), ('trader', [('uA', ps['offer'])])])
            tail = [{'op': 'balance', 'addr': 'trader', 'denom': d} for d in ('uA', 'uB', 'uC')]
            tail += [{'op': 'query', 'contract': 'pool_manager', 'msg': {'pools': {'pool_identifier': pid}}} for pid in ('p1', 'p2')]
            routed = {'setup': {}, 'steps': base + [{'op': 'execute', 'contract': 'pool_manager', 'sender': 'trader', 'funds': [coin_j('uA', ps['offer'])],
                                                     'msg': {'execute_swap_operations': {'operations': jops, 'max_slippage': '0.5'}}}] + tail}
            out = run_scenario(routed)
            res = out.get('results')
            if not res or 'ok' not in res[len(base)]:
                continue
            # the manual sequence: each hop offers the trader's whole balance of the hop's input denom (she starts with the offer only)
            steps = list(base)
            amt = ps['offer']
            okm = True
            for a, bb, pid in hops:
                sc1 = {'setup': {}, 'steps': steps + [{'op': 'execute', 'contract': 'pool_manager', 'sender': 'trader', 'funds': [coin_j(a, amt)],
                                                       'msg': {'swap': {'ask_asset_denom': bb, 'belief_price': None, 'max_slippage': '0.5', 'receiver': None,
                                                                        'pool_identifier': pid}}},
                                                      {'op': 'balance', 'addr': 'trader', 'denom': bb}]}
                o1 = run_scenario(sc1).get('results')
                if not o1 or 'ok' not in o1[-2]:
                    okm = False
                    break
                steps = sc1['steps'][:-1]
                amt = int(o1[-1]['ok'])
            if not okm:
                continue
            manual = run_scenario({'setup': {}, 'steps': steps + tail}).get('results')
            n = len(tail)
            a_r, a_m = json.dumps(res[-n:], sort_keys=True), json.dumps(manual[-n:], sort_keys=True)
            if a_r != a_m:
                why = ('route %s from pools %d/%d and %d/%d with offer %d ends in a different state than its hops sent one by one: trader balances / reserves '
                       'routed %s vs manual %s' % (shape, ps['x'], ps['y'], ps['z'], ps['w'], ps['offer'], a_r[:300], a_m[:300]))
                return routed, (lambda o, w=why: (True, w))
        return None
    return rb


def _replay_minimum_receive(shape, jops, exact=False):
    """native: run the route once to learn what it delivers (D), then from the same state with minimum_receive = D + 1: it must be refused"""
    from .c02 import _mints
    from ..replayer import run_scenario
    final = ROUTES[shape][-1][1]
    for ps in ROUTE_PRESETS4:
        fees = (ps['fees'][0], ps['fees'][1], ps['fees'][2], [])
        base = [{'op': 'set_pool', 'pool': pool_json('p1', ['uA', 'uB'], [6, 6], [ps['x'], ps['y']], 'constant_product', fees)},
                {'op': 'set_pool', 'pool': pool_json('p2', ['uB', 'uC'], [6, 6], [ps['z'], ps['w']], 'constant_product', fees)}]
        base += _mints([('pool_manager', [('uA', ps['x']), ('uB', ps['y'] + ps['z']), ('uC', ps['w'])]), ('trader', [('uA', ps['offer'])])])

        def run(minimum):
            sc = {'setup': {}, 'steps': base + [{'op': 'execute', 'contract': 'pool_manager', 'sender': 'trader', 'funds': [coin_j('uA', ps['offer'])],
                                                 'msg': {'execute_swap_operations': {'operations': jops, 'max_slippage': '0.5', 'receiver': '@alice',
                                                                                     'minimum_receive': None if minimum is None else str(minimum)}}},
                                                {'op': 'balance', 'addr': 'alice', 'denom': final}]}
            return sc, run_scenario(sc).get('results')
        _, r0 = run(None)
        if not r0 or 'ok' not in r0[-2]:
            continue
        D = int(r0[-1]['ok'])
        if exact:
            sc, r1 = run(D)
            if r1 and 'ok' not in r1[-2]:
                why = 'route %s delivers %d %s without a minimum but is refused with minimum_receive = %d' % (shape, D, final, D)
                return sc, (lambda o, w=why: (True, w))
            continue
        sc, r1 = run(D + 1)
        if r1 and 'ok' in r1[-2]:
            why = 'route %s delivers %d %s but executes with minimum_receive = %d' % (shape, int(r1[-1]['ok']), final, D + 1)
            return sc, (lambda o, w=why: (True, w))
    return None


def _replay_hop_tolerance(shape, jops):
    """native: a deep first pool and a shallow last one, so that the LAST hop has a spread of several percent; with a 2% tolerance the route must be
    refused -- with and without a (satisfiable) minimum_receive"""
    from .c02 import _mints
    from ..replayer import run_scenario
    fees = (10 ** 15, 10 ** 15, 0, [])
    big, small, offer = 10 ** 9, 10 ** 4, 10 ** 3
    last_pool = ROUTES[shape][-1][2]
    r1 = (big, big) if last_pool != 'p1' else (small, small)
    r2 = (small, small) if last_pool == 'p2' else (big, big)
    base = [{'op': 'set_pool', 'pool': pool_json('p1', ['uA', 'uB'], [6, 6], list(r1), 'constant_product', fees)},
            {'op': 'set_pool', 'pool': pool_json('p2', ['uB', 'uC'], [6, 6], list(r2), 'constant_product', fees)}]
    base += _mints([('pool_manager', [('uA', r1[0]), ('uB', r1[1] + r2[0]), ('uC', r2[1])]), ('trader', [('uA', offer)])])
    for minimum in (None, 1):
        sc = {'setup': {}, 'steps': base + [{'op': 'execute', 'contract': 'pool_manager', 'sender': 'trader', 'funds': [coin_j('uA', offer)],
                                             'msg': {'execute_swap_operations': {'operations': jops, 'max_slippage': '0.02', 'receiver': '@alice',
                                                                                 'minimum_receive': None if minimum is None else str(minimum)}}}]}
        res = run_scenario(sc).get('results')
        if res and 'ok' in res[-1]:
            why = ('route %s with max_slippage 2%% executes although its last hop trades %d against a %d:%d pool (spread of several percent), minimum_receive=%s'
                   % (shape, offer, small, small, minimum))
            return sc, (lambda o, w=why: (True, w))
    return None


def _ob_route(shape):
    hops = ROUTES[shape]

    def s(I):
        I.set_hint(dict(HINT, reserve_z=10 ** 12, reserve_w=10 ** 12))
        x = I.sym('reserve_x', lo=1, hi=U128)
        y = I.sym('reserve_y', lo=1, hi=U128)
        z = I.sym('reserve_z', lo=1, hi=U128)
        w = I.sym('reserve_w', lo=1, hi=U128)
        fees1, _ = sym_fees(I, 0)
        fees2, _ = sym_fees(I, 0, prefix='p2_')
        pm_config(I)
        put_pool(I, pool_info('p1', ['uA', 'uB'], [6, 6], [x, y], xyk(), fees1))
        put_pool(I, pool_info('p2', ['uB', 'uC'], [6, 6], [z, w], xyk(), fees2))
        b = bank_of(I)
        X = {d: I.sym('excess_' + d[1:], hi=U128) for d in ('uA', 'uB', 'uC')}
        b.set(PM, 'uA', simp(x + X['uA']))
        b.set(PM, 'uB', simp(y + z + X['uB']))
        b.set(PM, 'uC', simp(w + X['uC']))
        for d in ('uA', 'uB', 'uC'):
            b.supply[d] = simp(b.get(PM, d) * 2 + (1 << 130))
        o = I.sym('offer', lo=1, hi=U128)
        b.set('trader', 'uA', o)
        I.assume(I.addr_valid('alice'))
        ops = [swap_op(a, bb, pid) for a, bb, pid in hops]
        ch = Chain(I, CONTRACTS)
        pre = b.snapshot()
        mn = I.sym('minimum_receive', hi=U128)
        tol = I.sym('max_slippage_atomics', hi=U128)
        cap = z3.If(smt.toz(tol) < 5 * 10 ** 17, tol, 5 * 10 ** 17)
        st, resp = ch.execute('trader', PM, route_msg(ops, max_slippage=Some(tol), receiver=Some('alice'), minimum=Some(mn)), [coin_v('uA', o)])
        if st != 'ok':
            I.outcome('route_rejected')
            return
        I.cover('ok')
        calls = I.world.meta.get('uf_calls', [])
        I.check('one_pricing_call_per_hop', len(calls) == len(hops))
        if len(calls) != len(hops):
            return
        prev = o
        for k, ((din, amt_in, ask, vals), (a, bb, pid)) in enumerate(zip(calls, hops)):
            I.check('hop_consumes_exactly_the_previous_output', smt.And(din == a, smt.Eq(amt_in, prev)))
            # the caller's tolerance (capped at 50%) binds EVERY hop: spread / (return + spread) of the hop's own pricing result
            ret_k, slip_k = vals[0], vals[1]
            I.check('every_hop_within_the_callers_tolerance', smt.Or(smt.Eq(ret_k + slip_k, 0), I.ctx.fdiv(simp(slip_k * E18), simp(ret_k + slip_k)) <= cap))
            prev = vals[0]
        final = hops[-1][1]
        I.check('delivered_at_least_minimum_receive', b.get('alice', final) - pre.get('alice', final) >= mn)
        for d in ('uA', 'uB', 'uC'):
            got = simp(b.get('alice', d) - pre.get('alice', d))
            I.check('only_the_final_output_reaches_the_receiver', smt.Eq(got, prev if d == final else 0))
            sent = simp(pre.get('trader', d) - b.get('trader', d))
            I.check('sender_pays_the_offer_only', smt.Eq(sent, o if d == 'uA' else 0))
            # reserves stay backed: what the contract holds beyond the summed reserves is unchanged
            rs = 0
            for pid in ('p1', 'p2'):
                for c in get_pool(I, pid).get('assets').e:
                    if c.get('denom') == d:
                        rs = simp(rs + c.get('amount'))
            I.check('reserves_stay_backed_exactly', smt.Eq(b.get(PM, d) - rs, X[d]))
            pf = simp(sum(v[3] for (di, ai, ak, v), h in zip(calls, hops) if h[1] == d))
            bf = simp(sum(v[4] for (di, ai, ak, v), h in zip(calls, hops) if h[1] == d))
            I.check('fee_collector_gets_each_hops_protocol_fee', smt.Eq(b.get('fee_collector', d) - pre.get('fee_collector', d), pf))
            I.check('each_hops_burn_fee_leaves_supply', smt.Eq(pre.supply[d] - b.supply[d], bf))
    return s


# ---------------------------------------------------------------- stableswap pools with different decimals: fees are shares of the gross output (Newton solver abstracted)

def _abs_y(I, args):
    """calculate_stableswap_y as an arbitrary function (fresh 256-bit result or Err per call): the obligation is about the fee and reserve
    accounting around the solver's result"""
    n = I.world.meta.setdefault('y_calls', 0)
    I.world.meta['y_calls'] = n + 1
    ok = I.symbool('y%d_ok' % n)
    if I.ctx.wit is not None:
        I.ctx.wit_define(ok, True)
    v = I.sym('new_ask_pool%d' % n, bits=256)
    if not I.fork(ok):
        return Err(En('pool_manager::error::ContractError', 'SwapOverflowError'))
    return Ok(v)


def _replay_stable_fees(do, da):
    """native run on a real stableswap pool with these decimals and 0.1% protocol / swap / burn fees: the amounts the Swap reports must satisfy
    fee = floor(share x gross output), gross = net return + all fees; the transfers must match the reported amounts"""
    def rb(label, m):
        from .c02 import _mints
        from ..replayer import run_scenario
        share = 10 ** 15
        x, y, offer = 10 ** 6 * 10 ** do, 10 ** 6 * 10 ** da, 10 ** 3 * 10 ** do
        pool = pool_json('p1', ['uA', 'uB'], [do, da], [x, y], {'stable_swap': {'amp': 100}}, (share, share, share, []))
        steps = [{'op': 'set_pool', 'pool': pool}]
        steps += _mints([('pool_manager', [('uA', x), ('uB', y)]), ('trader', [('uA', offer)])])
        steps.append({'op': 'execute', 'contract': 'pool_manager', 'sender': 'trader', 'funds': [coin_j('uA', offer)],
                      'msg': {'swap': {'ask_asset_denom': 'uB', 'belief_price': None, 'max_slippage': '0.5', 'receiver': None, 'pool_identifier': 'p1'}}})
        steps.append({'op': 'balance', 'addr': 'trader', 'denom': 'uB'})
        steps.append({'op': 'balance', 'addr': 'fee_collector', 'denom': 'uB'})
        sc = {'setup': {}, 'steps': steps}
        res = run_scenario(sc).get('results')
        if not res or 'ok' not in res[-3]:
            return None
        at = {a[0]: a[1] for ev in res[-3]['ok'].get('events', []) if ev.get('type') == 'wasm' for a in ev.get('attrs', [])}
        try:
            ret, sf, pf, bf, ef = (int(at[k]) for k in ('return_amount', 'swap_fee_amount', 'protocol_fee_amount', 'burn_fee_amount', 'extra_fees_amount'))
        except (KeyError, ValueError):
            return None
        gross = ret + sf + pf + bf + ef
        want = gross * share // 10 ** 18
        bad = [(n, v) for n, v in (('swap', sf), ('protocol', pf), ('burn', bf)) if v != want]
        if bad or int(res[-1]['ok']) != pf or int(res[-2]['ok']) != ret:
            why = ('stableswap %d/%d decimals, fees 0.1%% each, offer %d: gross output %d, so each fee is %d, but reported %s; receiver got %s, fee collector %s'
                   % (do, da, offer, gross, want, {n: v for n, v in (('swap', sf), ('protocol', pf), ('burn', bf))}, res[-2]['ok'], res[-1]['ok']))
            return sc, (lambda out, w=why: (True, w))
        return None
    return rb


def _ob_stable_fees(do, da):
    def s(I):
        I.set_hint({'reserve_x': 10 ** 6 * 10 ** do, 'reserve_y': 10 ** 6 * 10 ** da, 'offer': 10 ** 3 * 10 ** do, 'new_ask_pool0': (10 ** 6 - 999) * 10 ** 18,
                    'max_slippage_atomics': 5 * 10 ** 17, 'pm_balance_A': 10 ** 7 * 10 ** do, 'pm_balance_B': 10 ** 7 * 10 ** da,
                    'supply_A': 10 ** 8 * 10 ** do, 'supply_B': 10 ** 8 * 10 ** da, 'protocol_fee': 10 ** 15, 'swap_fee': 10 ** 15, 'burn_fee': 10 ** 15, 'extra_fee0': 10 ** 15})
        x = I.sym('reserve_x', lo=1, hi=U128)
        y = I.sym('reserve_y', lo=1, hi=U128)
        fees, (p, sfee, bu, ex) = sym_fees(I, 1)
        pool = pool_info('p1', ['uA', 'uB'], [do, da], [x, y], stable(100), fees)
        b = setup_world(I, pool)
        o = I.sym('offer', lo=1, hi=U128)
        b.set('trader', 'uA', o)
        b.supply['uA'] = simp(b.supply['uA'] + o)
        I.assume(b.supply['uA'] <= U128)
        tol = I.sym('max_slippage_atomics', hi=U128)
        ch = Chain(I, CONTRACTS)
        pre = b.snapshot()
        st, resp = ch.execute('trader', PM, swap_msg('uB', 'p1', max_slippage=Some(tol)), [coin_v('uA', o)])
        if st != 'ok':
            I.outcome('rejected')
            return
        I.cover('ok')
        got = simp(b.get('trader', 'uB') - pre.get('trader', 'uB'))
        to_fc = simp(b.get('fee_collector', 'uB') - pre.get('fee_collector', 'uB'))
        burned = simp(pre.supply['uB'] - b.supply['uB'])
        ret, sf, pf, bf, ef = (response_attr(resp, k) for k in ('return_amount', 'swap_fee_amount', 'protocol_fee_amount', 'burn_fee_amount', 'extra_fees_amount'))
        I.check('swap_reports_its_amounts', all(v is not None for v in (ret, sf, pf, bf, ef)))
        if any(v is None for v in (ret, sf, pf, bf, ef)):
            return
        I.check('receiver_gets_the_reported_net_return', smt.Eq(got, ret))
        I.check('fee_collector_gets_the_reported_protocol_fee', smt.Eq(to_fc, pf))
        I.check('burn_fee_leaves_supply', smt.Eq(burned, bf))
        gross = simp(ret + sf + pf + bf + ef)
        I.check('protocol_fee_is_share_of_gross_output', smt.Eq(pf, I.ctx.fdiv(simp(gross * p), E18)))
        I.check('swap_fee_is_share_of_gross_output', smt.Eq(sf, I.ctx.fdiv(simp(gross * sfee), E18)))
        I.check('burn_fee_is_share_of_gross_output', smt.Eq(bf, I.ctx.fdiv(simp(gross * bu), E18)))
        I.check('extra_fee_is_share_of_gross_output', smt.Eq(ef, I.ctx.fdiv(simp(gross * ex[0]), E18)))
        x2, y2 = reserves_of(get_pool(I, 'p1'))
        I.check('offer_added_in_full', smt.Eq(x2, x + o))
        I.check('ask_reserve_minus_outgoing', smt.Eq(y - y2, got + to_fc + burned))
    return s


for _do, _da in ((6, 6), (8, 6), (6, 8)):
    obligation('C04', 'S3.stableswap_fees_decimals_%d_%d' % (_do, _da),
               entries=['execute', 'swap::commands::swap', 'perform_swap', 'compute_swap', 'compute_fees', 'Decimal256Helper'], kind='S',
               statement='an executed stableswap swap on a pool with %d / %d decimals: every fee is the configured share of the gross output rounded down, the receiver gets the gross '
                         'output minus all fees, the protocol fee reaches the fee collector, the burn fee leaves supply, the offer is added in full and the ask reserve decreases by exactly '
                         'what left the contract -- whatever new pool balance the Newton solver returns' % (_do, _da),
               bounds='reserves, offer [1,2^128), real is_valid fees with one extra fee, tolerance any Decimal; calculate_stableswap_y replaced by an arbitrary 256-bit result or error',
               covers=['ok'], abstractions=['calculate_stableswap_y replaced by an arbitrary function (fresh 256-bit result or Err per call)'],
               opts={'abstract': {'pool-manager::calculate_stableswap_y': _abs_y}}, replay=_replay_stable_fees(_do, _da))(_ob_stable_fees(_do, _da))


def _ob_minimum_boundary(shape):
    hops = ROUTES[shape]

    def s(I):
        I.set_hint(dict(HINT, reserve_z=10 ** 12, reserve_w=10 ** 12))
        x = I.sym('reserve_x', lo=1, hi=U128)
        y = I.sym('reserve_y', lo=1, hi=U128)
        z = I.sym('reserve_z', lo=1, hi=U128)
        w = I.sym('reserve_w', lo=1, hi=U128)
        fees1, _ = sym_fees(I, 0)
        fees2, _ = sym_fees(I, 0, prefix='p2_')
        pm_config(I)
        put_pool(I, pool_info('p1', ['uA', 'uB'], [6, 6], [x, y], xyk(), fees1))
        put_pool(I, pool_info('p2', ['uB', 'uC'], [6, 6], [z, w], xyk(), fees2))
        b = bank_of(I)
        b.set(PM, 'uA', x); b.set(PM, 'uB', simp(y + z)); b.set(PM, 'uC', w)
        for d in ('uA', 'uB', 'uC'):
            b.supply[d] = simp(b.get(PM, d) * 2 + (1 << 130))
        o = I.sym('offer', lo=1, hi=U128)
        b.set('trader', 'uA', o)
        I.assume(I.addr_valid('alice'))
        ops = [swap_op(a, bb, pid) for a, bb, pid in hops]
        final = hops[-1][1]
        ch = Chain(I, CONTRACTS)
        start = ch.snapshot()
        pre = bank_of(I).get('alice', final)
        st0, _ = ch.execute('trader', PM, route_msg(ops, max_slippage=Some(5 * 10 ** 17), receiver=Some('alice'), minimum=NONE()), [coin_v('uA', o)])
        if st0 != 'ok':
            I.outcome('route_rejected_without_minimum')
            return
        D = simp(bank_of(I).get('alice', final) - pre)
        ch.restore(start)
        st1, _ = ch.execute('trader', PM, route_msg(ops, max_slippage=Some(5 * 10 ** 17), receiver=Some('alice'), minimum=Some(D)), [coin_v('uA', o)])
        D1 = simp(bank_of(I).get('alice', final) - pre)
        ch.restore(start)
        if I.fork(D + 1 > U128):
            return
        st2, _ = ch.execute('trader', PM, route_msg(ops, max_slippage=Some(5 * 10 ** 17), receiver=Some('alice'), minimum=Some(simp(D + 1))), [coin_v('uA', o)])
        I.cover('ok')
        I.check('exactly_the_minimum_is_enough', st1 == 'ok')
        if st1 == 'ok':
            I.check('same_amount_delivered', smt.Eq(D1, D))
        I.check('one_unit_short_is_refused', st2 != 'ok')
    return s


def _replay_boundary(shape):
    def rb(label, m):
        jops = [{'mantra_swap': {'token_in_denom': a, 'token_out_denom': bb, 'pool_identifier': pid}} for a, bb, pid in ROUTES[shape]]
        return _replay_minimum_receive(shape, jops, exact=(label != 'one_unit_short_is_refused'))
    return rb


for _shape in ('AB_BC', 'AB_BA'):
    obligation('C04', 'R2.minimum_receive_boundary_%s' % _shape, entries=['execute', 'execute_swap_operations', 'perform_swap'], kind='R',
               statement='from the same state: the route delivers D without a minimum; with minimum_receive = D it executes and delivers D; with D + 1 it is refused as a whole',
               bounds='as R1 (two constant-product pools, symbolic reserves / fees / offer), tolerance 50%; three runs from one snapshot', covers=['ok'],
               abstractions=[ABSTRACT_PRICING_NOTE], opts={'abstract': ABSTRACT_PRICING}, replay=_replay_boundary(_shape))(_ob_minimum_boundary(_shape))


for _shape in ROUTES:
    obligation('C04', 'R1.route_hops_%s' % _shape, entries=['execute', 'execute_swap_operations', 'perform_swap', 'assert_operations'], kind='S',
               tier='thorough' if len(ROUTES[_shape]) > 3 else 'quick',
               statement='routed swap %s (incl. routes that return to the offer denom): every hop offers exactly what the previous hop returned (the first: the funds sent); '
                         'every hop is within the caller max_slippage (symbolic, capped at 50%%); only the final output reaches the receiver and it is at least the stated minimum_receive (symbolic); the sender pays the offer only; per denom the fee collector receives the protocol fees and the '
                         'supply drops by the burn fees of the hops that pay out that denom; the contract balance beyond the summed reserves is unchanged' % _shape,
               bounds='pools uA/uB and uB/uC, reserves/offer/excess [0,2^128), real is_valid fees; pricing kernel abstracted (results arbitrary u128)', covers=['ok'],
               abstractions=[ABSTRACT_PRICING_NOTE], opts={'abstract': ABSTRACT_PRICING}, replay=_replay_route_vs_manual(_shape))(_ob_route(_shape))
