"""Locked deposits: ProvideLiquidity with `unlocking_duration` goes pool manager -> farm manager (Create / Expand on behalf).

One cross-contract scenario, registered under the three properties that speak about it:
  C14 (can never be used to lock LP for, or expand a position of, someone other than the sender),
  C08 (a position is created for someone else only by the pool manager on behalf of a depositor; the recorded amount of a
       position changes only by its owner's deposits ...),
  C10 (the weight of a locked deposit goes to the position owner and to the total, nobody else holds weight).
Both contracts' `execute` / `reply` / `query` run from their MIR; the wasm messages and the Positions query between them are
dispatched by the chain model."""
import z3

from .. import smt
from ..smt import simp
from ..values import *
from ..chain import Chain, bank_of
from .common import *
from .pm import *
from .fm import (FM, PMA, EM, FC, LP1, DAY, NS, fm_config, set_epoch, position, put_position, get_position, all_positions, put_weight, weights_of,
                 set_ownership, fm_state_steps)
from .c02 import provide_msg, MINLIQ, _mints
from .c07 import carry

E = 10
BOTH = {PM: 'pool-manager', FM: 'farm-manager'}
HINT = {'x1': 10 ** 12, 'y1': 10 ** 12, 'S1': 10 ** 12, 'amount': 10 ** 6, 'amount_b': 10 ** 6, 'pm_amt': 10 ** 6, 'pv_amt': 2 * 10 ** 6,
        'w_trader': 1174000, 'w_victim': 2348000, 'T': 10 ** 7}
TARGETS = ['new_auto', 'new_explicit', 'own', 'foreign', 'own_closed', 'own_other_lp']
LP2 = 'factory/pool_manager/p2.LP'
DUR = 30 * DAY


def _w(I, amount, dur=DUR):
    st, r = I.try_call('calculate_weight', [Ref([coin_v(LP1, amount)], 0), dur], 'farm-manager')
    if st != 'ok' or not is_ok(r):
        return None
    return r.f[0]


def _res(I, addr, epoch):
    return carry(weights_of(I, addr, LP1), epoch)


def _ob(kind, switches=False):
    def s(I):
        I.set_hint(HINT)
        if switches:
            # C17 variant: the three switches of the pool are symbolic, the lock target is the sender's own new position
            sw = I.fork(I.symbool('swaps_enabled'))
            dep = I.fork(I.symbool('deposits_enabled'))
            wd = I.fork(I.symbool('withdrawals_enabled'))
            target, to_victim = TARGETS[I.choose(3, 'target')], False
        else:
            sw = dep = wd = True
            target = TARGETS[I.choose(6, 'target')]
            to_victim = I.choose(2, 'receiver_is_victim') == 1 if target in TARGETS[:4] else False
        # ---- pool manager: one funded constant-product pool
        pm_config(I)
        set_ownership(I, PM, 'creator')
        b = bank_of(I)
        x = I.sym('x1', lo=1, hi=U128 // 4)
        y = I.sym('y1', lo=1, hi=U128 // 4)
        S = I.sym('S1', lo=MINLIQ, hi=U128 // 4)
        put_pool(I, pool_info('p1', ['uA', 'uB'], [6, 6], [x, y], xyk(), param_fees(I), status=pool_status(sw, dep, wd)))
        b.set(PM, 'uA', x)
        b.set(PM, 'uB', y)
        b.set(PM, LP1, MINLIQ)
        b.supply[LP1] = S
        amt = I.sym('amount', lo=2, hi=U128 // 4)
        amt_b = I.sym('amount_b', lo=1, hi=U128 // 4)
        b.set('trader', 'uA', amt)
        b.set('trader', 'uB', amt_b)
        # ---- farm manager: the trader's own position and somebody else's, with their weights
        fm_config(I)
        set_ownership(I, FM, 'creator')
        set_epoch(I, E, now_s=E * DAY + 5)
        I.world.meta['contracts'] = dict(BOTH)
        I.world.store(FM)['position_id_counter'] = 7
        pm_amt = I.sym('pm_amt', lo=1, hi=U128 // 64)
        pv_amt = I.sym('pv_amt', lo=1, hi=U128 // 64)
        I.assume(MINLIQ + pm_amt + pv_amt + 5 <= S)
        put_position(I, position('u-m', LP1, pm_amt, DUR, 'trader', None))
        put_position(I, position('u-v', LP1, pv_amt, DUR, 'victim', None))
        # two more positions of the sender that the farm manager will refuse to top up: one already closed, one holding another pool's LP token
        put_position(I, position('u-x', LP1, 5, DUR, 'trader', 40 * DAY))
        put_position(I, position('u-y', LP2, 5, DUR, 'trader', None))
        b.set(FM, LP2, 5)
        b.set(FM, LP1, simp(pm_amt + pv_amt + 5))
        wt = I.sym('w_trader', lo=1, hi=U128 // 4)
        wv = I.sym('w_victim', lo=1, hi=U128 // 4)
        T = I.sym('T', lo=1, hi=U128 // 2)
        I.assume(T >= wt + wv)
        put_weight(I, 'trader', LP1, 3, wt)
        put_weight(I, 'victim', LP1, 3, wv)
        put_weight(I, FM, LP1, 3, T)
        for a in ('trader', 'victim'):
            I.assume(I.addr_valid(a))
        lock_id = {'new_auto': None, 'new_explicit': Some('fresh'), 'own': Some('u-m'), 'foreign': Some('u-v'), 'own_closed': Some('u-x'),
                   'own_other_lp': Some('u-y')}[target]
        msg = provide_msg('p1', swap_slip=Some(5 * 10 ** 17), receiver=Some('victim') if to_victim else None, unlocking=Some(DUR), lock_id=lock_id)
        funds = [coin_v('uA', amt), coin_v('uB', amt_b)] if kind == 'both' else [coin_v('uA', amt)]
        pre = b.snapshot()
        before_pos = {p.get('identifier'): clone(p) for p in all_positions(I)}
        ch = Chain(I, BOTH)
        st, _ = ch.execute('trader', PM, msg, funds)
        I.observe('status', 'ok' if st == 'ok' else 'err')
        for pid in ('u-m', 'u-v', 'u-x', 'u-y', 'u-fresh', 'p-8'):
            p = get_position(I, pid)
            I.observe('pos:%s:amount' % pid, None if p is None else p.get('lp_asset').get('amount'))
            if p is not None:
                I.observe('pos:%s:receiver' % pid, p.get('receiver'))
        for u in ('trader', 'victim', FM, PM):
            I.observe('snap:%s:%s:%d' % (u, LP1, E + 1), dict(weights_of(I, u, LP1)).get(E + 1))
        for k in ((FM, LP1), ('trader', LP1), ('victim', LP1), (PM, LP1)):
            I.observe('bal:%s:%s' % k, b.get(*k))
        I.observe('supply:' + LP1, b.supply[LP1])
        allowed = (not to_victim) and target in ('new_auto', 'new_explicit', 'own')
        if st == 'ok' and target in ('own_closed', 'own_other_lp'):
            # the farm manager refuses the top-up (closed position / other LP token): the whole deposit must fail -- no tolerated internal failure here
            I.check('lock_refused_by_the_farm_manager_fails_the_whole_deposit', False)
            return
        if st != 'ok':
            I.outcome('rejected')
            return
        if switches:
            I.cover('ok')
            I.check('switched_off_operation_rejected_on_the_locked_path', dep and (sw or kind == 'both'))
        else:
            I.cover('ok:%s' % target, HINT)
        I.check('locks_only_for_the_sender_and_only_into_own_positions', allowed)
        I.check('no_temporary_bookkeeping_left', 'single_side_liquidity_provision_buffer' not in I.world.store(PM))
        shares = simp(b.supply[LP1] - pre.supply[LP1])
        I.check('shares_minted', shares > 0)
        # --- positions: exactly the sender's target gains exactly the minted shares; nobody else's position changes or appears
        v = get_position(I, 'u-v')
        I.check('foreign_position_untouched', v is not None and I.values_eq(v.get('lp_asset').get('amount'), pv_amt) is True and v.get('receiver') == 'victim'
                and v.get('open') is True)
        gained = 0
        for p in all_positions(I):
            pid = p.get('identifier')
            old = before_pos.get(pid)
            delta = simp(p.get('lp_asset').get('amount') - (old.get('lp_asset').get('amount') if old is not None else 0))
            if old is None or not (I.values_eq(delta, 0) is True):
                I.check('every_position_that_grew_belongs_to_the_sender', p.get('receiver') == 'trader')
                I.check('new_or_grown_position_is_open_with_the_requested_duration', p.get('open') is True and p.get('unlocking_duration') == DUR)
            gained = simp(gained + delta)
        I.check('positions_grow_by_exactly_the_minted_shares', smt.Eq(gained, shares))
        I.check('no_position_disappears', all(get_position(I, k) is not None for k in before_pos))
        exp_id = {'new_auto': 'p-8', 'new_explicit': 'u-fresh', 'own': 'u-m', 'foreign': 'u-v'}.get(target, 'u-m')
        tp = get_position(I, exp_id)
        I.check('the_named_target_received_the_shares', tp is not None and smt.Eq(
            tp.get('lp_asset').get('amount'), shares + (before_pos[exp_id].get('lp_asset').get('amount') if exp_id in before_pos else 0)))
        # --- custody: the farm manager holds the locked LP; nobody receives liquid LP
        I.check('farm_manager_holds_the_locked_lp', smt.Eq(b.get(FM, LP1), pre.get(FM, LP1) + shares))
        I.check('no_liquid_lp_handed_out', smt.And(smt.Eq(b.get('trader', LP1), pre.get('trader', LP1)), smt.Eq(b.get('victim', LP1), pre.get('victim', LP1)),
                                                   smt.Eq(b.get(PM, LP1), pre.get(PM, LP1))))
        # --- reserves stay backed (C01): balance minus reported reserve unchanged (zero here; odd single-asset deposit: one unit)
        pool = get_pool(I, 'p1')
        rs = {c.get('denom'): c.get('amount') for c in pool.get('assets').e}
        odd = I.ctx.fmod(amt, 2) if kind == 'single' else 0
        I.check('reserves_stay_backed', smt.And(smt.Eq(b.get(PM, 'uA') - rs['uA'], odd), smt.Eq(b.get(PM, 'uB') - rs['uB'], 0)))
        # --- weights: owner and total move by weight(shares), from the next epoch; nobody else holds or gains weight
        w = _w(I, shares)
        if w is None:
            I.check('weight_computable_for_an_accepted_lock', False)
            return
        I.check('owner_weight_grows_by_the_weight_of_the_shares', smt.Eq(_res(I, 'trader', E + 1), wt + w))
        I.check('total_weight_grows_by_the_same', smt.Eq(_res(I, FM, E + 1), T + w))
        I.check('other_users_weight_untouched', smt.Eq(_res(I, 'victim', E + 1), wv))
        I.check('pool_manager_holds_no_weight', smt.Eq(_res(I, PM, E + 1), 0))
        I.check('current_epoch_weights_untouched', smt.And(smt.Eq(_res(I, 'trader', E), wt), smt.Eq(_res(I, FM, E), T)))
    return s


def _replay(kind):
    def build(m):
        ch = m['_choices']
        target = TARGETS[ch.get('target', 0)]
        to_victim = ch.get('receiver_is_victim', 0) == 1
        fees = fees_of_model(m)
        status = (m.get('swaps_enabled', True), m.get('deposits_enabled', True), m.get('withdrawals_enabled', True))
        steps = [{'op': 'set_pool', 'pool': pool_json('p1', ['uA', 'uB'], [6, 6], [m['x1'], m['y1']], 'constant_product', fees, status=status)}]
        steps += _mints([('pool_manager', [('uA', m['x1']), ('uB', m['y1']), (LP1, MINLIQ)]),
                         ('farm_manager', [(LP1, m['pm_amt'] + m['pv_amt'] + 5), (LP2, 5)]),
                         ('sink', [(LP1, m['S1'] - MINLIQ - m['pm_amt'] - m['pv_amt'] - 5)]),
                         ('trader', [('uA', m['amount']), ('uB', m['amount_b'])])])
        steps += fm_state_steps(None, positions=[('u-m', LP1, m['pm_amt'], DUR, 'trader', None), ('u-v', LP1, m['pv_amt'], DUR, 'victim', None),
                                           ('u-x', LP1, 5, DUR, 'trader', 40 * DAY), ('u-y', LP2, 5, DUR, 'trader', None)],
                                weights=[('trader', LP1, 3, m['w_trader']), ('victim', LP1, 3, m['w_victim']), ('farm_manager', LP1, 3, m['T'])],
                                now_s=E * DAY + 5)
        steps.append({'op': 'set_counter', 'which': 'position', 'value': '7'})
        lock_id = {'new_auto': None, 'new_explicit': 'fresh', 'own': 'u-m', 'foreign': 'u-v', 'own_closed': 'u-x', 'own_other_lp': 'u-y'}[target]
        msg = {'provide_liquidity': {'pool_identifier': 'p1', 'swap_max_slippage': '0.5', 'receiver': '@victim' if to_victim else None,
                                     'unlocking_duration': DUR, 'lock_position_identifier': lock_id}}
        funds = [coin_j('uA', m['amount'])] + ([coin_j('uB', m['amount_b'])] if kind == 'both' else [])
        steps.append({'op': 'execute', 'contract': 'pool_manager', 'sender': 'trader', 'funds': funds, 'msg': msg})
        sc = {'setup': {'time_nanos': '0', 'epoch': {'genesis': '0', 'duration': str(DAY)}, 'farm': {'max_concurrent_farms': 2}}, 'steps': steps}
        return sc, len(steps) - 1
    return generic_replay(build)


_STATEMENT = ('ProvideLiquidity (%s) with an unlocking duration, for every lock target (new generated id / new explicit id / own position / another '
              'user position / own closed position / own position in another LP token) and receiver (none / another user): accepted only for the sender and never into a foreign position; a top-up the farm manager refuses fails the whole deposit; the minted shares are '
              'held by the farm manager and added to exactly the named position of the sender (created open with the requested duration when new); no other '
              'position changes, appears or disappears; nobody receives liquid LP; the owner weight and the total weight for the next epoch grow by '
              'weight(shares), other users and the pool manager gain none; no temporary buffer is left')
_COVERS = ['ok:new_auto', 'ok:new_explicit', 'ok:own']

for _pid, _prefix in (('C14', 'L1'), ('C08', 'S5'), ('C10', 'S3'), ('C01', 'S2'), ('C20', 'F4'), ('C05', 'S2'), ('C15', 'L1')):
    for _kind in ('both', 'single'):
        obligation(_pid, '%s.locked_deposit_%s_assets' % (_prefix, _kind),
                   entries=['pool-manager::execute', 'provide_liquidity', 'pool-manager::reply', 'farm-manager::execute', 'create_position', 'expand_position',
                            'update_weights', 'farm-manager::query', 'query_positions'],
                   kind='S', statement=_STATEMENT % ('two assets' if _kind == 'both' else 'one asset: swap half, reply, self-call'),
                   bounds='one funded constant-product pool, two open positions (sender, other user) with symbolic amounts and weights, symbolic deposit; '
                          'unlocking duration 30 days; 6 lock targets x 2 receivers', covers=_COVERS, replay=_replay(_kind))(_ob(_kind))


for _kind in ('both', 'single'):
    obligation('C17', 'S3.locked_deposit_%s_assets_respects_switches' % _kind,
               entries=['pool-manager::execute', 'provide_liquidity', 'pool-manager::reply', 'farm-manager::execute', 'create_position', 'expand_position'],
               kind='S', statement='ProvideLiquidity (%s) with an unlocking duration under all 8 switch states of the pool: executes only when deposits are enabled%s; when it '
                                   'executes, everything the locked-deposit obligation (C14.L1) demands holds as with all switches on' % (
                                       'two assets' if _kind == 'both' else 'one asset', '' if _kind == 'both' else ' and swaps are enabled (it swaps internally)'),
               bounds='as C14.L1 with symbolic switches; lock targets: new generated id / new explicit id / own position', covers=['ok'],
               replay=_replay(_kind))(_ob(_kind, switches=True))
