"""C17 — per-pool feature switches stop exactly the switched operation on every path."""
import json
import z3

from .. import smt
from ..smt import simp
from ..values import *
from ..chain import Chain, bank_of
from .common import *
from .pm import *
from .fm import set_ownership
from .c04 import CONTRACTS, swap_msg
from .c02 import provide_msg, withdraw_msg, MINLIQ
from .c12 import route_msg, swap_op

HINT = {'x1': 10 ** 9, 'y1': 10 ** 9, 'x2': 10 ** 9, 'y2': 10 ** 9, 'S1': 10 ** 9, 'S2': 10 ** 9, 'amount': 10 ** 6, 'amount_b': 10 ** 6, 'lp_amount': 10 ** 5}
LPD = {'p1': 'factory/pool_manager/p1.LP', 'p2': 'factory/pool_manager/p2.LP'}


def toggle_msg(pool_id, sw=None, dep=None, wd=None):
    def o(v):
        return NONE() if v is None else Some(v)
    ft = mk('mantra_dex_std::pool_manager::FeatureToggle', pool_identifier=pool_id, withdrawals_enabled=o(wd), deposits_enabled=o(dep), swaps_enabled=o(sw))
    return mk_enum('mantra_dex_std::pool_manager::ExecuteMsg', 'UpdateConfig', fee_collector_addr=NONE(), farm_manager_addr=NONE(),
                   pool_creation_fee=NONE(), feature_toggle=Some(ft))


def world(I, status1, status2=(True, True, True)):
    """two funded constant-product pools p1 (uA/uB) and p2 (uB/uC) with the given switch states"""
    I.set_hint(HINT)
    pm_config(I)
    set_ownership(I, PM, 'creator')
    b = bank_of(I)
    res = {}
    fee_cfg = param_fees(I)
    for pid, denoms, st in (('p1', ['uA', 'uB'], status1), ('p2', ['uB', 'uC'], status2)):
        x = I.sym('x' + pid[1], lo=1, hi=U128 // 4)
        y = I.sym('y' + pid[1], lo=1, hi=U128 // 4)
        S = I.sym('S' + pid[1], lo=MINLIQ, hi=U128 // 4)
        put_pool(I, pool_info(pid, denoms, [6, 6], [x, y], xyk(), fee_cfg, status=pool_status(*st)))
        res[pid] = (x, y, S)
        b.supply[LPD[pid]] = S
        b.set(PM, LPD[pid], MINLIQ)
        b.set('user', LPD[pid], simp(S - MINLIQ))
        for d, r in zip(denoms, (x, y)):
            b.set(PM, d, simp(b.get(PM, d) + r))
    amt = I.sym('amount', lo=2, hi=U128 // 4)
    amt_b = I.sym('amount_b', lo=1, hi=U128 // 4)
    for d in ('uA', 'uB', 'uC'):
        b.set('user', d, simp(amt + amt_b))
    return b, res, amt, amt_b


OPS = ['swap_p1', 'route_p1_p2', 'route_p2_p1', 'provide_p1', 'single_sided_p1', 'withdraw_p1', 'swap_p2', 'provide_p2', 'withdraw_p2']


def run_op(I, ch, op, amt, amt_b, lp_amt):
    half = Some(5 * 10 ** 17)
    if op == 'swap_p1':
        return ch.execute('user', PM, swap_msg('uB', 'p1', max_slippage=half), [coin_v('uA', amt)])
    if op == 'swap_p2':
        return ch.execute('user', PM, swap_msg('uC', 'p2', max_slippage=half), [coin_v('uB', amt)])
    if op == 'route_p1_p2':
        return ch.execute('user', PM, route_msg([swap_op('uA', 'uB', 'p1'), swap_op('uB', 'uC', 'p2')], max_slippage=half), [coin_v('uA', amt)])
    if op == 'route_p2_p1':
        return ch.execute('user', PM, route_msg([swap_op('uC', 'uB', 'p2'), swap_op('uB', 'uA', 'p1')], max_slippage=half), [coin_v('uC', amt)])
    if op == 'provide_p1':
        return ch.execute('user', PM, provide_msg('p1'), [coin_v('uA', amt), coin_v('uB', amt_b)])
    if op == 'provide_p2':
        return ch.execute('user', PM, provide_msg('p2'), [coin_v('uB', amt), coin_v('uC', amt_b)])
    if op == 'single_sided_p1':
        return ch.execute('user', PM, provide_msg('p1', swap_slip=half), [coin_v('uA', amt)])
    if op == 'withdraw_p1':
        return ch.execute('user', PM, withdraw_msg('p1'), [coin_v(LPD['p1'], lp_amt)])
    if op == 'withdraw_p2':
        return ch.execute('user', PM, withdraw_msg('p2'), [coin_v(LPD['p2'], lp_amt)])
    raise ValueError(op)


def _op_json(op, m):
    half = '0.5'
    A, B, L = m['amount'], m['amount_b'], m['lp_amount']
    if op == 'swap_p1':
        return {'swap': {'ask_asset_denom': 'uB', 'max_slippage': half, 'pool_identifier': 'p1'}}, [('uA', A)]
    if op == 'swap_p2':
        return {'swap': {'ask_asset_denom': 'uC', 'max_slippage': half, 'pool_identifier': 'p2'}}, [('uB', A)]
    if op == 'route_p1_p2':
        return {'execute_swap_operations': {'operations': [{'mantra_swap': {'token_in_denom': 'uA', 'token_out_denom': 'uB', 'pool_identifier': 'p1'}},
                                                           {'mantra_swap': {'token_in_denom': 'uB', 'token_out_denom': 'uC', 'pool_identifier': 'p2'}}],
                                            'max_slippage': half}}, [('uA', A)]
    if op == 'route_p2_p1':
        return {'execute_swap_operations': {'operations': [{'mantra_swap': {'token_in_denom': 'uC', 'token_out_denom': 'uB', 'pool_identifier': 'p2'}},
                                                           {'mantra_swap': {'token_in_denom': 'uB', 'token_out_denom': 'uA', 'pool_identifier': 'p1'}}],
                                            'max_slippage': half}}, [('uC', A)]
    if op == 'provide_p1':
        return {'provide_liquidity': {'pool_identifier': 'p1'}}, [('uA', A), ('uB', B)]
    if op == 'provide_p2':
        return {'provide_liquidity': {'pool_identifier': 'p2'}}, [('uB', A), ('uC', B)]
    if op == 'single_sided_p1':
        return {'provide_liquidity': {'pool_identifier': 'p1', 'swap_max_slippage': half}}, [('uA', A)]
    if op == 'withdraw_p1':
        return {'withdraw_liquidity': {'pool_identifier': 'p1'}}, [(LPD['p1'], L)]
    return {'withdraw_liquidity': {'pool_identifier': 'p2'}}, [(LPD['p2'], L)]


def _replay_switch(op):
    from .c02 import _mints

    def build(m):
        fees = fees_of_model(m)
        st1 = (m['swaps_enabled'], m['deposits_enabled'], m['withdrawals_enabled'])
        steps = [{'op': 'set_pool', 'pool': pool_json('p1', ['uA', 'uB'], [6, 6], [m['x1'], m['y1']], 'constant_product', fees, status=st1)},
                 {'op': 'set_pool', 'pool': pool_json('p2', ['uB', 'uC'], [6, 6], [m['x2'], m['y2']], 'constant_product', fees)}]
        tot = m['amount'] + m['amount_b']
        steps += _mints([('pool_manager', [('uA', m['x1']), ('uB', m['y1'] + m['x2']), ('uC', m['y2']), (LPD['p1'], MINLIQ), (LPD['p2'], MINLIQ)]),
                         ('user', [('uA', tot), ('uB', tot), ('uC', tot), (LPD['p1'], m['S1'] - MINLIQ), (LPD['p2'], m['S2'] - MINLIQ)])])
        msg, funds = _op_json(op, m)
        steps.append({'op': 'execute', 'contract': 'pool_manager', 'sender': 'user', 'funds': [coin_j(d, a) for d, a in sorted(funds)], 'msg': msg})
        return {'setup': {}, 'steps': steps}, len(steps) - 1
    return generic_replay(build)


def _replay_switch_status_only(op):
    """for the abstracted (route) obligations only the accept/reject outcome is meaningful natively: used for
    the `switched off => rejected` check alone"""
    inner = _replay_switch(op)

    def rb(label, m):
        if label != 'switched_off_operation_rejected':
            return None
        m2 = dict(m)
        m2.update(HINT)      # realistic amounts: the uninterpreted pricing results of the model are not realisable natively
        m2['_obs'] = {'status': m.get('_obs', {}).get('status')}
        return inner(label, m2)
    return rb


NEEDS = {'swap_p1': 'sw', 'route_p1_p2': 'sw', 'route_p2_p1': 'sw', 'provide_p1': 'dep', 'single_sided_p1': 'both', 'withdraw_p1': 'wd'}


def _ob_switch(op):
    def s(I):
        sw = I.fork(I.symbool('swaps_enabled'))
        dep = I.fork(I.symbool('deposits_enabled'))
        wd = I.fork(I.symbool('withdrawals_enabled'))
        b, res, amt, amt_b = world(I, (sw, dep, wd))
        lp_amt = I.sym('lp_amount', lo=1, hi=U128 // 8)
        I.assume(lp_amt <= res['p1'][2] - MINLIQ)
        I.assume(lp_amt <= res['p2'][2] - MINLIQ)
        ch = Chain(I, CONTRACTS)
        start = ch.snapshot()
        st, _ = run_op(I, ch, op, amt, amt_b, lp_amt)
        I.observe('status', 'ok' if st == 'ok' else 'err')
        observe_pool(I, 'p1')
        observe_pool(I, 'p2')
        observe_bank(I, bank_of(I), [('user', 'uA'), ('user', 'uB'), ('user', 'uC'), (PM, 'uA'), (PM, 'uB'), (PM, 'uC')])
        need = NEEDS.get(op)
        off = {'sw': not sw, 'dep': not dep, 'wd': not wd, 'both': (not sw) or (not dep), None: False}[need]
        if off:
            I.cover('switched_off', HINT)
            I.check('switched_off_operation_rejected', st != 'ok')
            return
        # not switched off: same outcome and same post-state as with every switch on
        after = ch.snapshot()
        ch.restore(start)
        for pid in ('p1',):
            get_pool(I, pid).set('status', pool_status(True, True, True))
        ch2 = Chain(I, CONTRACTS)
        st2, _ = run_op(I, ch2, op, amt, amt_b, lp_amt)
        I.cover('not_switched_off', HINT)
        I.check('same_outcome_as_all_enabled', st == st2)
        if st == 'ok' and st2 == 'ok':
            b2 = bank_of(I)
            same = [smt.Eq(after[1].get(a, d), b2.get(a, d)) for (a, d) in set(list(after[1].bal.keys()) + list(b2.bal.keys()))]
            I.check('same_balances_as_all_enabled', smt.And(*same))
            for pid in ('p1', 'p2'):
                pa = [v for k, v in after[0][PM]['pools'][1] if k[0] == pid][0]
                pb = get_pool(I, pid)
                I.check('same_reserves_as_all_enabled', smt.And(*[smt.Eq(x, y) for x, y in zip(reserves_of(pa), reserves_of(pb))]))
    return s


for _op in OPS:
    obligation('C17', 'S1.switches_%s' % _op, entries=['execute', 'swap::commands::swap', 'execute_swap_operations', 'provide_liquidity', 'withdraw_liquidity', 'reply'],
               kind='R', tier='quick',
               statement='operation %s with the three switches of pool p1 symbolic: rejected when the switch it needs on p1 is off (every path incl. routed hops and the '
                         'internal swap of a single-asset deposit); otherwise outcome, balances and reserves equal the run with every switch on' % _op,
               bounds='two funded constant-product pools sharing a denom; all 8 switch combinations of p1; amounts symbolic',
               covers=(['switched_off', 'not_switched_off'] if _op in NEEDS else ['not_switched_off']),
               abstractions=[ABSTRACT_PRICING_NOTE] if _op.startswith('route') else [],
               opts={'abstract': ABSTRACT_PRICING} if _op.startswith('route') else {},
               replay=_replay_switch_status_only(_op) if _op.startswith('route') else _replay_switch(_op))(_ob_switch(_op))


def _replay_toggle(label, m):
    """native: the same two pools and the same toggle message; the property is evaluated on the statuses the real contract reports afterwards"""
    from .c02 import _mints
    ch = m['_choices']
    who = ['creator', 'mallory'][ch.get('sender', 0)]
    pool_id = ['p1', 'nope'][ch.get('pool', 0)]
    vals = [[None, True, False][ch.get(k, 0)] for k in ('sw', 'dep', 'wd')]
    fees = fees_of_model(m)
    init1, init2 = (True, False, True), (False, True, True)
    steps = [{'op': 'set_pool', 'pool': pool_json('p1', ['uA', 'uB'], [6, 6], [m['x1'], m['y1']], 'constant_product', fees, status=init1)},
             {'op': 'set_pool', 'pool': pool_json('p2', ['uB', 'uC'], [6, 6], [m['x2'], m['y2']], 'constant_product', fees, status=init2)},
             {'op': 'execute', 'contract': 'pool_manager', 'sender': who, 'funds': [],
              'msg': {'update_config': {'feature_toggle': {'pool_identifier': pool_id, 'swaps_enabled': vals[0], 'deposits_enabled': vals[1], 'withdrawals_enabled': vals[2]}}}},
             {'op': 'query', 'contract': 'pool_manager', 'msg': {'pools': {'pool_identifier': 'p1'}}},
             {'op': 'query', 'contract': 'pool_manager', 'msg': {'pools': {'pool_identifier': 'p2'}}}]
    sc = {'setup': {}, 'steps': steps}

    def judge(out):
        r = out['results']
        tx = r[2]

        def status(q):
            st = q['ok']['pools'][0]['pool_info']['status']
            return (st['swaps_enabled'], st['deposits_enabled'], st['withdrawals_enabled'])
        s1, s2 = status(r[3]), status(r[4])
        allowed = who == 'creator' and pool_id == 'p1'
        if 'ok' in tx and not allowed:
            return True, 'toggle by %s on %s accepted' % (who, pool_id)
        if 'ok' not in tx and allowed:
            return True, 'owner toggle of an existing pool refused: %s' % json.dumps(tx)[:200]
        exp1 = tuple(v if v is not None else o for v, o in zip(vals, init1)) if 'ok' in tx else init1
        if s1 != exp1 or s2 != init2:
            return True, 'toggle %s of p1 (switches were %s): p1 now %s (expected %s), p2 now %s (expected %s)' % (vals, init1, s1, exp1, s2, init2)
        return False, 'native run agrees'
    return sc, judge


@obligation('C17', 'S2.toggle_writes_only_the_named_pool', entries=['execute', 'update_config', 'assert_owner'], kind='S',
            statement='UpdateConfig{feature_toggle} by the owner changes only the status of the named pool to the requested values; other pools, reserves and config are untouched; '
                      'a non-owner or an unknown pool is rejected',
            bounds='two pools, each switch None/Some(true)/Some(false), sender owner or stranger', covers=['ok', 'rejected'], replay=_replay_toggle)
def s2(I):
    b, res, amt, amt_b = world(I, (True, False, True), (False, True, True))
    who = ['creator', 'mallory'][I.choose(2, 'sender')]
    pool_id = ['p1', 'nope'][I.choose(2, 'pool')]
    vals = []
    for k in ('sw', 'dep', 'wd'):
        c = I.choose(3, k)
        vals.append([None, True, False][c])
    before1 = clone(get_pool(I, 'p1'))
    before2 = clone(get_pool(I, 'p2'))
    ch = Chain(I, CONTRACTS)
    st, _ = ch.execute(who, PM, toggle_msg(pool_id, *vals), [])
    if st != 'ok':
        I.cover('rejected', HINT)
        I.check('owner_toggle_of_existing_pool_accepted', not (who == 'creator' and pool_id == 'p1'))
        return
    I.cover('ok', HINT)
    I.check('only_owner_toggles', who == 'creator')
    p1 = get_pool(I, 'p1')
    exp = [v if v is not None else o for v, o in zip(vals, (True, False, True))]
    stt = p1.get('status')
    I.check('status_set_as_requested', [stt.get('swaps_enabled'), stt.get('deposits_enabled'), stt.get('withdrawals_enabled')] == exp)
    I.check('reserves_untouched', smt.And(*[smt.Eq(x, y) for x, y in zip(reserves_of(p1), reserves_of(before1))]))
    I.check('other_pool_untouched', I.values_eq(get_pool(I, 'p2'), before2))

from . import lockdep   # noqa: E402,F401  (locked-deposit path under the switches)
