"""Three-asset stableswap pool: ACCOUNTING around the Curve arithmetic.

The Newton solvers (`compute_swap`, `compute_lp_mint_amount_for_stableswap_deposit`) are replaced by arbitrary functions (a fresh result
or an error per call), so these obligations say nothing about prices or LP value on stableswap pools (C19 / the stableswap halves of
C02, C03 remain outside every claim).  What they decide is everything the handlers do AROUND those results on a pool with three assets:
reserves stay backed by balances (C01), withdrawals burn what was sent and pay floor(reserve * shares / supply) of EVERY asset (C02),
the first deposit locks the minimum liquidity in the contract (C02), immutable pool fields never change (C16).
Registered as C01.S3 / C02.S4 / C16.S4."""
import z3

from .. import smt
from ..smt import simp
from ..values import *
from ..chain import Chain, bank_of
from .common import *
from .pm import *
from .c02 import provide_msg, withdraw_msg, MINLIQ, _mints
from .c04 import swap_msg

CONTRACTS = {PM: 'pool-manager'}
DEN = ['uA', 'uB', 'uC']
LP3 = 'factory/pool_manager/p3.LP'
HINT = {'r_A': 10 ** 12, 'r_B': 10 ** 12, 'r_C': 10 ** 12, 'lp_supply': 3 * 10 ** 12, 'd_A': 10 ** 6, 'd_B': 10 ** 6, 'd_C': 10 ** 6, 'lp_amount': 10 ** 6,
        'x_A': 5, 'x_B': 0, 'x_C': 7, 'lp_result0': 3 * 10 ** 6, 'offer': 10 ** 6,
        'swapcomp0_return_amount': 999000, 'swapcomp0_slippage_amount': 100, 'swapcomp0_swap_fee_amount': 300, 'swapcomp0_protocol_fee_amount': 200,
        'swapcomp0_burn_fee_amount': 100, 'swapcomp0_extra_fees_amount': 0}
DEC_OPTIONS = [[6, 6, 6], [6, 18, 6], [18, 6, 12]]


def _abs_lp_mint(I, args):
    n = I.world.meta.setdefault('lp_calls', 0)
    I.world.meta['lp_calls'] = n + 1
    kind = I.choose(3, 'lp_result_kind%d' % n)
    if kind == 2:
        return Err(En('pool_manager::error::ContractError', 'StableInvariantError'))
    if kind == 1:
        return Ok(NONE())
    return Ok(Some(I.sym('lp_result%d' % n, bits=128)))


ABSTRACT = dict(ABSTRACT_PRICING)
ABSTRACT['pool-manager::compute_lp_mint_amount_for_stableswap_deposit'] = _abs_lp_mint
NOTE = ('compute_swap and compute_lp_mint_amount_for_stableswap_deposit replaced by arbitrary functions (fresh 128-bit results / None / Err): '
        'accounting only, no claim about stableswap prices or LP value')


def _world(I, empty=False):
    I.set_hint(HINT)
    decs = I.param('decimals3', DEC_OPTIONS)
    pm_config(I)
    b = bank_of(I)
    res, X = {}, {}
    for d in DEN:
        res[d] = 0 if empty else I.sym('r_' + d[1], lo=1, hi=U128 // 4)
        X[d] = I.sym('x_' + d[1], hi=U128 // 4)
        b.set(PM, d, simp(res[d] + X[d]))
        b.supply[d] = simp(b.get(PM, d) + (1 << 129))
    fees = param_fees(I)
    put_pool(I, pool_info('p3', DEN, decs, [res[d] for d in DEN], stable(85), fees, lp_denom=LP3))
    if empty:
        S = 0
        b.supply[LP3] = 0
    else:
        S = I.sym('lp_supply', lo=MINLIQ, hi=U128 // 4)
        b.supply[LP3] = S
        b.set(PM, LP3, MINLIQ)
        b.set('holder', LP3, simp(S - MINLIQ))
    return b, res, X, S, decs


def _pool_fields(I):
    p = get_pool(I, 'p3')
    return [clone(p.get(f)) for f in ('asset_denoms', 'asset_decimals', 'pool_type', 'pool_fees', 'lp_denom', 'pool_identifier')], [c.get('denom') for c in p.get('assets').e]


def _common_checks(I, b, X, before_fields):
    p = get_pool(I, 'p3')
    I.check('pool_still_exists', p is not None)
    if p is None:
        return {}
    rs = {c.get('denom'): c.get('amount') for c in p.get('assets').e}
    I.check('pool_keeps_every_asset_in_order', [c.get('denom') for c in p.get('assets').e] == DEN)
    if [c.get('denom') for c in p.get('assets').e] != DEN:
        return {}
    for d in DEN:
        I.check('reserves_stay_backed_exactly', smt.Eq(b.get(PM, d) - rs[d], X[d]))
    fields, order = _pool_fields(I)
    I.check('immutable_pool_fields_unchanged', all(I.values_eq(x, y) is True for x, y in zip(fields, before_fields[0])) and order == before_fields[1])
    return rs


def _observe(I, b, who):
    I.observe('status', 'ok')
    for d in DEN:
        I.observe('bal:%s:%s' % (PM, d), b.get(PM, d))
        I.observe('bal:%s:%s' % (who, d), b.get(who, d))
        I.observe('pool:p3:' + d, {c.get('denom'): c.get('amount') for c in get_pool(I, 'p3').get('assets').e}.get(d))
    I.observe('bal:%s:%s' % (PM, LP3), b.get(PM, LP3))
    I.observe('bal:%s:%s' % (who, LP3), b.get(who, LP3))
    I.observe('supply:' + LP3, b.supply[LP3])


def _ob(op):
    def s(I):
        b, res, X, S, decs = _world(I, empty=(op == 'first_deposit'))
        before = _pool_fields(I)
        ch = Chain(I, CONTRACTS)
        dep = {d: I.sym('d_' + d[1], lo=1, hi=U128 // 4) for d in DEN}
        if op in ('first_deposit', 'deposit_all', 'deposit_two'):
            ds = DEN if op != 'deposit_two' else ['uA', 'uC']
            for d in ds:
                b.set('lp1', d, dep[d])
            pre = b.snapshot()
            st, _ = ch.execute('lp1', PM, provide_msg('p3'), [coin_v(d, dep[d]) for d in ds])
            if st != 'ok':
                I.outcome('rejected')
                return
            I.cover('ok')
            _observe(I, b, 'lp1')
            rs = _common_checks(I, b, X, before)
            if not rs:
                return
            for d in DEN:
                I.check('reserves_grow_by_exactly_the_deposits', smt.Eq(rs[d], res[d] + (dep[d] if d in ds else 0)))
            minted = simp(b.supply[LP3] - pre.supply[LP3])
            locked = simp(b.get(PM, LP3) - pre.get(PM, LP3))
            if op == 'first_deposit':
                # the minimum liquidity of a stableswap pool is MINIMUM_LIQUIDITY_AMOUNT scaled by the decimals spread
                mn = MINLIQ * 10 ** (max(decs) - min(decs))
                I.check('minimum_liquidity_locked_in_the_contract', smt.Eq(locked, mn))
                I.check('rest_minted_to_the_depositor', smt.Eq(b.get('lp1', LP3) - pre.get('lp1', LP3), minted - mn))
            else:
                I.check('contract_holds_only_the_locked_minimum', smt.Eq(locked, 0))
                I.check('all_minted_lp_goes_to_the_depositor', smt.Eq(b.get('lp1', LP3) - pre.get('lp1', LP3), minted))
            I.check('depositor_pays_exactly_the_deposits', smt.And(*[smt.Eq(pre.get('lp1', d) - b.get('lp1', d), dep[d] if d in ds else 0) for d in DEN]))
        elif op == 'withdraw':
            lp = I.sym('lp_amount', lo=1, hi=U128 // 4)
            I.assume(lp <= S - MINLIQ)
            pre = b.snapshot()
            st, _ = ch.execute('holder', PM, withdraw_msg('p3'), [coin_v(LP3, lp)])
            if st != 'ok':
                I.outcome('rejected')
                return
            I.cover('ok')
            _observe(I, b, 'holder')
            rs = _common_checks(I, b, X, before)
            if not rs:
                return
            I.check('burns_exactly_the_shares_sent', smt.And(smt.Eq(pre.supply[LP3] - b.supply[LP3], lp), smt.Eq(pre.get('holder', LP3) - b.get('holder', LP3), lp),
                                                             smt.Eq(b.get(PM, LP3), pre.get(PM, LP3))))
            for d in DEN:
                share = I.ctx.fdiv(simp(res[d] * lp), S)
                I.check('pays_floor_pro_rata_share_of_every_asset', smt.Eq(b.get('holder', d) - pre.get('holder', d), share))
                I.check('reserve_reduced_by_what_was_paid', smt.Eq(res[d] - rs[d], share))
        elif op == 'swap_A_C':
            o = I.sym('offer', lo=1, hi=U128 // 4)
            b.set('trader', 'uA', o)
            pre = b.snapshot()
            st, _ = ch.execute('trader', PM, swap_msg('uC', 'p3', max_slippage=Some(5 * 10 ** 17)), [coin_v('uA', o)])
            if st != 'ok':
                I.outcome('rejected')
                return
            I.cover('ok')
            _observe(I, b, 'trader')
            rs = _common_checks(I, b, X, before)
            if not rs:
                return
            (din, ain, ask, vals) = I.world.meta['uf_calls'][-1]
            ret, _slip, swf, prf, buf, exf = vals
            I.check('offer_reserve_credited_in_full', smt.Eq(rs['uA'], res['uA'] + o))
            I.check('third_asset_untouched', smt.Eq(rs['uB'], res['uB']))
            I.check('ask_reserve_minus_outgoing', smt.Eq(rs['uC'], res['uC'] - ret - prf - buf))
            I.check('trader_gets_the_return', smt.Eq(b.get('trader', 'uC') - pre.get('trader', 'uC'), ret))
            I.check('fee_collector_gets_protocol_fee', smt.Eq(b.get('fee_collector', 'uC') - pre.get('fee_collector', 'uC'), prf))
            I.check('burn_fee_leaves_supply', smt.Eq(pre.supply['uC'] - b.supply['uC'], buf))
        else:
            raise ValueError(op)
    return s


def _replay(op):
    """native preset run on a real 3-asset stableswap pool (real Curve arithmetic): the same accounting relations are evaluated on the
    native balances; a violated relation confirms the counterexample"""
    def rb(label, m):
        decs = DEC_OPTIONS[m.get('_choices', {}).get('param:decimals3', 0)]
        unit = [10 ** k for k in decs]
        cands = []
        if all(('d_' + d[1]) in m for d in DEN) or 'lp_amount' in m or 'offer' in m:
            # the solver's own reserves / deposits / amounts (the LP amount minted and the swap result come from the real Curve code natively)
            cands.append(dict(R=[m.get('r_' + d[1], 0) for d in DEN], X=[m.get('x_' + d[1], 0) for d in DEN], S=m.get('lp_supply', 0),
                              dep=[m.get('d_' + d[1], 1) for d in DEN], lp=m.get('lp_amount', 1), offer=m.get('offer', 1)))
        cands.append(dict(R=[10 ** 6 * u for u in unit], X=[5, 0, 7], S=3 * 10 ** 6 * 10 ** max(decs), dep=[1234567 * u // 10 ** 3 for u in unit],
                          lp=(3 * 10 ** 6 * 10 ** max(decs)) // 7, offer=1234567 * unit[0] // 10 ** 3))
        for c in cands:
            r = _native(op, m, decs, c)
            if r is not None:
                return r
        return None
    return rb


def _native(op, m, decs, c):
    if True:
        from ..replayer import run_scenario
        fees = fees_of_model(m)
        R, Xs, S, dep = c['R'], c['X'], c['S'], c['dep']
        steps = []
        empty = op == 'first_deposit'
        pool = pool_json('p3', DEN, decs, [0, 0, 0] if empty else R, {'stable_swap': {'amp': 85}}, fees, lp_denom=LP3)
        steps.append({'op': 'set_pool', 'pool': pool})
        mn = MINLIQ * 10 ** (max(decs) - min(decs))
        mints = [('pool_manager', [(d, (0 if empty else r) + x) for d, r, x in zip(DEN, R, Xs)] + ([] if empty else [(LP3, MINLIQ)]))]
        if not empty:
            mints.append(('holder', [(LP3, S - MINLIQ)]))
        who = {'withdraw': 'holder', 'swap_A_C': 'trader'}.get(op, 'lp1')
        if op in ('first_deposit', 'deposit_all'):
            funds = list(zip(DEN, dep))
        elif op == 'deposit_two':
            funds = [(DEN[0], dep[0]), (DEN[2], dep[2])]
        elif op == 'withdraw':
            funds = [(LP3, c['lp'])]
        else:
            funds = [('uA', c['offer'])]
        if op != 'withdraw':
            mints.append((who, funds))
        steps += _mints(mints)
        msg = {'first_deposit': {'provide_liquidity': {'pool_identifier': 'p3'}}, 'deposit_all': {'provide_liquidity': {'pool_identifier': 'p3'}},
               'deposit_two': {'provide_liquidity': {'pool_identifier': 'p3'}}, 'withdraw': {'withdraw_liquidity': {'pool_identifier': 'p3'}},
               'swap_A_C': {'swap': {'ask_asset_denom': 'uC', 'max_slippage': '0.5', 'pool_identifier': 'p3'}}}[op]
        q = [{'op': 'balance', 'addr': 'pool_manager', 'denom': d} for d in DEN] + [{'op': 'balance', 'addr': who, 'denom': d} for d in DEN]
        q += [{'op': 'balance', 'addr': 'pool_manager', 'denom': rj(LP3)}, {'op': 'balance', 'addr': who, 'denom': rj(LP3)}, {'op': 'supply', 'denom': rj(LP3)},
              {'op': 'query', 'contract': 'pool_manager', 'msg': {'pools': {'pool_identifier': 'p3'}}}]
        sc = {'setup': {}, 'steps': steps + q + [{'op': 'execute', 'contract': 'pool_manager', 'sender': who, 'funds': [coin_j(d, a) for d, a in sorted(funds)], 'msg': msg}] + q}
        out = run_scenario(sc).get('results')
        if not out:
            return None
        n = len(q)
        tx = out[len(steps) + n]
        if 'ok' not in tx:
            return None

        def snap(rs):
            v = [int(r['ok']) if not isinstance(r.get('ok'), dict) else r['ok'] for r in rs]
            pool_assets = {a['denom']: int(a['amount']) for a in v[9]['pools'][0]['pool_info']['assets']}
            return {'pm': v[0:3], 'who': v[3:6], 'pm_lp': v[6], 'who_lp': v[7], 'supply': v[8], 'res': [pool_assets.get(d, -1) for d in DEN], 'info': v[9]['pools'][0]['pool_info']}
        a, z = snap(out[len(steps):len(steps) + n]), snap(out[-n:])
        bad = []
        for i, d in enumerate(DEN):
            if z['pm'][i] - z['res'][i] != a['pm'][i] - a['res'][i]:
                bad.append('balance - reserve of %s changed from %d to %d' % (d, a['pm'][i] - a['res'][i], z['pm'][i] - z['res'][i]))
        for f in ('asset_denoms', 'asset_decimals', 'pool_type', 'pool_fees', 'lp_denom'):
            if a['info'][f] != z['info'][f]:
                bad.append('pool field %s changed' % f)
        if [x['denom'] for x in a['info']['assets']] != [x['denom'] for x in z['info']['assets']]:
            bad.append('asset order changed')
        if op == 'withdraw':
            lp = funds[0][1]
            for i, d in enumerate(DEN):
                share = a['res'][i] * lp // a['supply']
                if z['who'][i] - a['who'][i] != share or a['res'][i] - z['res'][i] != share:
                    bad.append('%s: paid %d, reserve reduced by %d, pro rata %d' % (d, z['who'][i] - a['who'][i], a['res'][i] - z['res'][i], share))
            if a['supply'] - z['supply'] != lp or z['pm_lp'] != a['pm_lp']:
                bad.append('burned %d of %d sent; contract LP %d -> %d' % (a['supply'] - z['supply'], lp, a['pm_lp'], z['pm_lp']))
        elif op == 'swap_A_C':
            if z['res'][0] != a['res'][0] + funds[0][1] or z['res'][1] != a['res'][1]:
                bad.append('offer reserve %d -> %d for offer %d; third reserve %d -> %d' % (a['res'][0], z['res'][0], funds[0][1], a['res'][1], z['res'][1]))
        else:
            fd = dict(funds)
            for i, d in enumerate(DEN):
                if z['res'][i] - a['res'][i] != fd.get(d, 0):
                    bad.append('reserve of %s grew by %d for a deposit of %d' % (d, z['res'][i] - a['res'][i], fd.get(d, 0)))
            minted = z['supply'] - a['supply']
            locked = z['pm_lp'] - a['pm_lp']
            exp_locked = mn if op == 'first_deposit' else 0
            if locked != exp_locked or z['who_lp'] - a['who_lp'] != minted - exp_locked:
                bad.append('minted %d, locked in the contract %d (expected %d), depositor got %d' % (minted, locked, exp_locked, z['who_lp'] - a['who_lp']))
        if bad:
            why = '3-asset stableswap pool (decimals %s), %s: %s' % (decs, op, '; '.join(bad[:4]))
            return sc, (lambda o, w=why: (True, w))
        return None


OPS = ['first_deposit', 'deposit_all', 'deposit_two', 'withdraw', 'swap_A_C']
_ST = {'first_deposit': 'first deposit of all three assets into the empty pool: the decimals-scaled minimum liquidity is minted to the contract, the rest to the depositor',
       'deposit_all': 'later deposit of all three assets: all minted LP goes to the depositor',
       'deposit_two': 'later deposit of two of the three assets',
       'withdraw': 'withdrawal: burns exactly the LP sent and pays floor(reserve * shares / supply) of EVERY asset, reducing each reserve by what was paid',
       'swap_A_C': 'swap uA -> uC: offer reserve credited in full, the third reserve untouched, ask reserve reduced by what leaves the contract'}

for _pid, _pre, _ops in (('C01', 'S3', OPS), ('C02', 'S4', ['first_deposit', 'deposit_all', 'withdraw']), ('C16', 'S4', OPS)):
    for _op in _ops:
        obligation(_pid, '%s.stableswap3_%s' % (_pre, _op), entries=['execute', 'provide_liquidity', 'withdraw_liquidity', 'swap::commands::swap', 'perform_swap'],
                   kind='S', statement='three-asset stableswap pool, %s; in every case balance - reserve is unchanged per asset, the pool keeps its denoms, decimals, '
                                       'type, fees, LP denom, identifier and asset order' % _ST[_op],
                   bounds='reserves, deposits, LP amounts, excess balances symbolic; decimals and fee configuration selected by VERIF_SEED (all in the thorough tier)',
                   covers=['ok'], abstractions=[NOTE], opts={'abstract': ABSTRACT}, replay=_replay(_op))(_ob(_op))
