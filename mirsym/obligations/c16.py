"""C16 — pool creation charges exact fees; pool parameters are unique and immutable."""
import json
import z3

from .. import smt
from ..smt import simp
from ..values import *
from ..chain import Chain, bank_of
from .common import *
from .pm import *
from .c04 import CONTRACTS
from .c02 import provide_msg, withdraw_msg, setup_funded_pool, LP, MINLIQ, _mints, _fees_of

HINT = {'creation_fee': 1000, 'tf1': 500, 'tf2': 300, 'paid_usd': 1000, 'paid_om': 500, 'paid_atom': 300, 'protocol_fee': 10 ** 15, 'swap_fee': 10 ** 15,
        'burn_fee': 0, 'amp': 100, 'reserve_x': 10 ** 9, 'reserve_y': 2 * 10 ** 9, 'deposit_a': 10 ** 6, 'deposit_b': 2 * 10 ** 6, 'lp_supply': 10 ** 9,
        'pm_balance_A': 10 ** 9, 'pm_balance_B': 2 * 10 ** 9, 'tolerance': 10 ** 17}


def create_msg(denoms, decimals, fees, ptype, ident=None):
    return mk_enum('mantra_dex_std::pool_manager::ExecuteMsg', 'CreatePool', asset_denoms=Vc(list(denoms)), asset_decimals=Vc(list(decimals)),
                   pool_fees=fees, pool_type=ptype, pool_identifier=NONE() if ident is None else Some(ident))


def _replay_create_fees(tf_shape):
    def build(m):
        tf = {'none': [], 'other': [('uom', m['tf1'])], 'same': [('uusd', m['tf1'])], 'two': [('uusd', m['tf1']), ('uom', m['tf2'])]}[tf_shape]
        funds = [(d, m[k]) for d, k in (('uatom', 'paid_atom'), ('uom', 'paid_om'), ('uusd', 'paid_usd')) if m[k] > 0]
        # an older pool whose reserves are in the fee denoms (the pool manager holds them)
        steps = [{'op': 'set_pool', 'pool': pool_json('o.old', ['uom', 'uusd'], [6, 6], [m.get('old_reserve_om', 0), m.get('old_reserve_usd', 0)], 'constant_product', (0, 0, 0, []))}]
        steps += _mints([('pool_manager', [('uom', m.get('old_reserve_om', 0)), ('uusd', m.get('old_reserve_usd', 0))]), ('creator', funds)])
        steps.append({'op': 'execute', 'contract': 'pool_manager', 'sender': 'creator', 'funds': [coin_j(d, a) for d, a in funds],
                      'msg': {'create_pool': {'asset_denoms': ['uA', 'uB'], 'asset_decimals': [6, 6],
                                              'pool_fees': {'protocol_fee': {'share': '0.001'}, 'swap_fee': {'share': '0.001'}, 'burn_fee': {'share': '0'}, 'extra_fees': []},
                                              'pool_type': 'constant_product', 'pool_identifier': None}}})
        sc = {'setup': {'pool': {'pool_creation_fee': {'denom': 'uusd', 'amount': str(m['creation_fee'])}}},
              'tf_fees': [coin_j(d, a) for d, a in tf], 'steps': steps}
        return sc, len(steps) - 1
    return generic_replay(build)


def _ob_create_fees(tf_shape):
    """tf_shape: 'none' | 'other' (one TF fee coin in another denom) | 'same' (TF fee in the creation-fee denom) | 'two' (same + other)"""
    def s(I):
        I.set_hint(HINT)
        F = I.sym('creation_fee', hi=U128 // 4)
        pm_config(I, creation_fee=coin_v('uusd', F))
        I.world.store(PM)['pool_count'] = 0
        # an older pool whose reserves are in the fee denoms: the pool manager holds exactly its reserves
        ro = I.sym('old_reserve_om', hi=U128 // 4)
        ru = I.sym('old_reserve_usd', hi=U128 // 4)
        put_pool(I, pool_info('o.old', ['uom', 'uusd'], [6, 6], [ro, ru], xyk(), pool_fee(0, 0, 0)))
        bank_of(I).set(PM, 'uom', ro)
        bank_of(I).set(PM, 'uusd', ru)
        t1 = I.sym('tf1', lo=1, hi=U128 // 4)
        t2 = I.sym('tf2', lo=1, hi=U128 // 4)
        tf = {'none': [], 'other': [coin_v('uom', t1)], 'same': [coin_v('uusd', t1)], 'two': [coin_v('uusd', t1), coin_v('uom', t2)]}[tf_shape]
        I.world.meta['tf_fees'] = tf
        need = {'uusd': F}
        for c in tf:
            need[c.get('denom')] = simp(need.get(c.get('denom'), 0) + c.get('amount'))
        # the caller attaches arbitrary amounts of the relevant denoms plus possibly a foreign coin
        paid = {'uusd': I.sym('paid_usd', hi=U128), 'uom': I.sym('paid_om', hi=U128), 'uatom': I.sym('paid_atom', hi=U128)}
        funds = []
        b = bank_of(I)
        for d in ('uatom', 'uom', 'uusd'):
            if I.fork(paid[d] > 0):
                funds.append(coin_v(d, paid[d]))
                b.set('creator', d, paid[d])
        fees = pool_fee(10 ** 15, 10 ** 15, 0)
        ch = Chain(I, CONTRACTS)
        pre = b.snapshot()
        st, resp = ch.execute('creator', PM, create_msg(['uA', 'uB'], [6, 6], fees, xyk(), None), funds)
        exact = smt.And(*[smt.Eq(paid[d], need.get(d, 0)) for d in ('uusd', 'uom', 'uatom')])
        observe_bank(I, b, [(PM, d) for d in ('uusd', 'uom', 'uatom')] + [('fee_collector', 'uusd'), ('creator', 'uusd'), ('creator', 'uom'), ('creator', 'uatom')])
        if st != 'ok':
            I.cover('rejected', HINT)
            I.observe('status', 'err')
            I.check('exact_payment_accepted', smt.Not(exact))
            return
        I.cover('ok', HINT)
        I.observe('status', 'ok')
        I.check('accepted_only_with_exact_fees', exact)
        I.check('creation_fee_to_fee_collector', smt.Eq(b.get('fee_collector', 'uusd'), pre.get('fee_collector', 'uusd') + F))
        I.check('nothing_kept', smt.And(*[smt.Eq(b.get(PM, d), pre.get(PM, d)) for d in ('uusd', 'uom', 'uatom')]))
        # (C01) the older pool's reserves are still reported in full and still backed
        old = get_pool(I, 'o.old')
        I.check('reserves_of_other_pools_stay_backed',
                old is not None and smt.And(smt.Eq(reserves_of(old)[0], ro), smt.Eq(reserves_of(old)[1], ru), b.get(PM, 'uom') >= ro, b.get(PM, 'uusd') >= ru))
        ms = I.world.store(PM).get('pools')
        pools = [v for _, v in ms.entries if v.get('pool_identifier') != 'o.old'] if ms is not None else []
        I.check('exactly_one_pool_stored', len(pools) == 1)
        p = pools[0] if len(pools) == 1 else None
        if p is not None:
            I.check('zero_reserves', smt.And(*[smt.Eq(r, 0) for r in reserves_of(p)]))
            stt = p.get('status')
            I.check('all_switches_on', stt.get('swaps_enabled') is True and stt.get('deposits_enabled') is True and stt.get('withdrawals_enabled') is True)
            # the LP denom is a token-factory denom of the pool manager created by this very message (its exact spelling is an implementation choice)
            I.check('lp_denom_is_the_denom_created_now', p.get('lp_denom') in I.world.meta.get('tf_denoms', []) and p.get('lp_denom').startswith('factory/pool_manager/'))
    return s


for _sh in ('none', 'other', 'same', 'two'):
    obligation('C16', 'S1.create_pool_fees_tf_%s' % _sh,
               entries=['execute', 'create_pool', 'validate_fees_are_paid', 'get_paid_fee_amount', 'validate_no_additional_funds_sent_with_pool_creation',
                        'validate_pool_identifier', 'PoolFee::is_valid', 'is_factory_token'], kind='S',
               statement='pool creation succeeds iff the attached funds equal exactly the pool creation fee plus the token-factory fees (aggregated per denom, '
                         'nothing else attached); the creation fee goes to the fee collector, the token-factory fee is consumed, nothing is kept; '
                         'the pool starts with zero reserves, all switches on, LP denom derived from the identifier',
               bounds='creation fee and token-factory fees symbolic (TF fee shape: %s); funds: arbitrary amounts of uusd/uom plus optional foreign coin' % _sh,
               covers=['ok', 'rejected'], replay=_replay_create_fees(_sh))(_ob_create_fees(_sh))


def _ob_create_params(I):
    pm_config(I, creation_fee=coin_v('uusd', 1000))
    I.world.store(PM)['pool_count'] = 4
    I.world.meta['tf_fees'] = []
    put_pool(I, pool_info('o.taken', ['uX', 'uY'], [6, 6], [0, 0], xyk(), pool_fee(0, 0, 0)))
    b = bank_of(I)
    b.set('creator', 'uusd', 1000)
    kind = I.choose(2, 'type')
    n = 2 + I.choose(4, 'n')            # 2..5 assets
    dup = I.choose(2, 'dup') == 1
    declen = [n, n + 1][I.choose(2, 'declen')]
    denoms = ['uA', 'uB', 'uC', 'uD', 'uE'][:n]
    if dup and n >= 2:
        denoms[-1] = denoms[0]
    p = I.sym('protocol_fee', hi=U128)
    sfee = I.sym('swap_fee', hi=U128)
    bu = I.sym('burn_fee', hi=U128)
    nex = I.choose(3, 'extra_fees')          # 0, 1 or 2 extra fees: each below 100%, and they count towards the 20% total
    ex = [I.sym('extra_fee%d' % k, hi=U128) for k in range(nex)]
    fees = pool_fee(p, sfee, bu, ex)
    amp = I.sym('amp', hi=U64)
    ptype = xyk() if kind == 0 else stable(amp)
    ik = I.choose(4, 'ident')
    ident = [None, 'mine', 'taken', 'bad id!'][ik]
    ch = Chain(I, CONTRACTS)
    st, resp = ch.execute('creator', PM, create_msg(denoms, [6] * declen, fees, ptype, ident), [coin_v('uusd', 1000)])
    fees_ok = smt.And(p < E18, sfee < E18, bu < E18, *([e < E18 for e in ex] + [p + sfee + bu + sum(ex) <= 2 * 10 ** 17]))
    count_ok = (n == 2) if kind == 0 else (2 <= n <= 4)
    valid = smt.And(fees_ok, count_ok, not dup, declen == n, ik in (0, 1), True if kind == 0 else amp > 0)
    if st != 'ok':
        I.cover('rejected', HINT)
        I.check('valid_request_accepted', smt.Not(valid))
        return
    I.cover('ok', HINT)
    I.check('accepted_only_valid', valid)
    ms = I.world.store(PM).get('pools')
    fresh = [v for _, v in ms.entries if v.get('pool_identifier') != 'o.taken']
    I.check('exactly_one_pool_created', len(fresh) == 1)
    if len(fresh) == 1:
        I.check('new_pool_has_its_own_lp_denom', fresh[0].get('lp_denom') != get_pool(I, 'o.taken').get('lp_denom'))
    I.check('existing_pool_untouched', get_pool(I, 'o.taken').get('asset_denoms').e == ['uX', 'uY'])


def _replay_create_params(label, m):
    """native: the same CreatePool message (exact fee attached, no token-factory fee); accept/reject compared with the validity rule"""
    ch = m['_choices']
    kind, n = ch.get('type', 0), 2 + ch.get('n', 0)
    dup = ch.get('dup', 0) == 1
    declen = [n, n + 1][ch.get('declen', 0)]
    denoms = ['uA', 'uB', 'uC', 'uD', 'uE'][:n]
    if dup:
        denoms[-1] = denoms[0]
    ik = ch.get('ident', 0)
    ident = [None, 'mine', 'taken', 'bad id!'][ik]
    p, sfee, bu, amp = m['protocol_fee'], m['swap_fee'], m['burn_fee'], m.get('amp', 0)
    ex = [m.get('extra_fee%d' % k, 0) for k in range(ch.get('extra_fees', 0))]
    steps = [{'op': 'set_pool', 'pool': pool_json('o.taken', ['uX', 'uY'], [6, 6], [0, 0], 'constant_product', (0, 0, 0, []))}]
    steps += _mints([('creator', [('uusd', 1000)])])
    steps.append({'op': 'execute', 'contract': 'pool_manager', 'sender': 'creator', 'funds': [coin_j('uusd', 1000)],
                  'msg': {'create_pool': {'asset_denoms': denoms, 'asset_decimals': [6] * declen,
                                          'pool_fees': {'protocol_fee': {'share': dec_j(p)}, 'swap_fee': {'share': dec_j(sfee)}, 'burn_fee': {'share': dec_j(bu)},
                                                        'extra_fees': [{'share': dec_j(e)} for e in ex]},
                                          'pool_type': 'constant_product' if kind == 0 else {'stable_swap': {'amp': amp}}, 'pool_identifier': ident}}})
    sc = {'setup': {'pool': {'pool_creation_fee': {'denom': 'uusd', 'amount': '1000'}}}, 'tf_fees': [], 'steps': steps}
    fees_ok = p < E18 and sfee < E18 and bu < E18 and all(e < E18 for e in ex) and p + sfee + bu + sum(ex) <= 2 * 10 ** 17
    count_ok = (n == 2) if kind == 0 else (2 <= n <= 4)
    valid = fees_ok and count_ok and (not dup) and declen == n and ik in (0, 1) and (kind == 0 or amp > 0)

    def judge(out):
        tx = out['results'][len(steps) - 1]
        what = '%s pool with assets %s, %d decimals, fees %s/%s/%s + extra %s, amp %s, identifier %r' % (
            'constant-product' if kind == 0 else 'stableswap', denoms, declen, dec_j(p), dec_j(sfee), dec_j(bu), [dec_j(e) for e in ex], amp, ident)
        if 'ok' in tx and not valid:
            return True, 'invalid pool accepted: ' + what
        if 'ok' not in tx and valid:
            return True, 'valid pool refused: %s: %s' % (what, json.dumps(tx)[-200:])
        return False, 'native run agrees'
    return sc, judge


obligation('C16', 'S2.create_pool_parameters', entries=['execute', 'create_pool', 'PoolFee::is_valid', 'validate_pool_identifier'], kind='S',
           statement='a pool is created iff: 2 assets (constant product) or 2-4 distinct assets with amp > 0 (stableswap), decimals list of the same length, '
                     'each fee < 100% and total <= 20%, well-formed identifier not already in use; explicit ids get the o. prefix, generated ones p.<counter>',
           bounds='asset count 2..5, duplicate or not, decimals length n or n+1, fee shares symbolic incl. 0-2 extra fees, amp symbolic, identifier none/fresh/taken/malformed',
           covers=['ok', 'rejected'], replay=_replay_create_params)(_ob_create_params)


def immutable_view(p):
    return (list(p.get('asset_denoms').e), list(p.get('asset_decimals').e), p.get('lp_denom'), p.get('pool_identifier'),
            [c.get('denom') for c in p.get('assets').e], repr(p.get('pool_type')), p.get('pool_fees'))


def _replay_reorder(m):
    pool = pool_json('p1', ['uB', 'uA'], [6, 6], [m['reserve_y'], m['reserve_x']], 'constant_product', _fees_of(m))
    steps = [{'op': 'set_pool', 'pool': pool}]
    steps += _mints([('pool_manager', [('uA', m['reserve_x']), ('uB', m['reserve_y']), (LP, MINLIQ)]),
                     ('sink', [(LP, m['lp_supply'] - MINLIQ)]),
                     ('lp1', [('uA', m['deposit_a']), ('uB', m['deposit_b'])])])
    steps.append({'op': 'execute', 'contract': 'pool_manager', 'sender': 'lp1',
                  'funds': [coin_j('uA', m['deposit_a']), coin_j('uB', m['deposit_b'])],
                  'msg': {'provide_liquidity': {'pool_identifier': 'p1', 'liquidity_max_slippage': dec_j(m['tolerance'])}}})
    return {'setup': {}, 'steps': steps}, len(steps) - 1


@obligation('C16', 'S3.deposit_keeps_pool_parameters', entries=['execute', 'provide_liquidity', 'assert_slippage_tolerance'], kind='S',
            statement='a deposit (with or without slippage tolerance) changes only reserve amounts: asset order, denoms, decimals, type, fees, LP denom and '
                      'identifier are unchanged and assets[i].denom == asset_denoms[i] still holds',
            bounds='constant-product pool whose creation order is not alphabetical (uB, uA); deposit with tolerance Some(t) or None; amounts symbolic below 2^100',
            covers=['ok'], replay=generic_replay(lambda m: _replay_reorder(m)))
def s3(I):
    I.set_hint(HINT)
    x = I.sym('reserve_x', lo=1, hi=1 << 100)
    y = I.sym('reserve_y', lo=1, hi=1 << 100)
    S = I.sym('lp_supply', lo=MINLIQ, hi=1 << 100)
    fees, _ = sym_fees(I, 0)
    pool = pool_info('p1', ['uB', 'uA'], [6, 6], [y, x], xyk(), fees)
    pm_config(I)
    put_pool(I, pool)
    b = bank_of(I)
    b.set(PM, 'uA', x)
    b.set(PM, 'uB', y)
    b.supply[LP] = S
    b.set(PM, LP, MINLIQ)
    a = I.sym('deposit_a', lo=1, hi=1 << 100)
    bb = I.sym('deposit_b', lo=1, hi=1 << 100)
    b.set('lp1', 'uA', a)
    b.set('lp1', 'uB', bb)
    with_tol = I.choose(2, 'tol') == 1
    tol = Some(I.sym('tolerance', hi=E18)) if with_tol else None
    before = immutable_view(get_pool(I, 'p1'))
    ch = Chain(I, CONTRACTS)
    st, resp = ch.execute('lp1', PM, provide_msg('p1', liq_slip=tol), [coin_v('uA', a), coin_v('uB', bb)])
    if st != 'ok':
        I.outcome('rejected')
        return
    I.cover('ok', HINT)
    I.observe('status', 'ok')
    p = get_pool(I, 'p1')
    observe_pool(I, 'p1')       # includes the stored asset order
    after = immutable_view(p)
    I.check('asset_order_and_parameters_unchanged', before[:6] == after[:6] and I.values_eq(before[6], after[6]) is True)
    I.check('assets_aligned_with_denoms', [c.get('denom') for c in p.get('assets').e] == list(p.get('asset_denoms').e))


# ---------------------------------------------------------------- immutability under withdrawals (the obligation of C02, shared)
from . import c02 as _c02m   # noqa: E402
share('C02', 'C16', 'W', lambda n: n == 'S3.withdraw')

from . import stable3   # noqa: E402,F401  (three-asset stableswap accounting obligations registered for this property)
