"""C06 — rewards paid never exceed what a farm has emitted (uses the claim scenarios of c07)."""
import z3

from .. import smt
from ..smt import simp
from ..values import *
from .common import *
from .fm import *
from .c07 import Scn, HINT, E, carry, replay_scn, observe_claim_state, _ob_l3


def _ob_two_users(alice_second, bob_from, until_a):
    def s(I):
        sc = Scn(I, alice_second=alice_second, bob_from=bob_from)
        b = sc.b
        f0 = sc.farms[0]
        I.assume(smt.Eq(f0['claimed0'], 0))
        pre = b.snapshot()
        st_a, _ = sc.claim('alice', until_a)
        st_b, _ = sc.claim('bob', None)
        st_a2, _ = sc.claim('alice', None)
        I.observe('status', 'ok' if st_a2 == 'ok' else 'err')
        observe_claim_state(I, sc)
        I.cover('done', HINT)
        # nobody else has claimed (claimed0 = 0): every rightful claim must go through, in any order
        I.check('first_claim_succeeds', st_a == 'ok')
        I.check('claim_of_other_user_succeeds_afterwards', st_b == 'ok')
        I.check('later_claim_of_first_user_succeeds', st_a2 == 'ok')
        paid_a = simp(b.get('alice', 'uusd') - pre.get('alice', 'uusd'))
        paid_b = simp(b.get('bob', 'uusd') - pre.get('bob', 'uusd'))
        n_epochs = min(E, f0['end'] - 1) - f0['start'] + 1
        I.check('total_paid_within_emission_of_elapsed_epochs', paid_a + paid_b <= f0['rate'] * n_epochs)
        exp_a, _ = sc.expected('alice', E)
        exp_b, _ = sc.expected('bob', E)
        I.check('each_user_paid_exactly_their_epoch_shares', smt.And(smt.Eq(paid_a, exp_a), smt.Eq(paid_b, exp_b)))
        f = get_farm(I, 'f-1')
        if f is not None:
            I.check('claimed_never_exceeds_budget', f.get('claimed_amount') <= f0['funded'])
            I.check('claimed_equals_paid', smt.Eq(f.get('claimed_amount'), paid_a + paid_b))
    return s


for _sec, _bf, _ua in ((None, 6, None), (8, 6, 7), (None, 9, 4), (8, 3, 5)):
    obligation('C06', 'B1.two_users_claim_in_turn_snap%s_bobfrom%s_until%s' % (_sec, _bf, _ua),
               entries=['execute', 'claim', 'calculate_rewards', 'sync_address_lp_weight_history'], kind='B',
               statement='two users and an aggregated remainder share one farm; A claims (optionally bounded by until_epoch), B claims, A claims again: all succeed, '
                         'each is paid exactly the sum of their epoch shares (nothing before their weight took effect), the total stays within emission x elapsed epochs, '
                         'claimed_amount = total paid <= budget',
               bounds='current epoch 10, farm [4,12), A from epoch 3%s, B from epoch %s, A\'s first claim until %s; weights/rate symbolic'
                      % ('' if _sec is None else ' and %s' % _sec, _bf, _ua),
               covers=['done'],
               replay=replay_scn(_sec, None, bob_from=_bf, actions=[('alice', _ua), ('bob', None), ('alice', None)]))(_ob_two_users(_sec, _bf, _ua))
