"""C06 — rewards paid never exceed what a farm has emitted (uses the claim scenarios of c07)."""
import z3

from .. import smt
from ..smt import simp
from ..values import *
from .common import *
from .fm import *
from .c07 import Scn, HINT, E, carry, replay_scn, observe_claim_state, _ob_l3


def _ob_two_users(alice_second, bob_from, until_a, farms=((4, 12),)):
    def s(I):
        sc = Scn(I, alice_second=alice_second, bob_from=bob_from, farms=farms)
        b = sc.b
        f0 = sc.farms[0]
        for fx in sc.farms:
            I.assume(smt.Eq(fx['claimed0'], 0))
        pre = b.snapshot()
        st_a, _ = sc.claim('alice', until_a)
        st_b, _ = sc.claim('bob', None)
        st_a2, _ = sc.claim('alice', None)
        I.observe('status', 'ok' if st_a2 == 'ok' else 'err')
        observe_claim_state(I, sc)
        I.cover('done', HINT)
        # nobody else has claimed (claimed0 = 0): every rightful claim must go through, in any order
        I.check('first_claim_succeeds', st_a == 'ok')
        I.check('claim_of_other_user_succeeds_afterwards', st_b == 'ok')
        I.check('later_claim_of_first_user_succeeds', st_a2 == 'ok')
        paid_a = simp(b.get('alice', 'uusd') - pre.get('alice', 'uusd'))
        paid_b = simp(b.get('bob', 'uusd') - pre.get('bob', 'uusd'))
        emitted = sum(fx['rate'] * (min(E, fx['end'] - 1) - fx['start'] + 1) for fx in sc.farms)
        I.check('total_paid_within_emission_of_elapsed_epochs', paid_a + paid_b <= emitted)
        exp_a, _ = sc.expected('alice', E)
        exp_b, _ = sc.expected('bob', E)
        I.check('each_user_paid_exactly_their_epoch_shares', smt.And(smt.Eq(paid_a, exp_a), smt.Eq(paid_b, exp_b)))
        booked = 0
        for fx in sc.farms:
            f = get_farm(I, fx['id'])
            if f is not None:
                I.check('claimed_never_exceeds_budget', f.get('claimed_amount') <= fx['funded'])
                booked = simp(booked + f.get('claimed_amount'))
        I.check('claimed_equals_paid', smt.Eq(booked, paid_a + paid_b))
    return s


for _sec, _bf, _ua in ((None, 6, None), (8, 6, 7), (None, 9, 4), (8, 3, 5)):
    obligation('C06', 'B1.two_users_claim_in_turn_snap%s_bobfrom%s_until%s' % (_sec, _bf, _ua),
               entries=['execute', 'claim', 'calculate_rewards', 'sync_address_lp_weight_history'], kind='B',
               statement='two users and an aggregated remainder share one farm; A claims (optionally bounded by until_epoch), B claims, A claims again: all succeed, '
                         'each is paid exactly the sum of their epoch shares (nothing before their weight took effect), the total stays within emission x elapsed epochs, '
                         'claimed_amount = total paid <= budget',
               bounds='current epoch 10, farm [4,12), A from epoch 3%s, B from epoch %s, A\'s first claim until %s; weights/rate symbolic'
                      % ('' if _sec is None else ' and %s' % _sec, _bf, _ua),
               covers=['done'],
               replay=replay_scn(_sec, None, bob_from=_bf, actions=[('alice', _ua), ('bob', None), ('alice', None)]))(_ob_two_users(_sec, _bf, _ua))


for _sec, _bf, _ua in ((None, 6, None), (None, 9, 4)):
    obligation('C06', 'B1.two_users_two_farms_same_denom_snap%s_bobfrom%s_until%s' % (_sec, _bf, _ua),
               entries=['execute', 'claim', 'calculate_rewards', 'sync_address_lp_weight_history'], kind='B',
               statement='as B1 with TWO farms on the LP token paying the same reward denom: every rightful claim succeeds in any order, each user is paid the sum of '
                         'their epoch shares over both farms, each farm books at most its budget and together exactly what was paid',
               bounds='current epoch 10, farms [4,12) and [2,9) paying the same denom; weights / rates symbolic', covers=['done'],
               replay=replay_scn(_sec, None, farms=((4, 12), (2, 9)), bob_from=_bf, actions=[('alice', _ua), ('bob', None), ('alice', None)]))(
        _ob_two_users(_sec, _bf, _ua, farms=((4, 12), (2, 9))))


def _ob_cursor_gap(until_a):
    def s(I):
        # alice's claim cursor (epoch 5) is older than her first weight on this LP token (epoch 8): she claimed while holding only another LP token
        sc = Scn(I, alice_second=None, bob_from=3, last_a=5, alice_from=8, cursor_gap=True)
        b = sc.b
        f0 = sc.farms[0]
        I.assume(smt.Eq(f0['claimed0'], 0))
        pre = b.snapshot()
        st_a, _ = sc.claim('alice', until_a)
        st_b, _ = sc.claim('bob', None)
        st_a2, _ = sc.claim('alice', None)
        I.observe('status', 'ok' if st_a2 == 'ok' else 'err')
        observe_claim_state(I, sc)
        I.cover('done', HINT)
        I.check('first_claim_succeeds', st_a == 'ok')
        I.check('claim_of_other_user_succeeds_afterwards', st_b == 'ok')
        I.check('later_claim_of_first_user_succeeds', st_a2 == 'ok')
        paid_a = simp(b.get('alice', 'uusd') - pre.get('alice', 'uusd'))
        paid_b = simp(b.get('bob', 'uusd') - pre.get('bob', 'uusd'))
        exp_a, _ = sc.expected('alice', E)
        exp_b, _ = sc.expected('bob', E)
        I.check('nothing_paid_before_the_weight_took_effect', smt.Eq(paid_a, exp_a))
        I.check('other_user_paid_exactly_their_epoch_shares', smt.Eq(paid_b, exp_b))
        I.check('total_paid_within_emission_of_elapsed_epochs', paid_a + paid_b <= f0['rate'] * (min(E, f0['end'] - 1) - f0['start'] + 1))
    return s


for _ua in (None, 9):
    obligation('C06', 'B1.cursor_older_than_first_weight_until%s' % _ua, entries=['execute', 'claim', 'calculate_rewards', 'compute_address_weights'], kind='B',
               statement='a user whose claim cursor (from a claim made while holding another LP token only) is older than their first weight on this LP token is paid '
                         'nothing for the epochs in between; the other user is paid their exact shares and every claim succeeds',
               bounds='current epoch 10, farm [4,12), A: cursor 5, first weight at epoch 8, B from epoch 3; A\'s first claim until %s; weights / rate symbolic' % _ua,
               covers=['done'],
               replay=replay_scn(None, 5, bob_from=3, alice_from=8, cursor_gap=True, actions=[('alice', _ua), ('bob', None), ('alice', None)]))(_ob_cursor_gap(_ua))


def _ob_until_below_cursor(until_a, farms):
    def s(I):
        # alice has claimed up to epoch 5; she now states an until_epoch BELOW that cursor (no farm has started by then): refused, nothing is re-paid later
        sc = Scn(I, alice_second=None, bob_from=3, last_a=5, farms=farms)
        b = sc.b
        for fx in sc.farms:
            I.assume(smt.Eq(fx['claimed0'], 0))
        pre = b.snapshot()
        st0, _ = sc.claim('alice', until_a)
        st1, _ = sc.claim('alice', None)
        st_b, _ = sc.claim('bob', None)
        I.observe('status', 'ok' if st_b == 'ok' else 'err')
        observe_claim_state(I, sc)
        I.cover('done', HINT)
        I.check('until_epoch_below_the_cursor_refused', st0 != 'ok')
        I.check('later_claims_succeed', st1 == 'ok' and st_b == 'ok')
        paid_a = simp(b.get('alice', 'uusd') - pre.get('alice', 'uusd'))
        paid_b = simp(b.get('bob', 'uusd') - pre.get('bob', 'uusd'))
        exp_a, _ = sc.expected('alice', E)
        exp_b, _ = sc.expected('bob', E)
        I.check('no_epoch_paid_twice', smt.Eq(paid_a, exp_a))
        I.check('other_user_paid_exactly_their_epoch_shares', smt.Eq(paid_b, exp_b))
    return s


for _ua, _farms in ((3, ((4, 12),)), (2, ((4, 12), (6, 9)))):
    obligation('C06', 'B1.until_below_cursor_before_farm_start_until%d_%dfarms' % (_ua, len(_farms)),
               entries=['execute', 'claim', 'calculate_rewards', 'compute_start_from_epoch_for_address'], kind='B',
               statement='a claim whose until_epoch lies below the user\'s claim cursor (and before any farm on the LP token has started) is refused; the following claims pay every '
                         'epoch once: the user from the cursor on, the other user in full',
               bounds='current epoch 10, farms %s, A: cursor 5, B from epoch 3; A states until_epoch %d; weights / rates symbolic' % (_farms, _ua), covers=['done'],
               replay=replay_scn(None, 5, farms=_farms, bob_from=3, actions=[('alice', _ua), ('alice', None), ('bob', None)]))(_ob_until_below_cursor(_ua, _farms))


def _ob_emergency_then_claims(I):
    """carol emergency-withdraws a CLOSED (still locked) position at epoch 10; in epoch 11 alice and bob claim"""
    sc = Scn(I, alice_second=None, bob_from=6)
    b = sc.b
    f0 = sc.farms[0]
    I.assume(smt.Eq(f0['claimed0'], 0))
    pc = I.sym('pos_c', lo=1, hi=U128 // 64)
    put_position(I, position('u-c', LP1, pc, 30 * DAY, 'carol', 25 * DAY))      # closed at some point, unlocks at day 25 > now (day 10)
    b.set(FM, LP1, simp(b.get(FM, LP1) + pc + 10 ** 30))
    pre = b.snapshot()
    st_c, _ = sc.chain.execute('carol', FM, manage_position('Withdraw', identifier='u-c', emergency_unlock=Some(True)), [])
    # next epoch
    set_epoch(I, E + 1, now_s=(E + 1) * DAY + 5)
    sc.chain.time_nanos = I.world.meta['time_nanos']
    st_a, _ = sc.claim('alice', None)
    st_b, _ = sc.claim('bob', None)
    I.observe('status', 'ok' if st_b == 'ok' else 'err')
    observe_claim_state(I, sc)
    I.cover('done', HINT)
    if st_c != 'ok':
        I.outcome('emergency_exit_refused')
        return
    I.check('claims_of_the_remaining_users_succeed', st_a == 'ok' and st_b == 'ok')
    paid_a = simp(b.get('alice', 'uusd') - pre.get('alice', 'uusd'))
    paid_b = simp(b.get('bob', 'uusd') - pre.get('bob', 'uusd'))
    n_epochs = min(E + 1, f0['end'] - 1) - f0['start'] + 1
    I.check('total_paid_within_emission_of_elapsed_epochs', paid_a + paid_b <= f0['rate'] * n_epochs)
    # per-epoch: the two shares of the newest epoch never exceed its emission
    exp_a, _ = sc.expected('alice', E + 1)
    exp_b, _ = sc.expected('bob', E + 1)
    I.check('each_user_paid_exactly_their_epoch_shares', smt.And(smt.Eq(paid_a, exp_a), smt.Eq(paid_b, exp_b)))


def _replay_emergency_then_claims():
    from .pm import generic_replay

    def build(m):
        a_snaps = [(3, m['wa'])]
        b_snaps = [(6, m['wb'])]
        t_snaps = [(e, m['others'] + carry(a_snaps, e) + carry(b_snaps, e)) for e in (3, 6)]
        weights = [('alice', LP1, e, w) for e, w in a_snaps] + [('bob', LP1, e, w) for e, w in b_snaps] + [('farm_manager', LP1, e, w) for e, w in t_snaps]
        rate = m['rate']
        steps = fm_state_steps(None, positions=[('u-a', LP1, m['pos_a'], DAY, 'alice', None), ('u-b', LP1, m['pos_b'], DAY, 'bob', None),
                                                ('u-c', LP1, m['pos_c'], 30 * DAY, 'carol', 25 * DAY)],
                               farms=[('f-1', 'fowner', LP1, 'uusd', rate * 8, 0, rate, 4, 12)], weights=weights, now_s=E * DAY + 5,
                               mints=[('farm_manager', [('uusd', m['fm_reward_balance']), (LP1, m['pos_a'] + m['pos_b'] + m['pos_c'] + 10 ** 30)])])
        steps.append({'op': 'execute', 'contract': 'farm_manager', 'sender': 'carol', 'funds': [],
                      'msg': {'manage_position': {'action': {'withdraw': {'identifier': 'u-c', 'emergency_unlock': True}}}}})
        steps.append({'op': 'set_time', 'nanos': str(((E + 1) * DAY + 5) * NS)})
        for u in ('alice', 'bob'):
            steps.append({'op': 'execute', 'contract': 'farm_manager', 'sender': u, 'funds': [], 'msg': {'claim': {'until_epoch': None}}})
        sc = {'setup': {'time_nanos': '0', 'epoch': {'genesis': '0', 'duration': str(DAY)}, 'farm': {'max_concurrent_farms': 2}}, 'steps': steps}
        return sc, len(steps) - 1
    return generic_replay(build)


TWO_PIECE_FILLS = [(3, 3, 31 * DAY), (50, 50, 2629746), (1, 1, 200 * DAY)]


def _ob_two_piece_close_then_claims(I):
    """alice's position was filled in two pieces (recorded weight = weight(p1) + weight(pa - p1), possibly one unit below weight(pa)); she claims, closes it in
    full at epoch 10; in epoch 11 bob claims: he is paid his exact shares -- the total weight still covers the remaining users"""
    sc = Scn(I, alice_second=None, bob_from=6)
    b = sc.b
    f0 = sc.farms[0]
    I.assume(smt.Eq(f0['claimed0'], 0))
    pa = I.inputs['pos_a']
    wa = I.inputs['wa']
    # concrete pieces whose floored weights add up to less than the weight of the whole (the curve is evaluated on concrete values; weights of the
    # other users, the rate and the budgets stay symbolic)
    q1, q2, dur = I.param('two_piece_fill', TWO_PIECE_FILLS)
    I.assume(smt.Eq(pa, q1 + q2))
    ms = I.world.store(FM)['positions']
    for ent in ms.entries:
        if ent[0][0] == 'u-a':
            ent[1] = position('u-a', LP1, q1 + q2, dur, 'alice', None)
    ws = []
    for part in (q1, q2):
        wst, wr = I.try_call('calculate_weight', [Ref([coin_v(LP1, part)], 0), dur], CRF)
        if wst != 'ok' or not is_ok(wr):
            raise Infeasible()
        ws.append(wr.f[0])
    I.assume(smt.Eq(wa, ws[0] + ws[1]))
    pre = b.snapshot()
    st_a, _ = sc.claim('alice', None)
    st_c, _ = sc.chain.execute('alice', FM, manage_position('Close', identifier='u-a', lp_asset=NONE()), [])
    set_epoch(I, E + 1, now_s=(E + 1) * DAY + 5)
    sc.chain.time_nanos = I.world.meta['time_nanos']
    st_b, _ = sc.claim('bob', None)
    I.observe('status', 'ok' if st_b == 'ok' else 'err')
    observe_claim_state(I, sc, users=('bob',))
    I.cover('done', HINT)
    if st_a != 'ok' or st_c != 'ok':
        I.outcome('claim_or_close_refused')
        return
    I.check('claim_of_the_remaining_user_succeeds', st_b == 'ok')
    paid_b = simp(b.get('bob', 'uusd') - pre.get('bob', 'uusd'))
    exp_b, _ = sc.expected('bob', E)
    e11 = I.ctx.fdiv(simp(f0['rate'] * I.inputs['wb']), simp(I.inputs['others'] + I.inputs['wb']))
    I.check('remaining_user_paid_exactly_their_epoch_shares', smt.Eq(paid_b, exp_b + e11))


def _replay_two_piece_close_then_claims():
    from .pm import generic_replay

    def build(m):
        a_snaps = [(3, m['wa'])]
        b_snaps = [(6, m['wb'])]
        t_snaps = [(e, m['others'] + carry(a_snaps, e) + carry(b_snaps, e)) for e in (3, 6)]
        weights = [('alice', LP1, e, w) for e, w in a_snaps] + [('bob', LP1, e, w) for e, w in b_snaps] + [('farm_manager', LP1, e, w) for e, w in t_snaps]
        rate = m['rate']
        q1, q2, dur = TWO_PIECE_FILLS[m.get('_choices', {}).get('param:two_piece_fill', 0)]
        steps = fm_state_steps(None, positions=[('u-a', LP1, q1 + q2, dur, 'alice', None), ('u-b', LP1, m['pos_b'], DAY, 'bob', None)],
                               farms=[('f-1', 'fowner', LP1, 'uusd', rate * 8, 0, rate, 4, 12)], weights=weights, now_s=E * DAY + 5,
                               mints=[('farm_manager', [('uusd', m['fm_reward_balance']), (LP1, q1 + q2 + m['pos_b'])])])
        steps.append({'op': 'execute', 'contract': 'farm_manager', 'sender': 'alice', 'funds': [], 'msg': {'claim': {'until_epoch': None}}})
        steps.append({'op': 'execute', 'contract': 'farm_manager', 'sender': 'alice', 'funds': [],
                      'msg': {'manage_position': {'action': {'close': {'identifier': 'u-a', 'lp_asset': None}}}}})
        steps.append({'op': 'set_time', 'nanos': str(((E + 1) * DAY + 5) * NS)})
        steps.append({'op': 'execute', 'contract': 'farm_manager', 'sender': 'bob', 'funds': [], 'msg': {'claim': {'until_epoch': None}}})
        sc = {'setup': {'time_nanos': '0', 'epoch': {'genesis': '0', 'duration': str(DAY)}, 'farm': {'max_concurrent_farms': 2}}, 'steps': steps}
        return sc, len(steps) - 1
    return generic_replay(build)


obligation('C06', 'B2.two_piece_position_closed_then_claims', entries=['execute', 'claim', 'close_position', 'update_weights', 'calculate_rewards'],
           kind='B', statement='a user whose position was filled in two pieces claims and closes it in full; in the next epoch the remaining user claims: paid exactly the epoch '
                               'shares computed with the remaining weights -- never more than the emission',
           bounds='current epoch 10 then 11, farm [4,12), position filled in two concrete pieces (3+3 at 31 days, 50+50 at one month, 1+1 at 200 days), other weights / rate symbolic', covers=['done'],
           replay=_replay_two_piece_close_then_claims())(_ob_two_piece_close_then_claims)


obligation('C06', 'B2.emergency_exit_of_closed_position_then_claims', entries=['execute', 'withdraw_position', 'update_weights', 'claim', 'calculate_rewards'],
           kind='B', statement='a third user emergency-withdraws a closed, still locked position; in the next epoch the two remaining users claim: both succeed, '
                               'each gets exactly their epoch shares and together never more than the emission',
           bounds='current epoch 10 then 11, farm [4,12), two users + aggregated remainder, symbolic weights / rate / amounts', covers=['done'],
           replay=_replay_emergency_then_claims())(_ob_emergency_then_claims)
