"""C11 — farm lifecycle conserves funds, respects owners and limits."""
import json
import z3

from .. import smt
from ..smt import simp
from ..values import *
from ..chain import Chain, bank_of
from .common import *
from .fm import *

HINT = {'reward': 10 ** 6, 'fee': 1000, 'paid_fee': 1000, 'paid_reward': 10 ** 6, 'junk': 5, 'now_s': 20 * DAY + 5, 'epoch': 20, 'start': 21, 'end': 31,
        'cfg_epoch_buffer': 14, 'f1_funded': 10 ** 6, 'f1_claimed': 0, 'f2_funded': 10 ** 6, 'f2_claimed': 10 ** 6, 'expand': 5 * 10 ** 5, 'rate': 10 ** 5, 'cur_end': 30,
        'cur_start': 10, 'funded': 2 * 10 ** 6, 'claimed': 10 ** 5, 'sender_bal': 10 ** 7}


def _world(I):
    now = I.sym('now_s', hi=U64 // NS - 2 * YEAR)
    ep = I.sym('epoch', lo=1, hi=10 ** 9)
    set_epoch(I, ep, now_s=now)
    set_ownership(I, FM, 'creator')
    I.world.store(FM)['farm_counter'] = 3
    return now, ep, bank_of(I)


def _replay_create(same_denom, shape):
    from .pm import generic_replay, coin_j, rj

    def build(m):
        fee_denom = 'uusd' if same_denom else 'uom'
        fee, reward = m['fee'], m['reward']
        funds = []
        if same_denom:
            total = reward + fee + (m.get('junk', 0) if shape == 'overpay_fee' else 0)
            funds = [coin_j('uusd', total)]
            if shape == 'extra_coin':
                funds.append(coin_j('uatom', m['junk']))
        else:
            paid_fee = m.get('paid_fee', fee) if shape == 'overpay_fee' else fee
            if shape != 'reward_only':
                funds.append(coin_j('uom', paid_fee))
            funds.append(coin_j('uusd', reward))
            if shape == 'extra_coin':
                funds.append(coin_j('uatom', m['junk']))
        funds = sorted(funds, key=lambda c: c['denom'])
        steps = [{'op': 'set_time', 'nanos': str(m['now_s'] * NS)},
                 {'op': 'mint', 'to': 'creator', 'funds': funds},
                 {'op': 'execute', 'contract': 'farm_manager', 'sender': 'creator', 'funds': funds,
                  'msg': {'manage_farm': {'action': {'create': {'params': {
                      'lp_denom': rj(LP1), 'start_epoch': m['start'], 'preliminary_end_epoch': m['end'], 'curve': None,
                      'farm_asset': coin_j('uusd', reward), 'farm_identifier': None}}}}}}]
        sc = {'setup': {'time_nanos': '0', 'epoch': {'genesis': '0', 'duration': str(DAY)},
                        'farm': {'create_farm_fee': {'denom': fee_denom, 'amount': str(fee)}, 'max_concurrent_farms': 2, 'max_farm_epoch_buffer': m.get('cfg_epoch_buffer', 14)}},
              'steps': steps}
        return sc, len(steps) - 1
    return generic_replay(build)


def _ob_create(same_denom, shape):
    """shape: which coins are attached: 'exact' (what the property asks for), 'reward_only', 'extra_coin', 'overpay_fee'"""
    def s(I):
        I.set_hint(HINT)
        now, ep, b = _world(I)
        fee = I.sym('fee', hi=U128)
        reward = I.sym('reward', lo=0, hi=U128)
        fee_denom = 'uusd' if same_denom else 'uom'
        buf = I.sym('cfg_epoch_buffer', hi=(1 << 32) - 1)            # max_farm_epoch_buffer: whatever the owner configured
        fm_config(I, fee=coin_v(fee_denom, fee), buffer=buf)
        start = I.sym('start', hi=U64)
        end = I.sym('end', hi=U64)
        funds = []
        paid_fee = fee
        if same_denom:
            total = simp(reward + fee)
            I.assume(total <= U128 - 1000)
            if shape == 'overpay_fee':
                total = simp(total + I.sym('junk', lo=1, hi=1000))
            funds = [coin_v('uusd', total)]
            if shape == 'extra_coin':
                funds.append(coin_v('uatom', I.sym('junk', lo=1, hi=1000)))
        else:
            if shape == 'overpay_fee':
                paid_fee = I.sym('paid_fee', lo=1, hi=U128)
                I.assume(paid_fee > fee)
            if shape != 'reward_only':
                funds.append(coin_v('uom', paid_fee))
            funds.append(coin_v('uusd', reward))
            if shape == 'extra_coin':
                funds.append(coin_v('uatom', I.sym('junk', lo=1, hi=1000)))
        # bank funds: positive amounts only (sdk.Coins)
        for c in funds:
            I.assume(c.get('amount') >= 1)
            b.set('creator', c.get('denom'), c.get('amount'))
        ch = Chain(I, CONTRACTS_FM)
        pre = b.snapshot()
        st, resp = ch.execute('creator', FM, manage_farm('Create', params=farm_params(LP1, coin_v('uusd', reward), start, end)), funds)
        exact = shape == 'exact' or (shape == 'reward_only' and not same_denom)
        if st != 'ok':
            I.outcome('rejected')
            I.cover('rejected', HINT)
            I.observe('status', 'err')
            if shape == 'exact' or (shape == 'reward_only' and not same_denom):
                # exactly reward + fee attached (a zero fee needs no coin): only parameter validation may reject
                valid = smt.And(reward >= 1000, start > ep, start < end, start <= ep + buf, end - start <= reward)
                pays_exactly = True if shape == 'exact' else smt.Eq(fee, 0)
                if shape == 'exact' and not same_denom:
                    pays_exactly = fee >= 1          # a zero-amount coin cannot be attached
                I.check('exact_payment_with_valid_params_accepted', smt.Not(smt.And(valid, pays_exactly)))
            return
        I.cover('ok', HINT)
        I.observe('status', 'ok')
        I.check('only_exact_or_refundable_payments_accepted', shape != 'extra_coin' and not (same_denom and shape == 'overpay_fee'))
        f = get_farm(I, 'f-4')
        I.check('farm_recorded', f is not None)
        if f is None:
            return
        kept_usd = simp(b.get(FM, 'uusd') - pre.get(FM, 'uusd'))
        kept_om = simp(b.get(FM, 'uom') - pre.get(FM, 'uom'))
        kept_atom = simp(b.get(FM, 'uatom') - pre.get(FM, 'uatom'))
        I.observe('bal:farm_manager:uusd', b.get(FM, 'uusd'))
        I.observe('bal:farm_manager:uom', b.get(FM, 'uom'))
        I.observe('bal:farm_manager:uatom', b.get(FM, 'uatom'))
        I.observe('bal:fee_collector:' + fee_denom, b.get(FC, fee_denom))
        I.check('contract_keeps_exactly_the_reward', smt.And(smt.Eq(kept_usd, reward), smt.Eq(kept_om, 0), smt.Eq(kept_atom, 0)))
        I.check('fee_collector_gets_exactly_the_fee', smt.Eq(b.get(FC, fee_denom) - pre.get(FC, fee_denom), fee))
        I.check('budget_is_full_reward', smt.And(smt.Eq(f.get('farm_asset').get('amount'), reward), smt.Eq(f.get('claimed_amount'), 0)))
        I.check('owner_is_sender', f.get('owner') == 'creator')
        I.check('epochs_valid', smt.And(f.get('start_epoch') > ep, f.get('start_epoch') <= ep + buf, f.get('start_epoch') < f.get('preliminary_end_epoch')))
        I.check('emission_is_floor', smt.Eq(f.get('emission_rate'), I.ctx.fdiv(reward, simp(f.get('preliminary_end_epoch') - f.get('start_epoch')))))
        I.check('minimum_reward', reward >= 1000)
    return s


for _same in (True, False):
    for _shape in ('exact', 'reward_only', 'extra_coin', 'overpay_fee'):
        if _same and _shape == 'reward_only':
            continue
        obligation('C11', 'S1.create_farm_%s_%s' % ('samedenom' if _same else 'otherdenom', _shape),
                   entries=['execute', 'create_farm', 'process_farm_creation_fee', 'assert_farm_asset', 'validate_farm_epochs', 'validate_lp_denom',
                            'get_farms_by_lp_denom', 'validate_identifier'], kind='S',
                   statement='create farm (fee amount symbolic incl. 0, fee denom %s the reward denom, funds shape %s): on success the contract keeps exactly the reward, '
                             'the fee collector gets exactly the fee, overpayment is refunded, budget = reward, claimed = 0, emission = floor(reward/(end-start)), '
                             'owner = sender, cur < start <= cur+buffer, start < end; exactly-paid valid requests are accepted'
                             % ('=' if _same else '!=', _shape),
                   bounds='reward, fee full u128 (fee may be 0), epochs u64, no pre-existing farms',
                   covers=['ok'] if _shape in ('exact', 'reward_only') or (_shape == 'overpay_fee' and not _same) else ['rejected'],
                   replay=_replay_create(_same, _shape))(_ob_create(_same, _shape))


def _farm_msg(action, **kw):
    return {'manage_farm': {'action': {action: kw}}}


def _params_json(reward_denom, amount, start=None, end=None, ident=None):
    from .pm import rj, coin_j
    return {'lp_denom': rj(LP1), 'start_epoch': start, 'preliminary_end_epoch': end, 'curve': None,
            'farm_asset': coin_j(reward_denom, amount), 'farm_identifier': ident}


def _replay_s2(m):
    ch = m['_choices']
    ep = m['epoch']
    farms = []
    for k in (1, 2):
        kind = S2_KINDS[ch['k%d' % k]]
        if kind == 'expired':
            start, end = m['f%d_end' % k] - 2, m['f%d_end' % k]
        elif kind == 'ended':
            start, end = m['f%d_end' % k] - 3, m['f%d_end' % k]
        else:
            start, end = ep - 1, ep + 5
        farms.append(('m-old%d' % k, 'owner%d' % k, LP1, 'uusd', m['f%d_funded' % k], m['f%d_claimed' % k], 1, start, end))
    return {'now_s': m['now_s'], 'farms': farms, 'counters': {'farm': 3},
            'mints': [('farm_manager', [('uusd', m['fm_usd'])]), ('creator', [('uusd', m['reward']), ('uom', 1000)])],
            'config': {'create_farm_fee': {'denom': 'uom', 'amount': '1000'}, 'max_concurrent_farms': 2},
            'txs': [('creator', _farm_msg('create', params=_params_json('uusd', m['reward'], ep + 1, ep + 11)), [('uom', 1000), ('uusd', m['reward'])])]}


def _replay_s3(m):
    ch = m['_choices']
    who = ['fowner', 'bob', 'creator'][ch['sender']]      # the contract owner of the native setup is `creator`
    denom = ['uusd', 'uom'][ch['denom']]
    return {'now_s': m['now_s'], 'farms': [('m-x', 'fowner', LP1, 'uusd', m['funded'], m['claimed'], m['rate'], m['cur_start'], m['cur_end'])],
            'mints': [(who, [(denom, m['attached'])])],
            'txs': [(who, _farm_msg('expand', params=_params_json(denom, m['expand'], ident='m-x')), [(denom, m['attached'])])]}


def _replay_s4(m):
    ch = m['_choices']
    who = ['fowner', 'creator', 'bob'][ch['sender']]
    funds = [('uom', 5)] if ch['funds'] == 1 else []
    return {'now_s': m['now_s'], 'farms': [('m-x', 'fowner', LP1, 'uusd', m['funded'], m['claimed'], 1, 5, 50)],
            'mints': [('farm_manager', [('uusd', m['fm_usd'])])] + ([(who, [('uom', 5)])] if funds else []),
            'txs': [(who, _farm_msg('close', farm_identifier='m-x'), funds)]}


S2_KINDS = ['active', 'expired', 'ended']


def _existing_farm(I, ep, now, k, owner, kind):
    funded = I.sym('f%d_funded' % k, lo=1, hi=U128)
    claimed = I.sym('f%d_claimed' % k, hi=U128)
    I.assume(claimed <= funded)
    EXP = 2629746          # farm_expiration_time of the world (the minimum the contract accepts: one month)
    if kind == 'expired':
        # ended, and the expiration time after the start of the epoch FOLLOWING its end epoch has passed (any such end epoch, boundary included)
        end = I.sym('f%d_end' % k, lo=3, hi=10 ** 9)
        I.assume(smt.And(end <= ep, (end + 1) * DAY + EXP < now))
        start = simp(end - 2)
    elif kind == 'ended':
        # past its end epoch but still inside the expiration window (any such end epoch, up to the last second of the window), budget left:
        # NOT expired -- kept, not refunded, counts against the limit
        I.assume(claimed < funded)
        end = I.sym('f%d_end' % k, lo=4, hi=10 ** 9)
        I.assume(smt.And(end <= ep, (end + 1) * DAY + EXP >= now))
        start = simp(end - 3)
    else:
        I.assume(claimed < funded)
        start, end = simp(ep - 1) if kind == 'active' else simp(ep + 1), simp(ep + 5)
    f = farm('m-old%d' % k, owner, LP1, 'uusd', funded, claimed, 1, start, end)
    put_farm(I, f)
    return funded, claimed


@obligation('C11', 'S2.create_closes_expired_and_respects_limit', entries=['execute', 'create_farm', 'is_farm_expired', 'close_farms', 'reply'], kind='S',
            statement='creating a farm when the LP token already has farms: expired ones are closed and refunded funded-claimed to THEIR owners; '
                      'afterwards the LP token has at most max_concurrent_farms unexpired farms (creation refused otherwise)',
            bounds='2 existing farms, each active / expired / ended but not yet expired (symbolic budgets), max_concurrent_farms = 2', covers=['ok', 'too_many'],
            replay=fm_replay(lambda m: _replay_s2(m)))
def s2(I):
    I.set_hint(dict(HINT, epoch=100, now_s=100 * DAY + 5, start=101, end=111))
    now, ep, b = _world(I)
    fm_config(I, fee=coin_v('uom', 1000), max_concurrent=2)
    kinds = [S2_KINDS[I.choose(len(S2_KINDS), 'k%d' % k)] for k in (1, 2)]
    budgets = [_existing_farm(I, ep, now, k, 'owner%d' % k, kinds[k - 1]) for k in (1, 2)]
    held = I.sym('fm_usd', hi=U128)
    I.assume(held >= sum((f - c) for f, c in budgets))
    b.set(FM, 'uusd', held)
    reward = I.sym('reward', lo=1000, hi=U128 // 2)
    b.set('creator', 'uusd', reward)
    b.set('creator', 'uom', 1000)
    ch = Chain(I, CONTRACTS_FM)
    pre = b.snapshot()
    st, resp = ch.execute('creator', FM, manage_farm('Create', params=farm_params(LP1, coin_v('uusd', reward), simp(ep + 1), simp(ep + 11))),
                          [coin_v('uom', 1000), coin_v('uusd', reward)])
    n_active = sum(1 for k in kinds if k in ('active', 'ended'))
    I.observe('status', 'ok' if st == 'ok' else 'err')
    for fid in ('m-old1', 'm-old2', 'f-4'):
        observe_farm(I, fid)
    observe_balances(I, b, [('owner1', 'uusd'), ('owner2', 'uusd'), (FM, 'uusd'), ('creator', 'uusd')])
    if st != 'ok':
        I.cover('too_many', HINT)
        I.check('rejected_only_when_limit_reached', n_active >= 2)
        return
    I.cover('ok', HINT)
    I.check('accepted_only_below_limit', n_active < 2)
    for k, kind in zip((1, 2), kinds):
        funded, claimed = budgets[k - 1]
        o = 'owner%d' % k
        if kind == 'expired':
            I.check('expired_farm_removed', get_farm(I, 'm-old%d' % k) is None)
            I.check('expired_farm_refunded_to_its_owner', smt.Eq(b.get(o, 'uusd'), pre.get(o, 'uusd') + funded - claimed))
        else:
            I.check('live_farm_kept', get_farm(I, 'm-old%d' % k) is not None)
            I.check('live_farm_owner_not_paid', smt.Eq(b.get(o, 'uusd'), pre.get(o, 'uusd')))
    ms = I.world.store(FM).get('farms')
    I.check('at_most_max_concurrent_unexpired', len(ms.entries) <= 2)


@obligation('C11', 'S3.expand_farm', entries=['execute', 'expand_farm', 'is_farm_expired'], kind='S',
            statement='expand: only the farm owner, only while current epoch < end and not expired, only the same reward denom, only multiples of the emission rate; '
                      'the declared amount equals the attached coin; budget += attached amount, end += attached/rate; nothing else changes',
            bounds='amounts full u128, sender in {owner, stranger, contract owner}, reward denom same/other', covers=['ok', 'rejected'],
            replay=fm_replay(lambda m: _replay_s3(m)))
def s3(I):
    I.set_hint(HINT)
    now, ep, b = _world(I)
    fm_config(I)
    funded = I.sym('funded', lo=1, hi=U128)
    claimed = I.sym('claimed', hi=U128)
    I.assume(claimed <= funded)
    rate = I.sym('rate', lo=1, hi=U128)
    cstart = I.sym('cur_start', lo=1, hi=10 ** 9)
    cend = I.sym('cur_end', lo=2, hi=10 ** 9 + 100)
    I.assume(cstart < cend)
    put_farm(I, farm('m-x', 'fowner', LP1, 'uusd', funded, claimed, rate, cstart, cend))
    decl = I.sym('expand', lo=1, hi=U128)          # the amount DECLARED in the message
    add = I.sym('attached', lo=1, hi=U128)         # the coin actually attached
    who = ['fowner', 'bob', 'creator'][I.choose(3, 'sender')]
    denom = ['uusd', 'uom'][I.choose(2, 'denom')]
    b.set(who, denom, add)
    ch = Chain(I, CONTRACTS_FM)
    pre = b.snapshot()
    st, resp = ch.execute(who, FM, manage_farm('Expand', params=farm_params(LP1, coin_v(denom, decl), ident='m-x')), [coin_v(denom, add)])
    I.observe('status', 'ok' if st == 'ok' else 'err')
    observe_farm(I, 'm-x')
    observe_balances(I, b, [(FM, 'uusd'), (FM, 'uom'), (who, denom)])
    if st != 'ok':
        I.cover('rejected', HINT)
        return
    I.cover('ok', HINT)
    f = get_farm(I, 'm-x')
    I.check('only_owner_expands', who == 'fowner')
    I.check('only_same_denom', denom == 'uusd')
    I.check('only_before_end', ep < cend)
    I.check('only_unclaimed_farms', claimed < funded)
    I.check('only_multiples_of_rate', smt.Eq(I.ctx.fmod(add, rate), 0))
    I.check('declared_amount_is_the_attached_amount', smt.Eq(decl, add))
    I.check('budget_grows_by_funds', smt.Eq(f.get('farm_asset').get('amount'), funded + add))
    I.check('end_extends_by_amount_over_rate', smt.Eq(f.get('preliminary_end_epoch'), cend + I.ctx.fdiv(add, rate)))
    I.check('rest_unchanged', smt.And(smt.Eq(f.get('claimed_amount'), claimed), smt.Eq(f.get('emission_rate'), rate), smt.Eq(f.get('start_epoch'), cstart),
                                      f.get('owner') == 'fowner'))
    I.check('contract_holds_the_funds', smt.Eq(b.get(FM, 'uusd'), pre.get(FM, 'uusd') + add))


@obligation('C11', 'S4.close_farm', entries=['execute', 'close_farm', 'close_farms', 'is_owner', 'reply'], kind='S',
            statement='close: only the farm owner or the contract owner, no funds accepted; refunds exactly funded-claimed to the FARM owner and to nobody else; farm removed',
            bounds='budgets full u128, sender in {farm owner, contract owner, stranger}, with/without funds', covers=['ok', 'rejected'],
            replay=fm_replay(lambda m: _replay_s4(m)))
def s4(I):
    I.set_hint(HINT)
    now, ep, b = _world(I)
    fm_config(I)
    funded = I.sym('funded', lo=1, hi=U128)
    claimed = I.sym('claimed', hi=U128)
    I.assume(claimed <= funded)
    put_farm(I, farm('m-x', 'fowner', LP1, 'uusd', funded, claimed, 1, 5, 50))
    held = I.sym('fm_usd', hi=U128)
    I.assume(held >= funded - claimed)
    b.set(FM, 'uusd', held)
    who = ['fowner', 'creator', 'bob'][I.choose(3, 'sender')]
    with_funds = I.choose(2, 'funds') == 1
    funds = [coin_v('uom', 5)] if with_funds else []
    if with_funds:
        b.set(who, 'uom', 5)
    ch = Chain(I, CONTRACTS_FM)
    pre = b.snapshot()
    st, resp = ch.execute(who, FM, manage_farm('Close', farm_identifier='m-x'), funds)
    I.observe('status', 'ok' if st == 'ok' else 'err')
    observe_farm(I, 'm-x')
    observe_balances(I, b, [(FM, 'uusd'), ('fowner', 'uusd'), (who, 'uusd')])
    if st != 'ok':
        I.cover('rejected', HINT)
        I.check('authorised_unfunded_close_accepted', not (who in ('fowner', 'creator') and not with_funds))
        return
    I.cover('ok', HINT)
    I.check('only_farm_owner_or_contract_owner', who in ('fowner', 'creator'))
    I.check('no_funds_accepted', not with_funds)
    I.check('farm_removed', get_farm(I, 'm-x') is None)
    I.check('refund_exact_to_farm_owner', smt.Eq(b.get('fowner', 'uusd'), pre.get('fowner', 'uusd') + funded - claimed))
    I.check('contract_debited_exactly', smt.Eq(b.get(FM, 'uusd'), pre.get(FM, 'uusd') - (funded - claimed)))
    if who != 'fowner':
        I.check('closer_gets_nothing', smt.Eq(b.get(who, 'uusd'), pre.get(who, 'uusd')))


# ---------------------------------------------------------------- the concurrent-farm limit beyond one page of the farm listing

_PAGE = 100         # MAX_FARMS_LIMIT: the largest page of the internal farm listing used to enforce the limit
_BIG = _PAGE + 1


def _fm_update_limit(n):
    return mk_enum('mantra_dex_std::farm_manager::ExecuteMsg', 'UpdateConfig', fee_collector_addr=NONE(), epoch_manager_addr=NONE(), pool_manager_addr=NONE(),
                   create_farm_fee=NONE(), max_concurrent_farms=Some(n), max_farm_epoch_buffer=NONE(), min_unlocking_duration=NONE(),
                   max_unlocking_duration=NONE(), farm_expiration_time=NONE(), emergency_unlock_penalty=NONE())


def _replay_s5(m):
    ep = m['epoch']
    farms = [('m-%03d' % k, 'owner1', LP1, 'uusd', 10, 0, 1, ep - 1, ep + 5) for k in range(_BIG)]
    return {'now_s': m['now_s'], 'farms': farms, 'counters': {'farm': 3},
            'mints': [('farm_manager', [('uusd', 10 * _BIG)]), ('creator', [('uusd', m['reward']), ('uom', 1000)])],
            'config': {'create_farm_fee': {'denom': 'uom', 'amount': '1000'}, 'max_concurrent_farms': _PAGE},
            'txs': [('creator', {'update_config': {'max_concurrent_farms': _BIG}}, []),
                    ('creator', _farm_msg('create', params=_params_json('uusd', m['reward'], ep + 1, ep + 11)), [('uom', 1000), ('uusd', m['reward'])])]}


@obligation('C11', 'S5.limit_above_one_listing_page', entries=['execute', 'update_config', 'create_farm', 'get_farms_by_lp_denom', 'is_farm_expired'], kind='B',
            statement='history: the owner raises max_concurrent_farms from %d to %d (one more than a page of the internal farm listing); if that is accepted, an LP token '
                      'with %d live farms does not get one more: the LP token never has more than the configured number of unexpired farms' % (_PAGE, _BIG, _BIG),
            bounds='%d live farms with fixed budgets, symbolic reward / time; two messages (UpdateConfig, then Create)' % _BIG, covers=['limit_holds'],
            replay=fm_replay(lambda m: _replay_s5(m)))
def s5(I):
    I.set_hint(dict(HINT, epoch=100, now_s=100 * DAY + 5))
    now, ep, b = _world(I)
    fm_config(I, fee=coin_v('uom', 1000), max_concurrent=_PAGE)
    ch = Chain(I, CONTRACTS_FM)
    st0, _ = ch.execute('creator', FM, _fm_update_limit(_BIG), [])
    if st0 != 'ok':
        # a limit the listing cannot enforce is not accepted in the first place: nothing to violate
        I.observe('status', 'err')
        I.cover('limit_holds')
        I.outcome('larger_limit_refused')
        return
    for k in range(_BIG):
        put_farm(I, farm('m-%03d' % k, 'owner1', LP1, 'uusd', 10, 0, 1, simp(ep - 1), simp(ep + 5)))
    b.set(FM, 'uusd', 10 * _BIG)
    reward = I.sym('reward', lo=1000, hi=U128 // 2)
    b.set('creator', 'uusd', reward)
    b.set('creator', 'uom', 1000)
    st, resp = ch.execute('creator', FM, manage_farm('Create', params=farm_params(LP1, coin_v('uusd', reward), simp(ep + 1), simp(ep + 11))),
                          [coin_v('uom', 1000), coin_v('uusd', reward)])
    I.observe('status', 'ok' if st == 'ok' else 'err')
    observe_farm(I, 'f-4')
    observe_balances(I, b, [(FM, 'uusd'), ('creator', 'uusd')])
    ms = I.world.store(FM).get('farms')
    if st == 'ok':
        I.check('creation_refused_at_the_configured_limit', False)
        I.check('at_most_max_concurrent_unexpired', len(ms.entries) <= _BIG)
        return
    I.cover('limit_holds')


# ---------------------------------------------------------------- limits between the listing's default page (10) and its maximum (100)

_LIMITS = [12, 11, 37, 100]
_S6_KINDS = ['full', 'one_below', 'full_last_expired']


def _s6_farms(n, kind, ep):
    cnt = n - 1 if kind == 'one_below' else n
    farms = []
    for k in range(cnt):
        if kind == 'full_last_expired' and k == cnt - 1:
            farms.append(('m-%03d' % k, 'owner2', LP1, 'uusd', 10, 0, 1, ep - 60, ep - 50))      # ended 50 epochs ago: expired (expiration ~ 30.4 days)
        else:
            farms.append(('m-%03d' % k, 'owner1', LP1, 'uusd', 10, 0, 1, ep - 1, ep + 5))
    return farms


def _replay_s6(m):
    ep = m['epoch']
    n = _LIMITS[m.get('_choices', {}).get('param:farm_limit', 0)]
    kind = _S6_KINDS[m['_choices']['kind']]
    farms = _s6_farms(n, kind, ep)
    return {'now_s': m['now_s'], 'farms': farms, 'counters': {'farm': 3},
            'mints': [('farm_manager', [('uusd', 10 * len(farms))]), ('creator', [('uusd', m['reward']), ('uom', 1000)])],
            'config': {'create_farm_fee': {'denom': 'uom', 'amount': '1000'}, 'max_concurrent_farms': n},
            'txs': [('creator', _farm_msg('create', params=_params_json('uusd', m['reward'], ep + 1, ep + 11)), [('uom', 1000), ('uusd', m['reward'])])]}


@obligation('C11', 'S6.limit_above_the_default_listing_page', entries=['execute', 'create_farm', 'get_farms_by_lp_denom', 'is_farm_expired', 'close_farms'], kind='S',
            statement='with max_concurrent_farms = N above the default page of the farm listing: an LP token with N live farms gets no further farm; with N-1 it gets exactly one; '
                      'with N farms of which the last listed has expired, that one is closed (refund to its owner) and the new farm is created',
            bounds='N in {12, 11, 37, 100} (quick tier: one of them by seed), farms with fixed budgets, symbolic reward / time', covers=['refused', 'created'],
            replay=fm_replay(lambda m: _replay_s6(m)))
def s6(I):
    I.set_hint(dict(HINT, epoch=100, now_s=100 * DAY + 5))
    now, ep, b = _world(I)
    I.assume(ep >= 70)
    n = I.param('farm_limit', _LIMITS)
    kind = _S6_KINDS[I.choose(3, 'kind')]
    fm_config(I, fee=coin_v('uom', 1000), max_concurrent=n)
    fl = _s6_farms(n, kind, ep)
    for (ident, owner, lp, rd, funded, claimed, rate, start, end) in fl:
        put_farm(I, farm(ident, owner, lp, rd, funded, claimed, rate, simp(start), simp(end)))
    b.set(FM, 'uusd', 10 * len(fl))
    reward = I.sym('reward', lo=1000, hi=U128 // 2)
    b.set('creator', 'uusd', reward)
    b.set('creator', 'uom', 1000)
    pre = b.snapshot()
    ch = Chain(I, CONTRACTS_FM)
    st, resp = ch.execute('creator', FM, manage_farm('Create', params=farm_params(LP1, coin_v('uusd', reward), simp(ep + 1), simp(ep + 11))),
                          [coin_v('uom', 1000), coin_v('uusd', reward)])
    I.observe('status', 'ok' if st == 'ok' else 'err')
    observe_farm(I, 'f-4')
    observe_farm(I, fl[-1][0])
    observe_balances(I, b, [(FM, 'uusd'), ('creator', 'uusd'), ('owner2', 'uusd')])
    ms = I.world.store(FM).get('farms')
    if st != 'ok':
        I.cover('refused')
        I.check('creation_below_the_limit_accepted', kind == 'full')
        return
    I.cover('created')
    I.check('creation_refused_at_the_configured_limit', kind != 'full')
    I.check('at_most_max_concurrent_farms', len(ms.entries) <= n)
    I.check('new_farm_recorded_with_full_reward', get_farm(I, 'f-4') is not None and I.values_eq(get_farm(I, 'f-4').get('farm_asset').get('amount'), reward))
    if kind == 'full_last_expired':
        I.check('expired_farm_closed', get_farm(I, fl[-1][0]) is None)
        I.check('expired_farm_refunded_to_its_owner', smt.Eq(b.get('owner2', 'uusd'), pre.get('owner2', 'uusd') + 10))


# ---------------------------------------------------------------- explicit farm identifiers are unique across ALL LP tokens

_S7_IDENTS = ['new', 'taken', 'other']


def _replay_s7(m):
    ep = m['epoch']
    ident = _S7_IDENTS[m['_choices']['ident']]
    farms = [('m-taken', 'owner1', LP1, 'uusd', 10, 0, 1, ep - 1, ep + 5), ('m-other', 'owner2', LP2, 'uusd', 20, 0, 2, ep - 1, ep + 9)]
    return {'now_s': m['now_s'], 'farms': farms, 'counters': {'farm': 3},
            'mints': [('farm_manager', [('uusd', 30)]), ('creator', [('uusd', m['reward']), ('uom', 1000)])],
            'config': {'create_farm_fee': {'denom': 'uom', 'amount': '1000'}, 'max_concurrent_farms': 5},
            'txs': [('creator', _farm_msg('create', params=_params_json('uusd', m['reward'], ep + 1, ep + 11, ident=ident)), [('uom', 1000), ('uusd', m['reward'])])]}


@obligation('C11', 'S7.create_with_explicit_identifier', entries=['execute', 'create_farm', 'validate_identifier', 'get_farm_by_identifier'], kind='S',
            statement='creating a farm with an explicit identifier: refused when a farm with that identifier exists -- on this LP token or on ANY other -- and no existing farm '
                      'changes owner, budget or LP token; a fresh identifier is accepted and stored with the m- prefix',
            bounds='one live farm on this LP token, one on another; identifier in {fresh, taken here, taken on the other LP token}; symbolic reward / time',
            covers=['created', 'refused'], replay=fm_replay(lambda m: _replay_s7(m)))
def s7(I):
    I.set_hint(dict(HINT, epoch=100, now_s=100 * DAY + 5))
    now, ep, b = _world(I)
    I.assume(ep >= 3)
    fm_config(I, fee=coin_v('uom', 1000), max_concurrent=5)
    put_farm(I, farm('m-taken', 'owner1', LP1, 'uusd', 10, 0, 1, simp(ep - 1), simp(ep + 5)))
    put_farm(I, farm('m-other', 'owner2', LP2, 'uusd', 20, 0, 2, simp(ep - 1), simp(ep + 9)))
    b.set(FM, 'uusd', 30)
    ident = _S7_IDENTS[I.choose(3, 'ident')]
    reward = I.sym('reward', lo=1000, hi=U128 // 2)
    b.set('creator', 'uusd', reward)
    b.set('creator', 'uom', 1000)
    def sig(f):
        return [f.get('owner'), f.get('lp_denom'), f.get('farm_asset').get('denom'), f.get('farm_asset').get('amount'), f.get('claimed_amount'),
                f.get('emission_rate'), f.get('start_epoch'), f.get('preliminary_end_epoch')]
    before = {k: sig(get_farm(I, k)) for k in ('m-taken', 'm-other')}
    ch = Chain(I, CONTRACTS_FM)
    st, resp = ch.execute('creator', FM, manage_farm('Create', params=farm_params(LP1, coin_v('uusd', reward), simp(ep + 1), simp(ep + 11), ident=ident)),
                          [coin_v('uom', 1000), coin_v('uusd', reward)])
    I.observe('status', 'ok' if st == 'ok' else 'err')
    for k in ('m-taken', 'm-other', 'm-new'):
        observe_farm(I, k)
    observe_balances(I, b, [(FM, 'uusd'), ('creator', 'uusd')])
    for k in ('m-taken', 'm-other'):
        I.check('existing_farms_untouched', get_farm(I, k) is not None and smt.And(*[I.values_eq(x, y) for x, y in zip(sig(get_farm(I, k)), before[k])]))
    if st != 'ok':
        I.cover('refused')
        I.check('fresh_identifier_accepted', ident != 'new')
        return
    I.cover('created')
    I.check('identifier_in_use_refused', ident == 'new')
    nf = get_farm(I, 'm-new')
    I.check('stored_under_the_prefixed_identifier', nf is not None and nf.get('owner') == 'creator' and nf.get('lp_denom') == LP1)
