"""C11 — farm lifecycle conserves funds, respects owners and limits."""
import json
import z3

from .. import smt
from ..smt import simp
from ..values import *
from ..chain import Chain, bank_of
from .common import *
from .fm import *

HINT = {'reward': 10 ** 6, 'fee': 1000, 'paid_fee': 1000, 'paid_reward': 10 ** 6, 'junk': 5, 'now_s': 20 * DAY + 5, 'epoch': 20, 'start': 21, 'end': 31,
        'f1_funded': 10 ** 6, 'f1_claimed': 0, 'f2_funded': 10 ** 6, 'f2_claimed': 10 ** 6, 'expand': 5 * 10 ** 5, 'rate': 10 ** 5, 'cur_end': 30,
        'cur_start': 10, 'funded': 2 * 10 ** 6, 'claimed': 10 ** 5, 'sender_bal': 10 ** 7}


def _world(I):
    now = I.sym('now_s', hi=U64 // NS - 2 * YEAR)
    ep = I.sym('epoch', lo=1, hi=10 ** 9)
    set_epoch(I, ep, now_s=now)
    set_ownership(I, FM, 'admin')
    I.world.store(FM)['farm_counter'] = 3
    return now, ep, bank_of(I)


def _replay_create(same_denom, shape):
    from .pm import generic_replay, coin_j, rj

    def build(m):
        fee_denom = 'uusd' if same_denom else 'uom'
        fee, reward = m['fee'], m['reward']
        funds = []
        if same_denom:
            total = reward + fee + (m.get('junk', 0) if shape == 'overpay_fee' else 0)
            funds = [coin_j('uusd', total)]
            if shape == 'extra_coin':
                funds.append(coin_j('uatom', m['junk']))
        else:
            paid_fee = m.get('paid_fee', fee) if shape == 'overpay_fee' else fee
            if shape != 'reward_only':
                funds.append(coin_j('uom', paid_fee))
            funds.append(coin_j('uusd', reward))
            if shape == 'extra_coin':
                funds.append(coin_j('uatom', m['junk']))
        funds = sorted(funds, key=lambda c: c['denom'])
        steps = [{'op': 'set_time', 'nanos': str(m['now_s'] * NS)},
                 {'op': 'mint', 'to': 'creator', 'funds': funds},
                 {'op': 'execute', 'contract': 'farm_manager', 'sender': 'creator', 'funds': funds,
                  'msg': {'manage_farm': {'action': {'create': {'params': {
                      'lp_denom': rj(LP1), 'start_epoch': m['start'], 'preliminary_end_epoch': m['end'], 'curve': None,
                      'farm_asset': coin_j('uusd', reward), 'farm_identifier': None}}}}}}]
        sc = {'setup': {'time_nanos': '0', 'epoch': {'genesis': '0', 'duration': str(DAY)},
                        'farm': {'create_farm_fee': {'denom': fee_denom, 'amount': str(fee)}, 'max_concurrent_farms': 2}},
              'steps': steps}
        return sc, len(steps) - 1
    return generic_replay(build)


def _ob_create(same_denom, shape):
    """shape: which coins are attached: 'exact' (what the property asks for), 'reward_only', 'extra_coin', 'overpay_fee'"""
    def s(I):
        I.set_hint(HINT)
        now, ep, b = _world(I)
        fee = I.sym('fee', hi=U128)
        reward = I.sym('reward', lo=0, hi=U128)
        fee_denom = 'uusd' if same_denom else 'uom'
        fm_config(I, fee=coin_v(fee_denom, fee))
        start = I.sym('start', hi=U64)
        end = I.sym('end', hi=U64)
        funds = []
        paid_fee = fee
        if same_denom:
            total = simp(reward + fee)
            I.assume(total <= U128 - 1000)
            if shape == 'overpay_fee':
                total = simp(total + I.sym('junk', lo=1, hi=1000))
            funds = [coin_v('uusd', total)]
            if shape == 'extra_coin':
                funds.append(coin_v('uatom', I.sym('junk', lo=1, hi=1000)))
        else:
            if shape == 'overpay_fee':
                paid_fee = I.sym('paid_fee', lo=1, hi=U128)
                I.assume(paid_fee > fee)
            if shape != 'reward_only':
                funds.append(coin_v('uom', paid_fee))
            funds.append(coin_v('uusd', reward))
            if shape == 'extra_coin':
                funds.append(coin_v('uatom', I.sym('junk', lo=1, hi=1000)))
        # bank funds: positive amounts only (sdk.Coins)
        for c in funds:
            I.assume(c.get('amount') >= 1)
            b.set('creator', c.get('denom'), c.get('amount'))
        ch = Chain(I, CONTRACTS_FM)
        pre = b.snapshot()
        st, resp = ch.execute('creator', FM, manage_farm('Create', params=farm_params(LP1, coin_v('uusd', reward), start, end)), funds)
        exact = shape == 'exact' or (shape == 'reward_only' and not same_denom)
        if st != 'ok':
            I.outcome('rejected')
            I.cover('rejected', HINT)
            I.observe('status', 'err')
            if shape == 'exact' or (shape == 'reward_only' and not same_denom):
                # exactly reward + fee attached (a zero fee needs no coin): only parameter validation may reject
                valid = smt.And(reward >= 1000, start > ep, start < end, start <= ep + 14, end - start <= reward)
                pays_exactly = True if shape == 'exact' else smt.Eq(fee, 0)
                if shape == 'exact' and not same_denom:
                    pays_exactly = fee >= 1          # a zero-amount coin cannot be attached
                I.check('exact_payment_with_valid_params_accepted', smt.Not(smt.And(valid, pays_exactly)))
            return
        I.cover('ok', HINT)
        I.observe('status', 'ok')
        I.check('only_exact_or_refundable_payments_accepted', shape != 'extra_coin' and not (same_denom and shape == 'overpay_fee'))
        f = get_farm(I, 'f-4')
        I.check('farm_recorded', f is not None)
        if f is None:
            return
        kept_usd = simp(b.get(FM, 'uusd') - pre.get(FM, 'uusd'))
        kept_om = simp(b.get(FM, 'uom') - pre.get(FM, 'uom'))
        kept_atom = simp(b.get(FM, 'uatom') - pre.get(FM, 'uatom'))
        I.observe('bal:farm_manager:uusd', b.get(FM, 'uusd'))
        I.observe('bal:farm_manager:uom', b.get(FM, 'uom'))
        I.observe('bal:farm_manager:uatom', b.get(FM, 'uatom'))
        I.observe('bal:fee_collector:' + fee_denom, b.get(FC, fee_denom))
        I.check('contract_keeps_exactly_the_reward', smt.And(smt.Eq(kept_usd, reward), smt.Eq(kept_om, 0), smt.Eq(kept_atom, 0)))
        I.check('fee_collector_gets_exactly_the_fee', smt.Eq(b.get(FC, fee_denom) - pre.get(FC, fee_denom), fee))
        I.check('budget_is_full_reward', smt.And(smt.Eq(f.get('farm_asset').get('amount'), reward), smt.Eq(f.get('claimed_amount'), 0)))
        I.check('owner_is_sender', f.get('owner') == 'creator')
        I.check('epochs_valid', smt.And(f.get('start_epoch') > ep, f.get('start_epoch') <= ep + 14, f.get('start_epoch') < f.get('preliminary_end_epoch')))
        I.check('emission_is_floor', smt.Eq(f.get('emission_rate'), I.ctx.fdiv(reward, simp(f.get('preliminary_end_epoch') - f.get('start_epoch')))))
        I.check('minimum_reward', reward >= 1000)
    return s


for _same in (True, False):
    for _shape in ('exact', 'reward_only', 'extra_coin', 'overpay_fee'):
        if _same and _shape == 'reward_only':
            continue
        obligation('C11', 'S1.create_farm_%s_%s' % ('samedenom' if _same else 'otherdenom', _shape),
                   entries=['execute', 'create_farm', 'process_farm_creation_fee', 'assert_farm_asset', 'validate_farm_epochs', 'validate_lp_denom',
                            'get_farms_by_lp_denom', 'validate_identifier'], kind='S',
                   statement='create farm (fee amount symbolic incl. 0, fee denom %s the reward denom, funds shape %s): on success the contract keeps exactly the reward, '
                             'the fee collector gets exactly the fee, overpayment is refunded, budget = reward, claimed = 0, emission = floor(reward/(end-start)), '
                             'owner = sender, cur < start <= cur+buffer, start < end; exactly-paid valid requests are accepted'
                             % ('=' if _same else '!=', _shape),
                   bounds='reward, fee full u128 (fee may be 0), epochs u64, no pre-existing farms',
                   covers=['ok'] if _shape in ('exact', 'reward_only') or (_shape == 'overpay_fee' and not _same) else ['rejected'],
                   replay=_replay_create(_same, _shape))(_ob_create(_same, _shape))
