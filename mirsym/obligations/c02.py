"""C02 — deposits and withdrawals never dilute other liquidity providers (constant product;
stableswap glue with D abstracted)."""
import json
import z3

from .. import smt
from ..smt import simp
from ..values import *
from ..chain import Chain, bank_of
from .common import *
from .pm import *
from .c04 import CONTRACTS

MINLIQ = 1000
LP = 'factory/pool_manager/p1.LP'
HINT = {'reserve_x': 10 ** 9, 'reserve_y': 2 * 10 ** 9, 'deposit_a': 10 ** 6, 'deposit_b': 2 * 10 ** 6, 'lp_supply': 10 ** 9,
        'protocol_fee': 10 ** 15, 'swap_fee': 2 * 10 ** 15, 'burn_fee': 0, 'pm_balance_A': 10 ** 9, 'pm_balance_B': 2 * 10 ** 9,
        'lp_amount': 10 ** 6, 'holder_lp': 10 ** 7}


def provide_msg(pool_id, liq_slip=None, swap_slip=None, receiver=None, unlocking=None, lock_id=None):
    return mk_enum('mantra_dex_std::pool_manager::ExecuteMsg', 'ProvideLiquidity',
                   liquidity_max_slippage=liq_slip or NONE(), swap_max_slippage=swap_slip or NONE(), receiver=receiver or NONE(),
                   pool_identifier=pool_id, unlocking_duration=unlocking or NONE(), lock_position_identifier=lock_id or NONE())


def withdraw_msg(pool_id):
    return mk_enum('mantra_dex_std::pool_manager::ExecuteMsg', 'WithdrawLiquidity', pool_identifier=pool_id)


def setup_funded_pool(I, ptype=None, decs=(6, 6), fees=None):
    x = I.sym('reserve_x', lo=1, hi=U128)
    y = I.sym('reserve_y', lo=1, hi=U128)
    S = I.sym('lp_supply', lo=MINLIQ, hi=U128)          # from exactly the locked minimum (a pool drained by its providers) upwards
    if fees is None:
        fees, _ = sym_fees(I, 0)
    pool = pool_info('p1', ['uA', 'uB'], list(decs), [x, y], ptype or xyk(), fees)
    pm_config(I)
    put_pool(I, pool)
    b = bank_of(I)
    for d, r in (('uA', x), ('uB', y)):
        bal = I.sym('pm_balance_' + d[1:], hi=U128)
        I.assume(bal >= r)
        b.set(PM, d, bal)
        b.supply[d] = bal
    b.supply[LP] = S
    b.set(PM, LP, MINLIQ)          # permanently locked minimum liquidity
    return x, y, S, b


@obligation('C02', 'S1.provide_xyk_later', entries=['execute', 'provide_liquidity', 'aggregate_coins', 'get_total_share', 'is_factory_token',
                                                   'assert_slippage_tolerance', 'mint_lp_token_msg', 'validate_addr_or_default'], kind='S',
            statement='later constant-product deposit (a, b): mints m = min(floor(a*S/x), floor(b*S/y)) to the receiver and nothing else; '
                      'm*x <= a*S and m*y <= b*S; reserves grow by exactly the deposits; value per LP does not decrease: (x+a)(y+b)*S^2 >= x*y*(S+m)^2',
            bounds='reserves, deposits in [1,2^128), supply in (1000, 2^128); no tolerance', covers=['ok'], replay=generic_replay(lambda m: _replay_provide_later(m)))
def s1(I):
    I.set_hint(HINT)
    x, y, S, b = setup_funded_pool(I)
    a = I.sym('deposit_a', lo=1, hi=U128)
    bb = I.sym('deposit_b', lo=1, hi=U128)
    b.set('lp1', 'uA', a)
    b.set('lp1', 'uB', bb)
    ch = Chain(I, CONTRACTS)
    pre = b.snapshot()
    st, resp = ch.execute('lp1', PM, provide_msg('p1'), [coin_v('uA', a), coin_v('uB', bb)])
    if st != 'ok':
        I.outcome('rejected')
        return
    I.cover('ok', HINT)
    x2, y2 = reserves_of(get_pool(I, 'p1'))
    m = simp(b.get('lp1', LP) - pre.get('lp1', LP))
    I.observe('status', 'ok')
    observe_pool(I, 'p1')
    observe_bank(I, b, [(PM, 'uA'), (PM, 'uB'), ('lp1', LP), (PM, LP)], [LP])
    I.check('reserves_grow_by_deposits', smt.And(smt.Eq(x2, x + a), smt.Eq(y2, y + bb)))
    I.check('mint_is_min_share', smt.Eq(m, smt.Min(I.ctx.fdiv(simp(a * S), x), I.ctx.fdiv(simp(bb * S), y))))
    I.check('supply_grows_by_mint', smt.Eq(b.supply[LP], S + m))
    I.check('never_more_than_proportional', smt.And(m * x <= a * S, m * y <= bb * S))
    I.check('locked_min_liquidity_untouched', smt.Eq(b.get(PM, LP), MINLIQ))
    I.check('pm_receives_deposits', smt.And(smt.Eq(b.get(PM, 'uA'), pre.get(PM, 'uA') + a), smt.Eq(b.get(PM, 'uB'), pre.get(PM, 'uB') + bb)))
    I.check('value_per_lp_not_decreasing', (x + a) * (y + bb) * S * S >= x * y * (S + m) * (S + m))


@obligation('C02', 'S2.provide_xyk_first', entries=['execute', 'provide_liquidity'], kind='S',
            statement='first constant-product deposit: mints isqrt(a*b) - 1000 to the receiver and exactly 1000 to the contract; refused when that is <= 0',
            bounds='deposits in [1,2^128)', covers=['ok', 'too_small'], replay=generic_replay(lambda m: _replay_provide_first(m)))
def s2(I):
    I.set_hint({'deposit_a': 10 ** 6, 'deposit_b': 4 * 10 ** 6, 'protocol_fee': 0, 'swap_fee': 0, 'burn_fee': 0})
    fees, _ = sym_fees(I, 0)
    pool = pool_info('p1', ['uA', 'uB'], [6, 6], [0, 0], xyk(), fees)
    pm_config(I)
    put_pool(I, pool)
    b = bank_of(I)
    a = I.sym('deposit_a', lo=1, hi=U128)
    bb = I.sym('deposit_b', lo=1, hi=U128)
    b.set('lp1', 'uA', a)
    b.set('lp1', 'uB', bb)
    ch = Chain(I, CONTRACTS)
    st, resp = ch.execute('lp1', PM, provide_msg('p1'), [coin_v('uA', a), coin_v('uB', bb)])
    root = I.ctx.isqrt(simp(a * bb))
    if st != 'ok':
        I.observe('status', 'err')
        I.cover('too_small', {'deposit_a': 10, 'deposit_b': 10})
        I.check('rejected_only_when_too_small', root <= MINLIQ)
        return
    I.cover('ok')
    I.observe('status', 'ok')
    observe_pool(I, 'p1')
    observe_bank(I, b, [('lp1', LP), (PM, LP)], [LP])
    I.check('receiver_gets_sqrt_minus_minliq', smt.Eq(b.get('lp1', LP), root - MINLIQ))
    I.check('contract_locks_minliq', smt.Eq(b.get(PM, LP), MINLIQ))
    I.check('supply_is_sqrt', smt.Eq(b.supply[LP], root))
    I.check('accepted_only_above_minliq', root > MINLIQ)
    x2, y2 = reserves_of(get_pool(I, 'p1'))
    I.check('reserves_are_deposits', smt.And(smt.Eq(x2, a), smt.Eq(y2, bb)))


def _mints(lst):
    out = []
    for to, coins in lst:
        cs = [coin_j(d, a) for d, a in coins if int(a) > 0]
        if cs:
            out.append({'op': 'mint', 'to': to, 'funds': cs})
    return out


def _fees_of(m, n_extra=0):
    return (m.get('protocol_fee', 0), m.get('swap_fee', 0), m.get('burn_fee', 0), [m.get('extra_fee%d' % i, 0) for i in range(n_extra)])


def _replay_withdraw(m):
    pool = pool_json('p1', ['uA', 'uB'], [6, 6], [m['reserve_x'], m['reserve_y']], 'constant_product', _fees_of(m))
    steps = [{'op': 'set_pool', 'pool': pool}]
    steps += _mints([('pool_manager', [('uA', m['pm_balance_A']), ('uB', m['pm_balance_B']), (LP, MINLIQ)]),
                     ('lp1', [(LP, m['holder_lp'])]),
                     ('sink', [(LP, m['lp_supply'] - m['holder_lp'] - MINLIQ)])])
    extra = m.get('_choices', {}).get('extra_coin', 0) == 1
    if extra:
        steps += _mints([('lp1', [('uA', 5)])])
    steps.append({'op': 'execute', 'contract': 'pool_manager', 'sender': 'lp1', 'funds': [coin_j(LP, m['lp_amount'])] + ([coin_j('uA', 5)] if extra else []),
                  'msg': {'withdraw_liquidity': {'pool_identifier': 'p1'}}})
    return {'setup': {}, 'steps': steps}, len(steps) - 1


def _replay_provide_later(m):
    pool = pool_json('p1', ['uA', 'uB'], [6, 6], [m['reserve_x'], m['reserve_y']], 'constant_product', _fees_of(m))
    steps = [{'op': 'set_pool', 'pool': pool}]
    steps += _mints([('pool_manager', [('uA', m['pm_balance_A']), ('uB', m['pm_balance_B']), (LP, MINLIQ)]),
                     ('sink', [(LP, m['lp_supply'] - MINLIQ)]),
                     ('lp1', [('uA', m['deposit_a']), ('uB', m['deposit_b'])])])
    steps.append({'op': 'execute', 'contract': 'pool_manager', 'sender': 'lp1',
                  'funds': [coin_j('uA', m['deposit_a']), coin_j('uB', m['deposit_b'])],
                  'msg': {'provide_liquidity': {'pool_identifier': 'p1'}}})
    return {'setup': {}, 'steps': steps}, len(steps) - 1


def _replay_provide_first(m):
    pool = pool_json('p1', ['uA', 'uB'], [6, 6], [0, 0], 'constant_product', _fees_of(m))
    steps = [{'op': 'set_pool', 'pool': pool}]
    steps += _mints([('lp1', [('uA', m['deposit_a']), ('uB', m['deposit_b'])])])
    steps.append({'op': 'execute', 'contract': 'pool_manager', 'sender': 'lp1',
                  'funds': [coin_j('uA', m['deposit_a']), coin_j('uB', m['deposit_b'])],
                  'msg': {'provide_liquidity': {'pool_identifier': 'p1'}}})
    return {'setup': {}, 'steps': steps}, len(steps) - 1


def _withdraw_setup(I):
    I.set_hint(HINT)
    x, y, S, b = setup_funded_pool(I)
    amt = I.sym('lp_amount', lo=1, hi=U128)
    hold = I.sym('holder_lp', lo=1, hi=U128)
    I.assume(hold + MINLIQ <= S)
    I.assume(amt <= hold)
    b.set('lp1', LP, hold)
    return x, y, S, b, amt, hold


@obligation('C02', 'S3.withdraw', entries=['execute', 'withdraw_liquidity', 'must_pay', 'get_total_share', 'burn_lp_asset_msg'], kind='S',
            statement='withdrawal of amt of S LP: burns exactly amt; each refund r_i satisfies r_i*S <= reserve_i*amt (never more than the share); reserves and '
                      'balances drop by exactly the refunds; supply stays >= the locked minimum',
            bounds='reserves [1,2^128), supply (1000,2^128), holder owns <= S-1000', covers=['ok'], replay=generic_replay(lambda m: _replay_withdraw(m)))
def s3(I):
    x, y, S, b, amt, hold = _withdraw_setup(I)
    ch = Chain(I, CONTRACTS)
    pre = b.snapshot()
    p0 = get_pool(I, 'p1')
    fixed0 = [clone(p0.get(f)) for f in ('asset_denoms', 'asset_decimals', 'pool_type', 'pool_fees', 'lp_denom', 'pool_identifier')]
    extra = I.choose(2, 'extra_coin') == 1          # a second coin attached next to the LP tokens: must be refused, not kept
    if extra:
        b.set('lp1', 'uA', 5)
    st, resp = ch.execute('lp1', PM, withdraw_msg('p1'), [coin_v(LP, amt)] + ([coin_v('uA', 5)] if extra else []))
    if extra:
        I.observe('status', 'ok' if st == 'ok' else 'err')
        I.check('withdrawal_with_an_extra_coin_refused', st != 'ok')
        return
    ex_a = I.ctx.fdiv(simp(x * amt), S)
    ex_b = I.ctx.fdiv(simp(y * amt), S)
    if st != 'ok':
        I.outcome('rejected')
        I.observe('status', 'err')
        I.check('can_always_redeem_a_positive_share', smt.And(ex_a < 1, ex_b < 1))
        return
    I.cover('ok', HINT)
    I.observe('status', 'ok')
    observe_pool(I, 'p1')
    observe_bank(I, b, [(PM, 'uA'), (PM, 'uB'), ('lp1', 'uA'), ('lp1', 'uB'), ('lp1', LP), (PM, LP)], [LP])
    p1 = get_pool(I, 'p1')
    I.check('pool_still_exists', p1 is not None)
    if p1 is None:
        return
    # a withdrawal changes reserve AMOUNTS only: the asset list keeps every asset in its order (also when a refund rounds to zero), and
    # denoms, decimals, type, fees, LP denom and identifier are untouched
    I.check('pool_keeps_every_asset_in_order', [c.get('denom') for c in p1.get('assets').e] == ['uA', 'uB'])
    I.check('immutable_pool_fields_unchanged', all(I.values_eq(a, bb_) is True for a, bb_ in zip(
        [p1.get(f) for f in ('asset_denoms', 'asset_decimals', 'pool_type', 'pool_fees', 'lp_denom', 'pool_identifier')], fixed0)))
    if [c.get('denom') for c in p1.get('assets').e] != ['uA', 'uB']:
        return
    x2, y2 = reserves_of(p1)
    ra = simp(b.get('lp1', 'uA') - pre.get('lp1', 'uA'))
    rb = simp(b.get('lp1', 'uB') - pre.get('lp1', 'uB'))
    I.check('burns_exactly_the_lp_sent', smt.And(smt.Eq(b.supply[LP], S - amt), smt.Eq(b.get('lp1', LP), hold - amt)))
    I.check('never_more_than_share', smt.And(ra * S <= x * amt, rb * S <= y * amt))
    I.check('reserves_drop_by_refunds', smt.And(smt.Eq(x2, x - ra), smt.Eq(y2, y - rb)))
    I.check('balances_drop_by_refunds', smt.And(smt.Eq(b.get(PM, 'uA'), pre.get(PM, 'uA') - ra), smt.Eq(b.get(PM, 'uB'), pre.get(PM, 'uB') - rb)))
    I.check('supply_at_least_minliq', b.supply[LP] >= MINLIQ)
    I.check('locked_min_liquidity_untouched', smt.Eq(b.get(PM, LP), MINLIQ))
    I.check('at_least_share_minus_one', smt.And(ra >= ex_a - 1, rb >= ex_b - 1))

from . import stable3   # noqa: E402,F401  (three-asset stableswap accounting obligations registered for this property)
