"""C12 — swap quotes equal execution."""
import json
import z3

from .. import smt
from ..smt import simp
from ..values import *
from ..chain import Chain, bank_of
from .common import *
from .pm import *
from .c04 import CONTRACTS, swap_msg, setup_world, HINT as HINT4

HINT = dict(HINT4)
HINT.update({'reserve_z': 10 ** 12, 'reserve_w': 10 ** 12, 'p2_protocol_fee': 10 ** 15, 'p2_swap_fee': 10 ** 15, 'p2_burn_fee': 0,
             'ask_amount': 10 ** 6})


def query_msg(var, **kw):
    return mk_enum('mantra_dex_std::pool_manager::QueryMsg', var, **kw)


def run_query(I, msg):
    """pool-manager `query` entry; returns ('ok', typed response) | ('err', e)"""
    st, r = I.try_call('query', [deps(PM), env(0, PM), msg], CR)
    if st == 'panic':
        return 'panic', r
    if is_err(r):
        return 'err', r.f[0]
    payload = r.f[0]
    return 'ok', payload.data


def _replay_r1(m):
    fees = (m['protocol_fee'], m['swap_fee'], m['burn_fee'], [m.get('extra_fee0', 0)])
    pool = pool_json('p1', ['uA', 'uB'], [6, 6], [m['reserve_x'], m['reserve_y']], 'constant_product', fees)
    from .c02 import _mints
    steps = [{'op': 'set_pool', 'pool': pool}]
    steps += _mints([('pool_manager', [('uA', m['pm_balance_A']), ('uB', m['pm_balance_B'])]),
                     ('sink', [('uA', m['supply_A'] - m['pm_balance_A']), ('uB', m['supply_B'] - m['pm_balance_B'])]), ('trader', [('uA', m['offer'])])])
    steps.append({'op': 'query', 'contract': 'pool_manager', 'msg': {'simulation': {'offer_asset': coin_j('uA', m['offer']), 'ask_asset_denom': 'uB', 'pool_identifier': 'p1'}}})
    sw = {'ask_asset_denom': 'uB', 'max_slippage': dec_j(m['max_slippage_atomics']), 'pool_identifier': 'p1'}
    if m.get('_choices', {}).get('receiver', 0) == 1:
        sw['receiver'] = '@fee_collector'
    steps.append({'op': 'execute', 'contract': 'pool_manager', 'sender': 'trader', 'funds': [coin_j('uA', m['offer'])], 'msg': {'swap': sw}})
    return {'setup': {}, 'steps': steps}, len(steps) - 1


@obligation('C12', 'R1.simulation_equals_swap_xyk', entries=['query', 'query_simulation', 'execute', 'swap::commands::swap', 'perform_swap', 'compute_swap'],
            kind='R', statement='same state and offer: Simulation.return/fee amounts equal what an immediately following Swap delivers and charges',
            bounds='reserves/offer [1,2^128), real is_valid fees with 1 extra fee', covers=['ok'],
            replay=generic_replay(lambda m: _replay_r1(m)))
def r1(I):
    I.set_hint(HINT)
    x = I.sym('reserve_x', lo=1, hi=U128)
    y = I.sym('reserve_y', lo=1, hi=U128)
    fees, (p, s, bu, ex) = sym_fees(I, 1)
    pool = pool_info('p1', ['uA', 'uB'], [6, 6], [x, y], xyk(), fees)
    b = setup_world(I, pool)
    o = I.sym('offer', lo=1, hi=U128)
    b.set('trader', 'uA', o)
    tol = I.sym('max_slippage_atomics', hi=U128)
    qs, sim = run_query(I, query_msg('Simulation', offer_asset=coin_v('uA', o), ask_asset_denom='uB', pool_identifier='p1'))
    ch = Chain(I, CONTRACTS)
    pre = b.snapshot()
    # whoever receives the proceeds -- the sender, or (a corner that merges two transfers to one address) the fee collector itself
    to_fc = I.choose(2, 'receiver') == 1
    I.assume(I.addr_valid('fee_collector'))
    st, resp = ch.execute('trader', PM, swap_msg('uB', 'p1', max_slippage=Some(tol), receiver=Some('fee_collector') if to_fc else None), [coin_v('uA', o)])
    if st != 'ok':
        I.outcome('swap_rejected')
        return
    I.cover('ok', HINT)
    I.observe('status', 'ok')
    observe_bank(I, b, [('trader', 'uB'), ('fee_collector', 'uB')], ['uB'])
    I.check('simulation_succeeds_when_swap_does', qs == 'ok')
    if qs != 'ok':
        return
    I.observe('sim_return', sim.get('return_amount'))
    d_trader = simp(b.get('trader', 'uB') - pre.get('trader', 'uB'))
    d_fc = simp(b.get('fee_collector', 'uB') - pre.get('fee_collector', 'uB'))
    if to_fc:
        I.check('return_amount_equal', smt.And(smt.Eq(d_trader, 0), smt.Eq(d_fc, sim.get('return_amount') + sim.get('protocol_fee_amount'))))
    else:
        I.check('return_amount_equal', smt.Eq(sim.get('return_amount'), d_trader))
        I.check('protocol_fee_equal', smt.Eq(sim.get('protocol_fee_amount'), d_fc))
    I.check('burn_fee_equal', smt.Eq(sim.get('burn_fee_amount'), pre.supply['uB'] - b.supply['uB']))
    x2, y2 = reserves_of(get_pool(I, 'p1'))
    I.check('swap_and_extra_fee_stay_in_pool', smt.Eq(y - y2, sim.get('return_amount') + sim.get('protocol_fee_amount') + sim.get('burn_fee_amount')))
    # the amounts the Swap itself reports (its response attributes) are the quoted ones, fee by fee
    for fld in ('return_amount', 'slippage_amount', 'swap_fee_amount', 'protocol_fee_amount', 'burn_fee_amount', 'extra_fees_amount'):
        rep = response_attr(resp, fld)
        I.observe('attr:' + fld, rep)
        I.observe('prevq:' + fld, sim.get(fld))
        I.check('reported_%s_equals_quote' % fld, rep is not None and smt.Eq(rep, sim.get(fld)))


ROUTE_PRESETS = [
    # (x, y | z, w, fees(p, s, b), offer): the abstracted obligation's model values are not realisable natively, so its
    # counterexamples are confirmed by showing the violated property itself natively on one of these states
    dict(x=3 * 10 ** 6, y=10 ** 6, z=10 ** 6, w=10 ** 6, fees=(0, 0, 0), offer=1000),
    dict(x=10 ** 9, y=10 ** 9, z=10 ** 9, w=10 ** 9, fees=(10 ** 15, 2 * 10 ** 15, 10 ** 15), offer=10 ** 6),
    dict(x=10 ** 6, y=3 * 10 ** 6, z=7 * 10 ** 6, w=10 ** 6, fees=(5 * 10 ** 15, 5 * 10 ** 15, 5 * 10 ** 15), offer=100),
    dict(x=10 ** 12, y=5 * 10 ** 11, z=10 ** 12, w=2 * 10 ** 12, fees=(0, 3 * 10 ** 15, 0), offer=12345),
    dict(x=123456789, y=987654321, z=555555, w=777777777, fees=(0, 0, 0), offer=7),
    dict(x=10 ** 6, y=10 ** 6, z=10 ** 6, w=10 ** 6, fees=(10 ** 16, 10 ** 16, 0), offer=1),
]


def _replay_route_native(label, m):
    from .c02 import _mints
    from ..replayer import run_scenario
    if label not in ('final_amount_equal', 'simulation_succeeds_when_route_does', 'nothing_else_reaches_the_trader'):
        return None
    ops = [{'mantra_swap': {'token_in_denom': 'uA', 'token_out_denom': 'uB', 'pool_identifier': 'p1'}},
           {'mantra_swap': {'token_in_denom': 'uB', 'token_out_denom': 'uC', 'pool_identifier': 'p2'}}]
    for ps in ROUTE_PRESETS:
        fees = (ps['fees'][0], ps['fees'][1], ps['fees'][2], [])
        steps = [{'op': 'set_pool', 'pool': pool_json('p1', ['uA', 'uB'], [6, 6], [ps['x'], ps['y']], 'constant_product', fees)},
                 {'op': 'set_pool', 'pool': pool_json('p2', ['uB', 'uC'], [6, 6], [ps['z'], ps['w']], 'constant_product', fees)}]
        steps += _mints([('pool_manager', [('uA', ps['x']), ('uB', ps['y'] + ps['z']), ('uC', ps['w'])]), ('trader', [('uA', ps['offer'])])])
        steps.append({'op': 'query', 'contract': 'pool_manager', 'msg': {'simulate_swap_operations': {'offer_amount': str(ps['offer']), 'operations': ops}}})
        steps.append({'op': 'execute', 'contract': 'pool_manager', 'sender': 'trader', 'funds': [coin_j('uA', ps['offer'])],
                      'msg': {'execute_swap_operations': {'operations': ops, 'max_slippage': '0.5'}}})
        steps.append({'op': 'balance', 'addr': 'trader', 'denom': 'uC'})
        steps.append({'op': 'balance', 'addr': 'trader', 'denom': 'uB'})
        sc = {'setup': {}, 'steps': steps}
        out = run_scenario(sc)
        res = out.get('results')
        if not res:
            continue
        q, x, bc, bb = res[-4], res[-3], res[-2], res[-1]
        if 'ok' not in x:
            continue
        got, stray = int(bc['ok']), int(bb['ok'])
        bad = None
        if 'ok' not in q:
            bad = 'route executes but SimulateSwapOperations fails: %s' % json.dumps(q)[:200]
        elif int(q['ok']['return_amount']) != got:
            bad = 'SimulateSwapOperations quoted %s but ExecuteSwapOperations delivered %d' % (q['ok']['return_amount'], got)
        elif stray != 0:
            bad = 'intermediate proceeds (%d uB) reached the trader' % stray
        if bad:
            why = bad + ' (pools %d/%d and %d/%d, offer %d)' % (ps['x'], ps['y'], ps['z'], ps['w'], ps['offer'])
            return sc, (lambda o, w=why: (True, w))
    return None


@obligation('C12', 'R2.route_simulation_equals_execution', entries=['query', 'simulate_swap_operations', 'execute', 'execute_swap_operations', 'perform_swap'],
            kind='R', statement='2-hop route over two distinct pools sharing a denom: SimulateSwapOperations.return_amount equals the amount '
                                'ExecuteSwapOperations sends to the receiver',
            bounds='two pools uA/uB and uB/uC of any type, all reserves/offer [1,2^128), any fees; five zero/non-zero patterns of the optional fee and slippage components', covers=['ok'],
            abstractions=[ABSTRACT_PRICING_NOTE], opts={'abstract': ABSTRACT_PRICING}, replay=_replay_route_native)
def r2(I):
    # which optional components (fees / slippage) of each hop's result are zero: 5 representative patterns
    k = I.choose(5, 'pattern')
    pats = [lambda n, f: 'nonzero',
            lambda n, f: 'nonzero' if f == 'return' else 'zero',
            lambda n, f: 'nonzero' if f in ('return', 'protocol_fee') else 'zero',
            lambda n, f: 'nonzero' if f in ('return', 'burn_fee', 'slippage') else 'zero',
            lambda n, f: ('nonzero' if n == 0 else 'zero') if f != 'return' else None]
    I.world.meta['uf_pattern'] = pats[k]
    x = I.sym('reserve_x', lo=1, hi=U128)
    y = I.sym('reserve_y', lo=1, hi=U128)
    z = I.sym('reserve_z', lo=1, hi=U128)
    w = I.sym('reserve_w', lo=1, hi=U128)
    fees1, _ = sym_fees(I, 0)
    fees2, _ = sym_fees(I, 0, prefix='p2_')
    p1 = pool_info('p1', ['uA', 'uB'], [6, 6], [x, y], xyk(), fees1)
    p2 = pool_info('p2', ['uB', 'uC'], [6, 6], [z, w], xyk(), fees2)
    pm_config(I)
    put_pool(I, p1)
    put_pool(I, p2)
    b = bank_of(I)
    b.set(PM, 'uA', x)
    b.set(PM, 'uB', simp(y + z))
    b.set(PM, 'uC', w)
    for d in ('uA', 'uB', 'uC'):
        b.supply[d] = simp(b.get(PM, d) * 2)
    o = I.sym('offer', lo=1, hi=U128)
    b.set('trader', 'uA', o)
    ops = [swap_op('uA', 'uB', 'p1'), swap_op('uB', 'uC', 'p2')]
    qs, sim = run_query(I, query_msg('SimulateSwapOperations', offer_amount=o, operations=Vc([clone(op) for op in ops])))
    ch = Chain(I, CONTRACTS)
    pre = b.snapshot()
    st, resp = ch.execute('trader', PM, route_msg(ops, max_slippage=Some(5 * 10 ** 17)), [coin_v('uA', o)])
    if st != 'ok':
        I.outcome('route_rejected')
        return
    I.cover('ok', HINT)
    I.check('simulation_succeeds_when_route_does', qs == 'ok')
    if qs != 'ok':
        return
    I.check('final_amount_equal', smt.Eq(sim.get('return_amount'), b.get('trader', 'uC') - pre.get('trader', 'uC')))
    I.check('nothing_else_reaches_the_trader', smt.Eq(b.get('trader', 'uB'), pre.get('trader', 'uB')))


FEE_CONFIGS = [(10 ** 15, 2 * 10 ** 15, 0, ()), (10 ** 16, 2 * 10 ** 16, 10 ** 16, ()), (0, 3 * 10 ** 15, 0, ()),
               (10 ** 15, 3 * 10 ** 15, 10 ** 15, (5 * 10 ** 15, 15 * 10 ** 15)), (0, 2 * 10 ** 15, 0, (10 ** 15,))]


def _replay_k1(zero_fees):
    """native: ReverseSimulation(ask) -> q, then Simulation(q + 1); confirmed when the real contract returns less than ask"""
    def rb(label, m):
        from ..replayer import run_scenario
        cfg = (0, 0, 0, ()) if zero_fees else FEE_CONFIGS[m.get('_choices', {}).get('feecfg', 0)]
        fees = (cfg[0], cfg[1], cfg[2], list(cfg[3]))
        steps = [{'op': 'set_pool', 'pool': pool_json('p1', ['uA', 'uB'], [6, 6], [m['reserve_x'], m['reserve_y']], 'constant_product', fees)},
                 {'op': 'query', 'contract': 'pool_manager', 'msg': {'reverse_simulation': {'ask_asset': coin_j('uB', m['ask_amount']), 'offer_asset_denom': 'uA',
                                                                                            'pool_identifier': 'p1'}}}]
        out = run_scenario({'setup': {}, 'steps': steps}).get('results')
        if not out or 'ok' not in out[-1]:
            return None
        q = int(out[-1]['ok']['offer_amount'])
        steps.append({'op': 'query', 'contract': 'pool_manager', 'msg': {'simulation': {'offer_asset': coin_j('uA', q + 1), 'ask_asset_denom': 'uB', 'pool_identifier': 'p1'}}})
        sc = {'setup': {}, 'steps': steps}
        out = run_scenario(sc).get('results')
        if not out or 'ok' not in out[-1]:
            return None
        got = int(out[-1]['ok']['return_amount'])
        if got < m['ask_amount']:
            why = 'ReverseSimulation(ask=%d) quotes %d; Simulation(offer=%d) returns %d < ask (pool %d/%d, fees %s)' % (
                m['ask_amount'], q, q + 1, got, m['reserve_x'], m['reserve_y'], fees)
            return sc, (lambda o, w=why: (True, w))
        return None
    return rb


def _ob_k1(zero_fees, reduced):
    def k1(I):
        I.set_hint(HINT)
        hi = U128
        x = I.sym('reserve_x', lo=1, hi=hi)
        y = I.sym('reserve_y', lo=1, hi=hi)
        if zero_fees:
            fees = pool_fee(0, 0, 0)
        elif reduced:
            k = I.choose(len(FEE_CONFIGS), 'feecfg')
            fees = pool_fee(*FEE_CONFIGS[k])
        else:
            fees, (p, s_, bu, ex) = sym_fees(I, 0)
            I.assume(p + s_ + bu > 0)
        pool = pool_info('p1', ['uA', 'uB'], [6, 6], [x, y], xyk(), fees)
        pm_config(I)
        put_pool(I, pool)
        want = I.sym('ask_amount', lo=1, hi=hi)
        qs, rev = run_query(I, query_msg('ReverseSimulation', ask_asset=coin_v('uB', want), offer_asset_denom='uA', pool_identifier='p1'))
        if qs != 'ok':
            I.outcome('reverse_fails')
            return
        q = rev.get('offer_amount')
        if I.fork(q + 1 > U128):
            return
        qs2, sim = run_query(I, query_msg('Simulation', offer_asset=coin_v('uA', simp(q + 1)), ask_asset_denom='uB', pool_identifier='p1'))
        if qs2 != 'ok':
            # the forward swap itself is refused (overflow, or a pool price below the 18-decimal resolution):
            # fails cleanly, nothing to compare -- outside this obligation (DESIGN.md, C12)
            I.outcome('forward_refused')
            return
        I.cover('ok', HINT)
        short = sim.get('return_amount') < want
        if (not zero_fees) and I.finding_active('C12-reverse-quote-precision'):
            # known finding: with a commission, 1/(1-fees) is floored at 18 decimals, so for ask >= 1e18 the quote can be short
            I.check('one_more_unit_is_enough', smt.Or(want >= E18, smt.Not(short)))
        else:
            I.check('one_more_unit_is_enough', smt.Not(short))
    return k1


for _z, _red, _tier in ((True, False, 'quick'), (False, True, 'quick')):
    obligation('C12', 'K1.reverse_quote_plus_one_%s%s' % ('zero_fees' if _z else 'with_fees', '_fixed_fee_configs' if _red else ''),
               entries=['query', 'query_reverse_simulation', 'compute_offer_amount', 'query_simulation', 'compute_swap'],
               kind='K', tier=_tier,
               statement='constant product: if ReverseSimulation(ask) returns offer q and the forward swap of q+1 is accepted, it returns at least ask',
               bounds='reserves/ask in [1, %s), %s; paths where the forward swap is refused are outside the claim' % (
                   '2^128' if _red else '2^128', 'all fees zero' if _z else ('five fixed fee configurations (protocol/swap/burn 0.1/0.2/0, 1/2/1, 0/0.3/0 percent; 0.1/0.3/0.1 + extra fees 0.5 and 1.5; '
                                                                           '0/0.2/0 + one extra fee 0.1)' if _red else 'real is_valid fees with total > 0')),
               covers=['ok'], opts={'check_timeout_ms': 120000}, replay=_replay_k1(_z))(_ob_k1(_z, _red))


# ---------------------------------------------------------------- three hops over three distinct pools

def _replay_route_native3(label, m):
    from .c02 import _mints
    from ..replayer import run_scenario
    ops = [{'mantra_swap': {'token_in_denom': a, 'token_out_denom': bb, 'pool_identifier': pid}} for a, bb, pid in (('uA', 'uB', 'p1'), ('uB', 'uC', 'p2'), ('uC', 'uD', 'p3'))]
    for ps in ROUTE_PRESETS:
        fees = (ps['fees'][0], ps['fees'][1], ps['fees'][2], [])
        steps = [{'op': 'set_pool', 'pool': pool_json('p1', ['uA', 'uB'], [6, 6], [ps['x'], ps['y']], 'constant_product', fees)},
                 {'op': 'set_pool', 'pool': pool_json('p2', ['uB', 'uC'], [6, 6], [ps['z'], ps['w']], 'constant_product', fees)},
                 {'op': 'set_pool', 'pool': pool_json('p3', ['uC', 'uD'], [6, 6], [ps['w'], ps['x']], 'constant_product', fees)}]
        steps += _mints([('pool_manager', [('uA', ps['x']), ('uB', ps['y'] + ps['z']), ('uC', 2 * ps['w']), ('uD', ps['x'])]), ('trader', [('uA', ps['offer'])])])
        steps.append({'op': 'query', 'contract': 'pool_manager', 'msg': {'simulate_swap_operations': {'offer_amount': str(ps['offer']), 'operations': ops}}})
        steps.append({'op': 'execute', 'contract': 'pool_manager', 'sender': 'trader', 'funds': [coin_j('uA', ps['offer'])],
                      'msg': {'execute_swap_operations': {'operations': ops, 'max_slippage': '0.5'}}})
        steps += [{'op': 'balance', 'addr': 'trader', 'denom': d} for d in ('uD', 'uB', 'uC')]
        sc = {'setup': {}, 'steps': steps}
        res = run_scenario(sc).get('results')
        if not res or 'ok' not in res[-4]:
            continue
        q, got, stray = res[-5], int(res[-3]['ok']), int(res[-2]['ok']) + int(res[-1]['ok'])
        bad = None
        if 'ok' not in q:
            bad = 'route executes but SimulateSwapOperations fails: %s' % json.dumps(q)[:200]
        elif int(q['ok']['return_amount']) != got:
            bad = 'SimulateSwapOperations quoted %s but ExecuteSwapOperations delivered %d' % (q['ok']['return_amount'], got)
        elif stray != 0:
            bad = 'intermediate proceeds (%d) reached the trader' % stray
        if bad:
            return sc, (lambda o, w=bad + ' (3 hops, offer %d)' % ps['offer']: (True, w))
    return None


@obligation('C12', 'R3.route_simulation_equals_execution_3_hops', entries=['query', 'simulate_swap_operations', 'execute', 'execute_swap_operations', 'perform_swap'],
            kind='R', statement='3-hop route over three distinct pools: SimulateSwapOperations.return_amount equals the amount ExecuteSwapOperations sends to the receiver; '
                                'no intermediate proceeds reach the trader',
            bounds='pools uA/uB, uB/uC, uC/uD of any type, reserves/offer [1,2^128), fixed fee configuration selected by VERIF_SEED; two zero/non-zero patterns of the optional '
                   'fee and slippage components', covers=['ok'], abstractions=[ABSTRACT_PRICING_NOTE], opts={'abstract': ABSTRACT_PRICING}, replay=_replay_route_native3)
def r3(I):
    k = I.choose(2, 'pattern')
    pats = [lambda n, f: 'nonzero', lambda n, f: 'nonzero' if f == 'return' else 'zero']
    I.world.meta['uf_pattern'] = pats[k]
    I.set_hint(HINT)
    r = {n: I.sym('reserve_' + n, lo=1, hi=U128 // 4) for n in ('x', 'y', 'z', 'w', 'u', 'v')}
    fees = param_fees(I)
    pm_config(I)
    put_pool(I, pool_info('p1', ['uA', 'uB'], [6, 6], [r['x'], r['y']], xyk(), fees))
    put_pool(I, pool_info('p2', ['uB', 'uC'], [6, 6], [r['z'], r['w']], xyk(), clone(fees)))
    put_pool(I, pool_info('p3', ['uC', 'uD'], [6, 6], [r['u'], r['v']], xyk(), clone(fees)))
    b = bank_of(I)
    for d, amt in (('uA', r['x']), ('uB', simp(r['y'] + r['z'])), ('uC', simp(r['w'] + r['u'])), ('uD', r['v'])):
        b.set(PM, d, amt)
        b.supply[d] = simp(amt * 2)
    o = I.sym('offer', lo=1, hi=U128 // 4)
    b.set('trader', 'uA', o)
    ops = [swap_op('uA', 'uB', 'p1'), swap_op('uB', 'uC', 'p2'), swap_op('uC', 'uD', 'p3')]
    qs, sim = run_query(I, query_msg('SimulateSwapOperations', offer_amount=o, operations=Vc([clone(op) for op in ops])))
    ch = Chain(I, CONTRACTS)
    pre = b.snapshot()
    st, resp = ch.execute('trader', PM, route_msg(ops, max_slippage=Some(5 * 10 ** 17)), [coin_v('uA', o)])
    if st != 'ok':
        I.outcome('route_rejected')
        return
    I.cover('ok')
    I.check('simulation_succeeds_when_route_does', qs == 'ok')
    if qs != 'ok':
        return
    I.check('final_amount_equal', smt.Eq(sim.get('return_amount'), b.get('trader', 'uD') - pre.get('trader', 'uD')))
    I.check('nothing_else_reaches_the_trader', smt.And(smt.Eq(b.get('trader', 'uB'), pre.get('trader', 'uB')), smt.Eq(b.get('trader', 'uC'), pre.get('trader', 'uC'))))
