"""C08 — locked LP returns only to its owner, only after unlocking, in full."""
import json
import z3

from .. import smt
from ..smt import simp
from ..values import *
from ..chain import Chain, bank_of
from .common import *
from .fm import *

HINT = {'amount': 10 ** 6, 'other_amount': 5 * 10 ** 5, 'duration': DAY * 30, 'now_s': 20 * 86400 + 5, 'expiring_at': 20 * 86400, 'epoch': 20,
        'fm_lp_balance': 10 ** 7, 'close_amount': 10 ** 5, 'add_amount': 10 ** 5, 'total_w': 10 ** 8, 'user_w': 10 ** 7, 'sender_lp': 10 ** 6}


def base_world(I, now_s=None, epoch=None):
    # the allowed range of unlocking durations is whatever the owner configured NOW -- possibly narrower than when a position was opened
    cmin = I.sym('cfg_min_unlock', lo=DAY, hi=YEAR)
    cmax = I.sym('cfg_max_unlock', lo=DAY, hi=YEAR)
    I.assume(cmin <= cmax)
    fm_config(I, min_unlock=cmin, max_unlock=cmax)
    I.world.meta['cfg_unlock'] = (cmin, cmax)
    now = I.sym('now_s', hi=U64 // NS) if now_s is None else now_s
    ep = I.sym('epoch', lo=1, hi=10 ** 6) if epoch is None else epoch
    set_epoch(I, ep, now_s=now)
    I.world.store(FM)['position_id_counter'] = 7
    b = bank_of(I)
    bal = I.sym('fm_lp_balance', hi=U128)
    b.set(FM, LP1, bal)
    b.supply[LP1] = simp(bal * 2)
    return now, ep, b


def _pos_msg(action, **kw):
    return {'manage_position': {'action': {action: kw}}}


def _c08_state(m, closed_key='is_closed', with_other=True, with_weights=False):
    from .pm import rj
    exp = m.get('expiring_at') if m.get(closed_key) else None
    pos = [('u-a', LP1, m['amount'], m['duration'], 'alice', exp)]
    if with_other:
        pos.append(('u-b', LP1, m.get('other_amount', 1), m['duration'], 'bob', None))
    d = {'now_s': m['now_s'], 'positions': pos, 'counters': {'position': 7},
         'mints': [('farm_manager', [(LP1, m['fm_lp_balance'])])],
         'config': {'min_unlocking_duration': m.get('cfg_min_unlock', DAY), 'max_unlocking_duration': m.get('cfg_max_unlock', YEAR)}}
    if with_weights:
        d['weights'] = [('farm_manager', LP1, m['epoch'], m['total_w']), ('alice', LP1, m['epoch'], m['user_w'])]
    return d


# the stored identifier of the position, and the same name without the `u-` prefix the contract adds to explicit identifiers: only the stored form names it
IDENT_FORMS = ['u-a', 'a']


def _replay_s1(m):
    ch = m['_choices']
    who = ['alice', 'bob', 'pool_manager'][ch['sender']]
    em = [None, False][ch['emergency']]
    d = _c08_state(m)
    d['txs'] = [(who, _pos_msg('withdraw', identifier=IDENT_FORMS[ch.get('ident_form', 0)], emergency_unlock=em), [])]
    return d


def _replay_s2(m):
    from .pm import coin_j
    ch = m['_choices']
    who = ['alice', 'bob', 'pool_manager'][ch['sender']]
    lp = None if ch['mode'] == 0 else coin_j(LP1, m['close_amount'])
    d = _c08_state(m, with_weights=True)
    d['txs'] = [(who, _pos_msg('close', identifier=IDENT_FORMS[ch.get('ident_form', 0)], lp_asset=lp), [])]
    return d


def _replay_s3(m):
    ch = m['_choices']
    who = ['alice', 'pool_manager'][ch['sender']]
    recv = [None, '@alice', '@bob'][ch['receiver']]
    ident = [None, 'fresh', 'taken'][ch['ident']]
    d = {'now_s': m['now_s'], 'positions': [('u-taken', LP1, 5, DAY, 'bob', None)], 'counters': {'position': 7},
         'mints': [('farm_manager', [(LP1, m['fm_lp_balance'])]), (who, [(LP1, m['amount'])])],
         'config': {'min_unlocking_duration': m.get('cfg_min_unlock', DAY), 'max_unlocking_duration': m.get('cfg_max_unlock', YEAR)}}
    d['txs'] = [(who, _pos_msg('create', identifier=ident, unlocking_duration=m['duration'], receiver=recv), [(LP1, m['amount'])])]
    return d


def _replay_s4(m):
    ch = m['_choices']
    who = ['alice', 'bob', 'pool_manager'][ch['sender']]
    denom = [LP1, LP2][ch['denom']]
    d = _c08_state(m, with_other=False)
    d['mints'].append((who, [(denom, m['add_amount'])]))
    d['txs'] = [(who, _pos_msg('expand', identifier='u-a'), [(denom, m['add_amount'])])]
    return d


def snapshot_positions(I):
    return {p.get('identifier'): clone(p) for p in all_positions(I)}


def pos_eq(I, a, b):
    return I.values_eq(a, b)


@obligation('C08', 'S1.withdraw_normal', entries=['execute', 'withdraw_position', 'Position::is_expired', 'get_position'], kind='S',
            statement='non-emergency withdrawal: succeeds iff sender is the position owner and the position is closed with expiring_at <= now '
                      '(boundary second included); pays exactly the recorded amount to the owner, deletes the position, touches no other position',
            bounds='amount [1,2^128), block time and expiring_at full u64 seconds, sender in {owner, stranger, pool manager}; open or closed position',
            covers=['ok', 'rejected'], replay=fm_replay(lambda m: _replay_s1(m)))
def s1(I):
    I.set_hint(HINT)
    now, ep, b = base_world(I)
    amt = I.sym('amount', lo=1, hi=U128)
    oth = I.sym('other_amount', lo=1, hi=U128)
    I.assume(b.get(FM, LP1) >= amt + oth)
    dur = I.sym('duration', lo=DAY, hi=YEAR)
    closed = I.fork(I.symbool('is_closed'))
    exp = I.sym('expiring_at', hi=U64 // NS) if closed else None
    put_position(I, position('u-a', LP1, amt, dur, 'alice', exp))
    put_position(I, position('u-b', LP1, oth, dur, 'bob', None))
    who = ['alice', 'bob', PMA][I.choose(3, 'sender')]
    emergency = [NONE(), Some(False)][I.choose(2, 'emergency')]
    ch = Chain(I, CONTRACTS_FM)
    pre = b.snapshot()
    others = snapshot_positions(I)
    ident = IDENT_FORMS[I.choose(2, 'ident_form')]
    st, resp = ch.execute(who, FM, manage_position('Withdraw', identifier=ident, emergency_unlock=emergency), [])
    allowed = smt.And(who == 'alice', closed, (exp <= now) if closed else False, ident == 'u-a')
    I.observe('status', 'ok' if st == 'ok' else 'err')
    observe_position(I, 'u-a')
    observe_position(I, 'u-b')
    observe_balances(I, b, [('alice', LP1), ('bob', LP1), (FM, LP1), (FC, LP1)])
    if st != 'ok':
        I.cover('rejected', HINT)
        I.check('rejected_only_when_not_allowed', smt.Not(allowed))
        return
    I.cover('ok', HINT)
    I.check('accepted_only_for_owner_after_unlock', allowed)
    I.check('position_deleted', get_position(I, 'u-a') is None)
    I.check('owner_paid_in_full', smt.Eq(b.get('alice', LP1), pre.get('alice', LP1) + amt))
    I.check('contract_debited_exactly', smt.Eq(b.get(FM, LP1), pre.get(FM, LP1) - amt))
    I.check('other_position_untouched', pos_eq(I, get_position(I, 'u-b'), others['u-b']))
    I.check('nobody_else_paid', smt.And(smt.Eq(b.get('bob', LP1), pre.get('bob', LP1)), smt.Eq(b.get(FC, LP1), pre.get(FC, LP1))))


@obligation('C08', 'S2.close', entries=['execute', 'close_position', 'close_position_in_full', 'update_weights', 'validate_no_pending_rewards',
                                         'reconcile_user_state', 'validate_positions_limit'], kind='S',
            statement='close: only the owner, only an open position; full close sets expiring_at = now + unlocking_duration; partial close creates a new closed '
                      'position with a fresh generated id and amount_new + amount_rest = amount_old; no LP moves; positions of other users untouched',
            bounds='amounts [1,2^128), times u64, sender in {owner, stranger, pool manager}; close amount None / equal / smaller / larger',
            covers=['full', 'partial', 'rejected'], replay=fm_replay(lambda m: _replay_s2(m)))
def s2(I):
    I.set_hint(HINT)
    now, ep, b = base_world(I)
    amt = I.sym('amount', lo=1, hi=U128 // 17)
    oth = I.sym('other_amount', lo=1, hi=U128 // 17)
    dur = I.sym('duration', lo=DAY, hi=YEAR)
    closed = I.fork(I.symbool('is_closed'))
    put_position(I, position('u-a', LP1, amt, dur, 'alice', I.sym('expiring_at', hi=U64 // NS) if closed else None))
    put_position(I, position('u-b', LP1, oth, dur, 'bob', None))
    # weights recorded for the next epoch by the opening operations (no farms => no pending rewards)
    tw = I.sym('total_w', hi=U128)
    uw = I.sym('user_w', hi=U128)
    put_weight(I, FM, LP1, ep, tw)
    put_weight(I, 'alice', LP1, ep, uw)
    who = ['alice', 'bob', PMA][I.choose(3, 'sender')]
    mode = I.choose(2, 'mode')
    if mode == 0:
        arg, camt = NONE(), None
    else:
        camt = I.sym('close_amount', lo=0, hi=U128)
        arg = Some(coin_v(LP1, camt))
    ch = Chain(I, CONTRACTS_FM)
    pre = b.snapshot()
    others = snapshot_positions(I)
    ident = IDENT_FORMS[I.choose(2, 'ident_form')]
    st, resp = ch.execute(who, FM, manage_position('Close', identifier=ident, lp_asset=arg), [])
    I.observe('status', 'ok' if st == 'ok' else 'err')
    for pid in ('u-a', 'u-b', 'p-8', 'a'):
        observe_position(I, pid)
    observe_balances(I, b, [('alice', LP1), (FM, LP1)])
    if st != 'ok':
        I.cover('rejected', HINT)
        I.outcome('rejected')
        if who == 'alice' and not closed and camt is None:
            # owner closing an open position in full can only fail on the positions limit / arithmetic, not on authorisation
            pass
        return
    I.check('only_owner_closes', who == 'alice')
    I.check('only_the_stored_identifier_names_the_position', ident == 'u-a')
    I.check('no_record_under_another_identifier', get_position(I, 'a') is None)
    I.check('only_open_positions_close', not closed)
    I.check('no_lp_moves', smt.And(smt.Eq(b.get(FM, LP1), pre.get(FM, LP1)), smt.Eq(b.get('alice', LP1), pre.get('alice', LP1))))
    I.check('other_position_untouched', pos_eq(I, get_position(I, 'u-b'), others['u-b']))
    p = get_position(I, 'u-a')
    expires = simp(now + dur)
    if p.get('open') is False:
        I.cover('full', HINT)
        I.check('full_close_amount_kept', smt.Eq(p.get('lp_asset').get('amount'), amt))
        I.check('full_close_expiry', p.get('expiring_at').var == 'Some' and smt.Eq(p.get('expiring_at').f[0], expires))
        if camt is not None:
            I.check('full_close_only_for_equal_amount', smt.Eq(camt, amt))
    else:
        I.cover('partial', HINT)
        fresh = [q for q in all_positions(I) if q.get('identifier') not in ('u-a', 'u-b', 'a')]
        newp = fresh[0] if len(fresh) == 1 else None
        I.check('partial_close_creates_exactly_one_new_position', newp is not None)
        if newp is not None:
            I.check('split_conserves_lp', smt.Eq(newp.get('lp_asset').get('amount') + p.get('lp_asset').get('amount'), amt))
            I.check('new_part_is_closed_for_owner', newp.get('open') is False and newp.get('receiver') == 'alice'
                    and newp.get('expiring_at').var == 'Some' and smt.Eq(newp.get('expiring_at').f[0], expires))
            I.check('partial_amount_is_requested', smt.Eq(newp.get('lp_asset').get('amount'), camt))


@obligation('C08', 'S3.create', entries=['execute', 'create_position', 'validate_lp_denom', 'validate_identifier', 'update_weights'], kind='S',
            statement='create: for someone else only when the sender is the pool manager (or the receiver itself); records exactly the attached LP for the receiver, '
                      'open; explicit ids get the u- prefix, generated ids p-<counter>; an existing id is refused',
            bounds='amount [1,2^128/17), duration in config range, sender in {alice, pool manager}, receiver in {none, alice, bob}, id in {none, fresh, taken}',
            covers=['ok', 'rejected'], replay=fm_replay(lambda m: _replay_s3(m)))
def s3(I):
    I.set_hint(HINT)
    now, ep, b = base_world(I)
    amt = I.sym('amount', lo=1, hi=U128 // 17)
    dur = I.sym('duration', lo=DAY, hi=YEAR)
    put_position(I, position('u-taken', LP1, 5, DAY, 'bob', None))
    who = ['alice', PMA][I.choose(2, 'sender')]
    b.set(who, LP1, amt)
    rk = I.choose(3, 'receiver')
    recv = [NONE(), Some('alice'), Some('bob')][rk]
    recv_addr = [who, 'alice', 'bob'][rk]
    for a in ('alice', 'bob'):
        I.assume(I.addr_valid(a))
    ik = I.choose(3, 'ident')
    ident = [NONE(), Some('fresh'), Some('taken')][ik]
    expected_id = ['p-8', 'u-fresh', 'u-taken'][ik]
    ch = Chain(I, CONTRACTS_FM)
    pre = b.snapshot()
    st, resp = ch.execute(who, FM, manage_position('Create', identifier=ident, unlocking_duration=dur, receiver=recv), [coin_v(LP1, amt)])
    authorised = (who == PMA) or (recv_addr == who)
    cmin, cmax = I.world.meta['cfg_unlock']
    dur_ok = smt.And(cmin <= dur, dur <= cmax)
    I.observe('status', 'ok' if st == 'ok' else 'err')
    for pid in ('p-8', 'u-fresh', 'u-taken'):
        observe_position(I, pid)
    observe_balances(I, b, [(FM, LP1), (who, LP1)])
    if st != 'ok':
        I.cover('rejected', HINT)
        I.check('rejected_only_if_unauthorised_or_taken', smt.Or((not authorised) or ik == 2, smt.Not(dur_ok)))
        return
    I.cover('ok', HINT)
    I.check('duration_within_the_configured_range', dur_ok)
    I.check('creating_for_others_needs_pool_manager', authorised)
    I.check('existing_id_refused', ik != 2)
    # the new position is whichever one did not exist before (the identifier format -- u- / p- prefixes -- is not part of the property)
    fresh = [q for q in all_positions(I) if q.get('identifier') != 'u-taken']
    I.check('exactly_one_position_created', len(fresh) == 1)
    p = fresh[0] if len(fresh) == 1 else None
    if p is not None:
        I.check('records_attached_lp', smt.Eq(p.get('lp_asset').get('amount'), amt) and p.get('lp_asset').get('denom') == LP1)
        I.check('owner_is_receiver', p.get('receiver') == recv_addr)
        I.check('open_and_unexpiring', p.get('open') is True and p.get('expiring_at').var == 'None')
    I.check('contract_holds_the_lp', smt.Eq(b.get(FM, LP1), pre.get(FM, LP1) + amt))


@obligation('C08', 'S4.expand', entries=['execute', 'expand_position', 'update_weights'], kind='S',
            statement='expand: only the owner or the pool manager, only an open position, only the same LP denom; recorded amount grows by exactly the attached LP',
            bounds='amounts [1,2^128/17), sender in {owner, stranger, pool manager}, open or closed, same/other LP denom', covers=['ok', 'rejected'],
            replay=fm_replay(lambda m: _replay_s4(m)))
def s4(I):
    I.set_hint(HINT)
    now, ep, b = base_world(I)
    amt = I.sym('amount', lo=1, hi=U128 // 34)
    add = I.sym('add_amount', lo=1, hi=U128 // 34)
    dur = I.sym('duration', lo=DAY, hi=YEAR)
    closed = I.fork(I.symbool('is_closed'))
    put_position(I, position('u-a', LP1, amt, dur, 'alice', I.sym('expiring_at', hi=U64 // NS) if closed else None))
    who = ['alice', 'bob', PMA][I.choose(3, 'sender')]
    denom = [LP1, LP2][I.choose(2, 'denom')]
    b.set(who, denom, add)
    ch = Chain(I, CONTRACTS_FM)
    pre = b.snapshot()
    st, resp = ch.execute(who, FM, manage_position('Expand', identifier='u-a'), [coin_v(denom, add)])
    allowed = (who in ('alice', PMA)) and (not closed) and denom == LP1
    I.observe('status', 'ok' if st == 'ok' else 'err')
    observe_position(I, 'u-a')
    observe_balances(I, b, [(FM, LP1), (FM, LP2), (who, denom)])
    if st != 'ok':
        I.cover('rejected', HINT)
        I.check('rejected_only_when_not_allowed', not allowed)
        return
    I.cover('ok', HINT)
    I.check('accepted_only_when_allowed', allowed)
    p = get_position(I, 'u-a')
    I.check('amount_grows_by_funds', smt.Eq(p.get('lp_asset').get('amount'), amt + add))
    I.check('owner_unchanged', p.get('receiver') == 'alice' and p.get('open') is True)
    I.check('contract_holds_the_lp', smt.Eq(b.get(FM, LP1), pre.get(FM, LP1) + add))


def _replay_s6(m):
    ch = m['_choices']
    who = ['alice', 'bob', 'pool_manager'][ch['sender']]
    d = _c08_state(m, with_weights=True)
    d['txs'] = [(who, _pos_msg('withdraw', identifier='u-a', emergency_unlock=True), [])]
    return d


@obligation('C08', 'S6.emergency_withdraw_sender_roles', entries=['execute', 'withdraw_position'], kind='S',
            statement='emergency withdrawal is accepted only from the position owner (a stranger and the pool manager are refused); the owner is the only user paid '
                      'and other positions are untouched (amounts of the penalty split: C09)',
            bounds='amount [1,2^128/17), times symbolic, sender in {owner, stranger, pool manager}; open or closed position; no farms',
            covers=['ok', 'rejected'], replay=fm_replay(lambda m: _replay_s6(m)))
def s6(I):
    I.set_hint(dict(HINT, total_w=10 ** 7, user_w=10 ** 6))
    now, ep, b = base_world(I)
    amt = I.sym('amount', lo=1, hi=U128 // 17)
    oth = I.sym('other_amount', lo=1, hi=U128 // 17)
    I.assume(b.get(FM, LP1) >= amt + oth)
    dur = I.sym('duration', lo=DAY, hi=YEAR)
    closed = I.fork(I.symbool('is_closed'))
    exp = I.sym('expiring_at', hi=U64 // NS) if closed else None
    if closed:
        I.assume(exp <= now + dur)
    put_position(I, position('u-a', LP1, amt, dur, 'alice', exp))
    put_position(I, position('u-b', LP1, oth, dur, 'bob', None))
    put_weight(I, FM, LP1, ep, I.sym('total_w', hi=U128))
    put_weight(I, 'alice', LP1, ep, I.sym('user_w', hi=U128))
    who = ['alice', 'bob', PMA][I.choose(3, 'sender')]
    ch = Chain(I, CONTRACTS_FM)
    pre = b.snapshot()
    others = snapshot_positions(I)
    st, resp = ch.execute(who, FM, manage_position('Withdraw', identifier='u-a', emergency_unlock=Some(True)), [])
    I.observe('status', 'ok' if st == 'ok' else 'err')
    observe_position(I, 'u-a')
    observe_position(I, 'u-b')
    observe_balances(I, b, [('alice', LP1), ('bob', LP1), (PMA, LP1)])
    if st != 'ok':
        I.cover('rejected', HINT)
        return
    I.cover('ok', HINT)
    I.check('emergency_exit_only_by_the_owner', who == 'alice')
    I.check('position_deleted', get_position(I, 'u-a') is None)
    I.check('other_position_untouched', pos_eq(I, get_position(I, 'u-b'), others['u-b']))
    I.check('nobody_else_paid', smt.And(smt.Eq(b.get('bob', LP1), pre.get('bob', LP1)), smt.Eq(b.get(PMA, LP1), pre.get(PMA, LP1))))
    I.check('owner_receives_at_most_the_recorded_amount', b.get('alice', LP1) - pre.get('alice', LP1) <= amt)

from . import lockdep   # noqa: E402,F401  (cross-contract locked-deposit obligations registered for this property)
