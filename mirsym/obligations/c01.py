"""C01 — pool reserves are always fully backed by the pool manager's real balances."""
import json
import z3

from .. import smt
from ..smt import simp
from ..values import *
from ..chain import Chain, bank_of
from .common import *
from .pm import *
from .c04 import CONTRACTS
from .c02 import MINLIQ
from . import c17
from .c17 import world, run_op, LPD, HINT as HINT17, _op_json

HINT = dict(HINT17)
HINT.update({'excess_uA': 5, 'excess_uB': 7, 'excess_uC': 0, 'excess_lp1': 0, 'excess_lp2': 3})
DENOMS = ('uA', 'uB', 'uC')


def reserves_sum(I, denom):
    tot = 0
    for pid in ('p1', 'p2'):
        p = get_pool(I, pid)
        for c in p.get('assets').e:
            if c.get('denom') == denom:
                tot = simp(tot + c.get('amount'))
    return tot


def _replay(op):
    from .c02 import _mints

    def build(m):
        fees = fees_of_model(m)
        steps = [{'op': 'set_pool', 'pool': pool_json('p1', ['uA', 'uB'], [6, 6], [m['x1'], m['y1']], 'constant_product', fees)},
                 {'op': 'set_pool', 'pool': pool_json('p2', ['uB', 'uC'], [6, 6], [m['x2'], m['y2']], 'constant_product', fees)}]
        tot = m['amount'] + m['amount_b']
        steps += _mints([('pool_manager', [('uA', m['x1'] + m['excess_uA']), ('uB', m['y1'] + m['x2'] + m['excess_uB']), ('uC', m['y2'] + m['excess_uC']),
                                           (LPD['p1'], MINLIQ + m['excess_lp1']), (LPD['p2'], MINLIQ + m['excess_lp2'])]),
                         ('user', [('uA', tot), ('uB', tot), ('uC', tot), (LPD['p1'], m['S1'] - MINLIQ - m['excess_lp1']),
                                   (LPD['p2'], m['S2'] - MINLIQ - m['excess_lp2'])])])
        msg, funds = _op_json(op, m)
        steps.append({'op': 'execute', 'contract': 'pool_manager', 'sender': 'user', 'funds': [coin_j(d, a) for d, a in sorted(funds)], 'msg': msg})
        return {'setup': {}, 'steps': steps}, len(steps) - 1
    return generic_replay(build)


def _ob_inv(op):
    def s(I):
        b, res, amt, amt_b = world(I, (True, True, True))
        I.set_hint(HINT)
        # excess: tokens sent to the contract outside pool operations (bank sends), never negative
        X = {}
        for d in DENOMS:
            X[d] = I.sym('excess_' + d, hi=U128 // 4)
            b.set(PM, d, simp(b.get(PM, d) + X[d]))
        XL = {}
        for pid in ('p1', 'p2'):
            XL[pid] = I.sym('excess_lp' + pid[1], hi=1000)
            b.set(PM, LPD[pid], simp(MINLIQ + XL[pid]))
            b.set('user', LPD[pid], simp(res[pid][2] - MINLIQ - XL[pid]))
            I.assume(res[pid][2] >= MINLIQ + XL[pid] + 1)
        lp_amt = I.sym('lp_amount', lo=1, hi=U128 // 8)
        I.assume(lp_amt <= b.get('user', LPD['p1']))
        I.assume(lp_amt <= b.get('user', LPD['p2']))
        ch = Chain(I, CONTRACTS)
        st, _ = run_op(I, ch, op, amt, amt_b, lp_amt)
        b = bank_of(I)
        I.observe('status', 'ok' if st == 'ok' else 'err')
        observe_pool(I, 'p1')
        observe_pool(I, 'p2')
        observe_bank(I, b, [(PM, d) for d in DENOMS] + [(PM, LPD['p1']), (PM, LPD['p2'])])
        if st != 'ok':
            I.outcome('rejected')
            return
        I.cover('ok', HINT)
        for d in DENOMS:
            bal = b.get(PM, d)
            rs = reserves_sum(I, d)
            I.check('balance_covers_reserves', bal >= rs)
            if op == 'single_sided_p1' and d == 'uA':
                # the indivisible unit of an odd single-asset deposit stays outside the reserves
                I.check('excess_changes_only_by_odd_unit', smt.Eq(bal - rs, X[d] + I.ctx.fmod(amt, 2)))
            else:
                I.check('excess_unchanged', smt.Eq(bal - rs, X[d]))
        for pid in ('p1', 'p2'):
            I.check('only_locked_minimum_liquidity_held', smt.Eq(b.get(PM, LPD[pid]), MINLIQ + XL[pid]))
    return s


for _op in c17.OPS:
    _route = _op.startswith('route')
    obligation('C01', 'S1.reserves_backed_after_%s' % _op,
               entries=['execute', 'swap::commands::swap', 'execute_swap_operations', 'provide_liquidity', 'withdraw_liquidity', 'reply', 'perform_swap'],
               kind='S', tier='thorough' if _route else 'quick',
               statement='from any state where the pool manager holds reserves + excess X_d >= 0 per denom (two pools sharing a denom) and MINLIQ + excess LP per pool: '
                         'after %s the balance still covers the summed reserves and the excess is unchanged (single-asset deposit: + amount mod 2)' % _op,
               bounds='two funded constant-product pools uA/uB and uB/uC, symbolic reserves, supplies, amounts, excess per denom',
               covers=['ok'], opts={'lazy_forks': True} if _route else {},
               replay=_replay(_op))(_ob_inv(_op))


# ---------------------------------------------------------------- routed swaps incl. routes that revisit a pool (the hop-chaining obligations of C04, shared)
from . import c04 as _c04r   # noqa: E402
share('C04', 'C01', 'R', lambda n: n.startswith('R1.route_hops_'))


# ---------------------------------------------------------------- pool creation next to a funded pool (the creation-fee obligations of C16, shared)
from . import c16 as _c16p   # noqa: E402
share('C16', 'C01', 'P', lambda n: n.startswith('S1.create_pool_fees_tf_'))

from . import lockdep   # noqa: E402,F401  (locked deposits: LP goes to the farm manager, reserves stay backed)

from . import stable3   # noqa: E402,F401  (three-asset stableswap accounting obligations registered for this property)
