"""C09 — emergency exit penalty: kernel obligations on calculate_emergency_penalty."""
import json
import z3

from .. import smt
from ..smt import simp
from ..values import *
from .common import *

CR = 'farm-manager'
DAY = 86400
YEAR = 31556926
CAP = 9 * 10 ** 17


def kpos(I, amount, dur, expiring_at, open_=None, ident='pos', receiver='user', denom='lp'):
    return mk('mantra_dex_std::farm_manager::Position', identifier=ident, lp_asset=coin_v(denom, amount),
              unlocking_duration=dur, open=(expiring_at.var == 'None') if open_ is None else open_,
              expiring_at=expiring_at, receiver=receiver)


def _penalty(I, pos, base, now):
    cell = [pos]
    return I.try_call('calculate_emergency_penalty', [Ref(cell, 0), base, now], CR)


def _reference(I, base, rem, d, w, a):
    """min(0.9, floor(floor(base * floor(rem*1e18/d) / 1e18) * floor(w*1e18/a) / 1e18)) in atomics"""
    frac = I.ctx.fdiv(simp(rem * E18), d)
    mult = I.ctx.fdiv(simp(w * E18), a)
    p1 = I.ctx.fdiv(simp(base * frac), E18)
    p2 = I.ctx.fdiv(simp(p1 * mult), E18)
    return smt.Min(p2, CAP) if not isinstance(p2, int) else min(p2, CAP)


HINT = {'amount': 10 ** 6, 'duration': 86400 * 30, 'base_penalty_atomics': 10 ** 17, 'now': 1000, 'expiring_at': 1000 + 86400 * 10, 'now2': 2000}


PROBES = [
    {'amount': 1000, 'duration': YEAR, 'base_penalty_atomics': 10 ** 17, 'now': 10 ** 6, 'expiring_at': 10 ** 6 + 3 * (YEAR // 4), 'now2': 10 ** 6 + 100},
    {'amount': 10 ** 9, 'duration': YEAR, 'base_penalty_atomics': 5 * 10 ** 17, 'now': 10 ** 6, 'expiring_at': 10 ** 6 + YEAR // 2, 'now2': 10 ** 6 + DAY},
    {'amount': 7, 'duration': DAY, 'base_penalty_atomics': E18, 'now': 10 ** 6, 'expiring_at': 10 ** 6 + DAY // 3, 'now2': 10 ** 6 + 7},
    {'amount': 10 ** 12, 'duration': 200 * DAY, 'base_penalty_atomics': 2 * 10 ** 17, 'now': 10 ** 6, 'expiring_at': 10 ** 6 + 150 * DAY, 'now2': 10 ** 6 + 50 * DAY},
    {'amount': 1, 'duration': YEAR, 'base_penalty_atomics': 9 * 10 ** 17, 'now': 5, 'expiring_at': 5 + YEAR, 'now2': 6},
]


def _setup(I, closed, suffix=''):
    I.set_hint(HINT)
    I.set_probes(PROBES)
    a = I.sym('amount' + suffix, lo=1, hi=U128)
    d = I.sym('duration' + suffix, lo=DAY, hi=YEAR)
    base = I.sym('base_penalty_atomics' + suffix, lo=0, hi=E18)
    now = I.sym('now' + suffix, bits=64)
    if closed:
        exp = I.sym('expiring_at' + suffix, bits=64)
        # a closed position expires at close time + unlocking duration, so expiring_at - now <= duration while locked
        e = Some(exp)
    else:
        exp = None
        e = NONE()
    return a, d, base, now, exp, e


@obligation('C09', 'K1.penalty_closed', entries=['calculate_emergency_penalty', 'get_position_remaining_duration', 'calculate_weight'], kind='K',
            statement='closed position: penalty <= 90%; penalty = min(90%, base (x) remaining/duration (x) weight/amount) with an 18-decimal floor at each step; '
                      'zero once expiring_at <= now',
            bounds='amount in [1, 2^128/17), duration in [1 day, 1 year], base in [0, 100%], now / expiring_at full u64 with expiring_at - now <= duration',
            covers=['ok'])
def k1(I):
    a, d, base, now, exp, e = _setup(I, True)
    I.assume(a * 17 < (1 << 128))
    I.assume(smt.Or(exp <= now, exp - now <= d))
    pos = kpos(I, a, d, e)
    st, r = _penalty(I, pos, base, now)
    if st == 'panic':
        I.outcome('panic')
        I.check('no_panic', False)
        return
    if is_err(r):
        I.outcome('err')
        I.check('no_error_in_valid_range', False)
        return
    I.cover('ok', HINT)
    p = r.f[0]
    I.check('at_most_cap', p <= CAP)
    rem = z3.If(exp >= now, exp - now, 0)
    I.check('zero_when_unlocked', smt.Implies(exp <= now, smt.Eq(p, 0)))
    sw, rw = I.try_call('calculate_weight', [Ref([pos.get('lp_asset')], 0), d], CR)
    w = rw.f[0]
    # reference: min(90%, base (x) remaining (x) multiplier) with 18-decimal floors at each product/ratio
    ref = _reference(I, base, rem, d, w, a)
    I.check('equals_capped_product', smt.Eq(p, ref))
    if I.opts.get('tier') == 'thorough':
        # exact (rational) value: base*rem*w/(d*a); compare cross-multiplied
        I.check('never_more_than_exact_formula', p * d * a <= base * rem * w)


@obligation('C09', 'K2.penalty_open', entries=['calculate_emergency_penalty'], kind='K',
            statement='open position: remaining fraction is 100%: penalty = min(90%, floor-product of base and weight multiplier), <= cap',
            bounds='as K1', covers=['ok'])
def k2(I):
    a, d, base, now, exp, e = _setup(I, False)
    I.assume(a * 17 < (1 << 128))
    pos = kpos(I, a, d, e)
    st, r = _penalty(I, pos, base, now)
    if st == 'panic' or is_err(r):
        I.check('no_failure_in_valid_range', False)
        return
    I.cover('ok', HINT)
    p = r.f[0]
    I.check('at_most_cap', p <= CAP)
    sw, rw = I.try_call('calculate_weight', [Ref([pos.get('lp_asset')], 0), d], CR)
    w = rw.f[0]
    ref = _reference(I, base, d, d, w, a)
    I.check('equals_capped_product', smt.Eq(p, ref))
    I.check('never_more_than_exact_formula', p * a <= base * w)


@obligation('C09', 'K3.penalty_decays', entries=['calculate_emergency_penalty'], kind='R',
            statement='t1 <= t2 => penalty(t2) <= penalty(t1) for the same closed position',
            bounds='as K1', covers=['both_ok'], opts={'check_timeout_ms': 120000})
def k3(I):
    a, d, base, now, exp, e = _setup(I, True)
    now2 = I.sym('now2', bits=64)
    I.assume(a * 17 < (1 << 128))
    I.assume(now <= now2)
    pos = kpos(I, a, d, e)
    s1, r1 = _penalty(I, pos, base, now)
    s2, r2 = _penalty(I, clone(pos), base, now2)
    if not (s1 == 'ok' and s2 == 'ok' and is_ok(r1) and is_ok(r2)):
        I.outcome('fail')
        return
    I.cover('both_ok', HINT)
    I.check('non_increasing_in_time', r2.f[0] <= r1.f[0])


# ---------------------------------------------------------------- handler: emergency withdrawal

from ..chain import Chain, bank_of
from .fm import *
from . import fm as _fm

HINT_S = {'amount': 10 ** 9, 'duration': DAY * 30, 'now_s': 20 * 86400 + 5, 'expiring_at': 30 * 86400, 'epoch': 20, 'fm_lp_balance': 10 ** 10,
          'base_penalty_atomics': 10 ** 17, 'f1_funded': 10 ** 9, 'f1_claimed': 0, 'f2_funded': 10 ** 9, 'f2_claimed': 0,
          'user_w': 10 ** 10, 'total_w': 10 ** 11}


PROBES_S = [
    {'amount': 1000, 'duration': YEAR, 'base_penalty_atomics': 10 ** 17, 'now_s': 20 * DAY + 5, 'expiring_at': 20 * DAY + 5 + 3 * (YEAR // 4), 'epoch': 20,
     'fm_lp_balance': 10 ** 6, 'is_closed': True, 'user_w': 16000, 'total_w': 10 ** 6, 'f1_funded': 10 ** 6, 'f1_claimed': 0, 'f2_funded': 10 ** 6, 'f2_claimed': 0},
    {'amount': 10 ** 9, 'duration': YEAR, 'base_penalty_atomics': 5 * 10 ** 17, 'now_s': 20 * DAY + 5, 'expiring_at': 20 * DAY + YEAR // 2, 'epoch': 20,
     'fm_lp_balance': 10 ** 10, 'is_closed': True, 'user_w': 10 ** 10, 'total_w': 10 ** 11, 'f1_funded': 10 ** 6, 'f1_claimed': 0, 'f2_funded': 10 ** 6, 'f2_claimed': 0},
]


def _replay_emergency(n_farms, owners, fixed_kinds=None):
    def build(m):
        ch = m['_choices']
        ep, now = m['epoch'], m['now_s']
        exp = m.get('expiring_at') if m.get('is_closed') else None
        farms = []
        for k in range(n_farms):
            kind = fixed_kinds[k] if fixed_kinds else KINDS[ch['farm%d_kind' % k]]
            funded, claimed = m['f%d_funded' % (k + 1)], m['f%d_claimed' % (k + 1)]
            if kind in ('active', 'future'):
                start, end = m.get('f%d_start' % (k + 1), ep - 1 if kind == 'active' else ep + 1), ep + 5
            elif kind == 'ended_unexpired':
                start, end = m.get('f%d_start' % (k + 1), ep - 1), ep
            elif kind == 'exhausted_in_window':
                start, end = m.get('f%d_start' % (k + 1), ep - 1), ep + 1
            else:
                start, end = 1, 3
            farms.append((_fid(k, n_farms), owners[k], LP1, 'uusd', funded, claimed, 1, start, end))
        return {'now_s': now, 'positions': [('u-a', LP1, m['amount'], m['duration'], 'alice', exp)], 'farms': farms,
                'weights': [('farm_manager', LP1, ep, m['total_w']), ('alice', LP1, ep, m['user_w'])],
                'mints': [('farm_manager', [(LP1, m['fm_lp_balance'])])],
                'config': {'emergency_unlock_penalty_atomics': str(m['base_penalty_atomics'])},
                'txs': [('alice', {'manage_position': {'action': {'withdraw': {'identifier': 'u-a', 'emergency_unlock': True}}}}, [])]}
    return fm_replay(build)


# activity of a farm on the position's LP token: started with budget left / not started yet / ended long ago and exhausted /
# exhausted (everything claimed) while still inside its emission window -- only the first kind is `currently active`
# 'ended_unexpired': past its preliminary end epoch with budget left and the expiration time not yet over -- still a currently active farm for the split
KINDS = ['active', 'future', 'expired', 'exhausted_in_window', 'ended_unexpired']
ACTIVE_KINDS = ('active', 'ended_unexpired')


def _fid(k, n):
    return ('f%d' if n < 10 else 'f%02d') % k


def _ob_emergency(n_farms, owners, fixed_kinds=None):
    def s(I):
        I.set_hint(HINT_S)
        I.set_probes(PROBES_S)
        base = I.sym('base_penalty_atomics', hi=E18)
        fm_config(I, penalty=base)
        now = I.sym('now_s', hi=U64 // NS - 2 * YEAR)
        ep = I.sym('epoch', lo=5, hi=10 ** 6)
        set_epoch(I, ep, now_s=now)
        b = bank_of(I)
        amt = I.sym('amount', lo=1, hi=U128 // 17)
        bal = I.sym('fm_lp_balance', hi=U128)
        I.assume(bal >= amt)
        b.set(FM, LP1, bal)
        dur = I.sym('duration', lo=DAY, hi=YEAR)
        closed = I.fork(I.symbool('is_closed'))
        if closed:
            exp = I.sym('expiring_at', hi=U64 // NS)
            I.assume(exp <= now + dur)
        else:
            exp = None
        put_position(I, position('u-a', LP1, amt, dur, 'alice', exp))
        # weights present for an open position (so that update_weights / reconcile have data)
        put_weight(I, FM, LP1, ep, I.sym('total_w', hi=U128))
        put_weight(I, 'alice', LP1, ep, I.sym('user_w', hi=U128))
        kinds = []
        for k in range(n_farms):
            kind = fixed_kinds[k] if fixed_kinds else KINDS[I.choose(len(KINDS), 'farm%d_kind' % k)]
            kinds.append(kind)
            funded = I.sym('f%d_funded' % (k + 1), lo=1, hi=U128)
            claimed = I.sym('f%d_claimed' % (k + 1), hi=U128)
            I.assume(claimed <= funded)
            if kind == 'active':
                # started at or before the current epoch (the boundary `start == current` included), budget left, not expired
                start, end = I.sym('f%d_start' % (k + 1), lo=1, hi=10 ** 6), simp(ep + 5)
                I.assume(start <= ep)
                I.assume(claimed < funded)
            elif kind == 'future':
                # starts after the current epoch (from the very next one)
                start, end = I.sym('f%d_start' % (k + 1), lo=1, hi=10 ** 6 + 4), simp(ep + 5)
                I.assume(smt.And(start > ep, start < end))
                I.assume(claimed < funded)
            elif kind == 'ended_unexpired':
                # the current epoch IS the preliminary end epoch (emission over), budget left, expiration (counted from the end) not reached
                start, end = I.sym('f%d_start' % (k + 1), lo=1, hi=10 ** 6), ep
                I.assume(start < ep)
                I.assume(claimed < funded)
            elif kind == 'exhausted_in_window':
                start, end = I.sym('f%d_start' % (k + 1), lo=1, hi=10 ** 6), simp(ep + 1)
                I.assume(start <= ep)
                I.assume(smt.Eq(claimed, funded))       # nothing left to emit: expired although the window is still open
            else:
                start, end = 1, 3
                I.assume(smt.Eq(claimed, funded))       # exhausted farm = expired
            put_farm(I, farm(_fid(k, n_farms), owners[k], LP1, 'uusd', funded, claimed, 1, start, end))
        ch = Chain(I, CONTRACTS_FM)
        pre = b.snapshot()
        st, resp = ch.execute('alice', FM, manage_position('Withdraw', identifier='u-a', emergency_unlock=Some(True)), [])
        unlocked = (exp <= now) if closed else False
        I.observe('status', 'ok' if st == 'ok' else 'err')
        observe_position(I, 'u-a')
        observe_balances(I, b, [('alice', LP1), (FC, LP1), (FM, LP1)] + [(o, LP1) for o in sorted(set(owners))])
        if st != 'ok':
            I.outcome('rejected')
            return
        I.cover('ok', HINT_S)
        paid_owner = simp(b.get('alice', LP1) - pre.get('alice', LP1))
        paid_fc = simp(b.get(FC, LP1) - pre.get(FC, LP1))
        act_owners = sorted(set(o for o, kd in zip(owners, kinds) if kd in ACTIVE_KINDS))
        paid_farm_owners = [simp(b.get(o, LP1) - pre.get(o, LP1)) for o in act_owners if o != 'alice']
        total_out = simp(pre.get(FM, LP1) - b.get(FM, LP1))
        I.check('position_deleted', _fm.get_position(I, 'u-a') is None)
        I.check('never_pays_out_more_than_recorded', total_out <= amt)
        I.check('owner_keeps_at_least_10_percent', paid_owner * 10 >= amt)
        # penalty = floor(amount * p) with p from the kernel (K1/K2): recompute through the same kernel
        # penalty rate from the reference formula (K1/K2), with the weight multiplier taken from calculate_weight (C10)
        wst, wr = I.try_call('calculate_weight', [Ref([coin_v(LP1, amt)], 0), dur], CR)
        I.check('unlocked_position_pays_no_penalty', smt.Implies(unlocked, smt.Eq(paid_owner, amt)))
        if wst == 'ok' and is_ok(wr) and not (closed and I.fork(unlocked)):
            rem = simp(exp - now) if closed else dur
            rate_ref = _reference(I, base, rem, dur, wr.f[0], amt)
            pen = I.ctx.fdiv(simp(amt * rate_ref), E18)
            I.check('owner_gets_amount_minus_penalty', smt.Eq(paid_owner + (paid_farm_owners_sum(I, b, pre, act_owners, 'alice')), amt - pen)
                    if 'alice' in act_owners else smt.Eq(paid_owner, amt - pen))
            half = I.ctx.fdiv(pen, 2)
            if not act_owners:
                I.check('all_penalty_to_fee_collector_without_active_farms', smt.Eq(paid_fc, pen))
            else:
                share = I.ctx.fdiv(half, len(act_owners))
                I.check('fee_collector_share', smt.Eq(paid_fc, z3.If(share > 0, pen - half, pen)))
                for o in act_owners:
                    if o != 'alice':
                        I.check('active_farm_owner_share', smt.Eq(b.get(o, LP1) - pre.get(o, LP1), share))
            inactive = sorted(set(owners) - set(act_owners) - {'alice'})
            for o in inactive:
                I.check('inactive_farm_owner_gets_nothing', smt.Eq(b.get(o, LP1), pre.get(o, LP1)))
            I.check('penalty_fully_accounted', total_out <= amt)
            I.check('dust_stays_below_owner_count', amt - total_out <= max(len(act_owners), 1))
    return s


def paid_farm_owners_sum(I, b, pre, act_owners, who):
    # when the position owner also owns an active farm, her balance includes her owner share
    return 0


for _n, _own in ((0, ()), (1, ('carol',)), (2, ('carol', 'dave')), (2, ('carol', 'carol'))):
    obligation('C09', 'S1.emergency_withdraw_%dfarms_%s' % (_n, 'shared' if (_n == 2 and _own[0] == _own[1]) else 'distinct'),
               entries=['execute', 'withdraw_position', 'calculate_emergency_penalty', 'is_farm_expired', 'get_farms_by_lp_denom',
                        'create_penalty_share_msg', 'update_weights', 'reconcile_user_state'], kind='S',
               statement='emergency withdrawal of an open or still-locked position: payout + penalty shares <= recorded amount; penalty = floor(amount*penalty rate); '
                         'fee collector gets penalty - floor(penalty/2) and each distinct owner of an ACTIVE farm floor(floor(penalty/2)/n) '
                         '(all to the fee collector when there is none or the share rounds to 0); future/expired farms get nothing; position deleted',
               bounds='amount [1,2^128/17), base penalty [0,100%%], %d farms each active / future / expired / exhausted inside its window, times symbolic' % _n,
               covers=['ok'], tier='quick' if _n < 2 else 'thorough', replay=_replay_emergency(_n, _own))(_ob_emergency(_n, _own))


# more farms on the LP token than one default page of the farm listing (10): the active farm is the LAST in identifier order
_MANY = 12
_MANY_KINDS = ['future'] * (_MANY - 1) + ['active']
_MANY_OWNERS = tuple(['carol'] * (_MANY - 1) + ['dave'])
obligation('C09', 'S2.emergency_withdraw_%d_farms_active_one_last' % _MANY,
           entries=['execute', 'withdraw_position', 'calculate_emergency_penalty', 'is_farm_expired', 'get_farms_by_lp_denom', 'create_penalty_share_msg'], kind='S',
           statement='as S1 with %d farms on the LP token, eleven not yet started and the only active one last in identifier order (beyond a default page of the farm '
                     'listing): its owner still receives the owners share, the owner of the inactive farms nothing' % _MANY,
           bounds='amount [1,2^128/17), base penalty [0,100%%], %d farms with fixed activity, times symbolic' % _MANY,
           covers=['ok'], replay=_replay_emergency(_MANY, _MANY_OWNERS, _MANY_KINDS))(_ob_emergency(_MANY, _MANY_OWNERS, _MANY_KINDS))


# two ACTIVE farms on the LP token in the quick tier (the four-kind product of S1's two-farm variants is thorough-only): one owner with both farms
# gets ONE share; two owners split the owners' half
for _own2 in (('carol', 'carol'), ('carol', 'dave')):
    obligation('C09', 'S3.emergency_withdraw_two_active_farms_%s' % ('one_owner' if _own2[0] == _own2[1] else 'two_owners'),
               entries=['execute', 'withdraw_position', 'calculate_emergency_penalty', 'is_farm_expired', 'get_farms_by_lp_denom', 'create_penalty_share_msg'], kind='S',
               statement='as S1 with two active farms on the LP token owned by %s: every distinct owner receives exactly one share floor(floor(penalty/2)/owners), '
                         'payout plus shares never exceed the recorded amount' % ('one address' if _own2[0] == _own2[1] else 'two addresses'),
               bounds='amount [1,2^128/17), base penalty [0,100%], both farms active (symbolic start, budgets), times symbolic', covers=['ok'],
               replay=_replay_emergency(2, _own2, ['active', 'active']))(_ob_emergency(2, _own2, ['active', 'active']))
