"""C09 — emergency exit penalty: kernel obligations on calculate_emergency_penalty."""
import json
import z3

from .. import smt
from ..smt import simp
from ..values import *
from .common import *

CR = 'farm-manager'
DAY = 86400
YEAR = 31556926
CAP = 9 * 10 ** 17


def position(I, amount, dur, expiring_at, open_=None, ident='pos', receiver='user', denom='lp'):
    return mk('mantra_dex_std::farm_manager::Position', identifier=ident, lp_asset=coin_v(denom, amount),
              unlocking_duration=dur, open=(expiring_at.var == 'None') if open_ is None else open_,
              expiring_at=expiring_at, receiver=receiver)


def _penalty(I, pos, base, now):
    cell = [pos]
    return I.try_call('calculate_emergency_penalty', [Ref(cell, 0), base, now], CR)


def _reference(I, base, rem, d, w, a):
    """min(0.9, floor(floor(base * floor(rem*1e18/d) / 1e18) * floor(w*1e18/a) / 1e18)) in atomics"""
    frac = I.ctx.fdiv(simp(rem * E18), d)
    mult = I.ctx.fdiv(simp(w * E18), a)
    p1 = I.ctx.fdiv(simp(base * frac), E18)
    p2 = I.ctx.fdiv(simp(p1 * mult), E18)
    return smt.Min(p2, CAP) if not isinstance(p2, int) else min(p2, CAP)


HINT = {'amount': 10 ** 6, 'duration': 86400 * 30, 'base_penalty_atomics': 10 ** 17, 'now': 1000, 'expiring_at': 1000 + 86400 * 10, 'now2': 2000}


def _setup(I, closed, suffix=''):
    I.set_hint(HINT)
    a = I.sym('amount' + suffix, lo=1, hi=U128)
    d = I.sym('duration' + suffix, lo=DAY, hi=YEAR)
    base = I.sym('base_penalty_atomics' + suffix, lo=0, hi=E18)
    now = I.sym('now' + suffix, bits=64)
    if closed:
        exp = I.sym('expiring_at' + suffix, bits=64)
        # a closed position expires at close time + unlocking duration, so expiring_at - now <= duration while locked
        e = Some(exp)
    else:
        exp = None
        e = NONE()
    return a, d, base, now, exp, e


@obligation('C09', 'K1.penalty_closed', entries=['calculate_emergency_penalty', 'get_position_remaining_duration', 'calculate_weight'], kind='K',
            statement='closed position: penalty <= 90%; penalty = min(90%, base (x) remaining/duration (x) weight/amount) with an 18-decimal floor at each step; '
                      'zero once expiring_at <= now',
            bounds='amount in [1, 2^128/17), duration in [1 day, 1 year], base in [0, 100%], now / expiring_at full u64 with expiring_at - now <= duration',
            covers=['ok'])
def k1(I):
    a, d, base, now, exp, e = _setup(I, True)
    I.assume(a * 17 < (1 << 128))
    I.assume(smt.Or(exp <= now, exp - now <= d))
    pos = position(I, a, d, e)
    st, r = _penalty(I, pos, base, now)
    if st == 'panic':
        I.outcome('panic')
        I.check('no_panic', False)
        return
    if is_err(r):
        I.outcome('err')
        I.check('no_error_in_valid_range', False)
        return
    I.cover('ok', HINT)
    p = r.f[0]
    I.check('at_most_cap', p <= CAP)
    rem = z3.If(exp >= now, exp - now, 0)
    I.check('zero_when_unlocked', smt.Implies(exp <= now, smt.Eq(p, 0)))
    sw, rw = I.try_call('calculate_weight', [Ref([pos.get('lp_asset')], 0), d], CR)
    w = rw.f[0]
    # reference: min(90%, base (x) remaining (x) multiplier) with 18-decimal floors at each product/ratio
    ref = _reference(I, base, rem, d, w, a)
    I.check('equals_capped_product', smt.Eq(p, ref))
    if I.opts.get('tier') == 'thorough':
        # exact (rational) value: base*rem*w/(d*a); compare cross-multiplied
        I.check('never_more_than_exact_formula', p * d * a <= base * rem * w)


@obligation('C09', 'K2.penalty_open', entries=['calculate_emergency_penalty'], kind='K',
            statement='open position: remaining fraction is 100%: penalty = min(90%, floor-product of base and weight multiplier), <= cap',
            bounds='as K1', covers=['ok'])
def k2(I):
    a, d, base, now, exp, e = _setup(I, False)
    I.assume(a * 17 < (1 << 128))
    pos = position(I, a, d, e)
    st, r = _penalty(I, pos, base, now)
    if st == 'panic' or is_err(r):
        I.check('no_failure_in_valid_range', False)
        return
    I.cover('ok', HINT)
    p = r.f[0]
    I.check('at_most_cap', p <= CAP)
    sw, rw = I.try_call('calculate_weight', [Ref([pos.get('lp_asset')], 0), d], CR)
    w = rw.f[0]
    ref = _reference(I, base, d, d, w, a)
    I.check('equals_capped_product', smt.Eq(p, ref))
    I.check('never_more_than_exact_formula', p * a <= base * w)


@obligation('C09', 'K3.penalty_decays', entries=['calculate_emergency_penalty'], kind='R',
            statement='t1 <= t2 => penalty(t2) <= penalty(t1) for the same closed position',
            bounds='as K1', covers=['both_ok'], opts={'check_timeout_ms': 120000})
def k3(I):
    a, d, base, now, exp, e = _setup(I, True)
    now2 = I.sym('now2', bits=64)
    I.assume(a * 17 < (1 << 128))
    I.assume(now <= now2)
    pos = position(I, a, d, e)
    s1, r1 = _penalty(I, pos, base, now)
    s2, r2 = _penalty(I, clone(pos), base, now2)
    if not (s1 == 'ok' and s2 == 'ok' and is_ok(r1) and is_ok(r2)):
        I.outcome('fail')
        return
    I.cover('both_ok', HINT)
    I.check('non_increasing_in_time', r2.f[0] <= r1.f[0])
