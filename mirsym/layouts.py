"""Field order of structs and variant order of enums, scraped from the sources the
build uses (the repo's contracts and the registry crates pinned by Cargo.lock).

MIR refers to fields by index and to enum variants by name + discriminant value, so
models that construct or inspect values of external types need this table.
"""
import glob
import os
import re
from .parse import split_top, match_close

REG = glob.glob(os.path.expanduser('~/.cargo/registry/src/*/'))
REG = REG[0] if REG else ''


def _lock_versions(lock='/repo/Cargo.lock'):
    out = {}
    try:
        txt = open(lock).read()
    except OSError:
        return out
    for m in re.finditer(r'name = "([^"]+)"\nversion = "([^"]+)"', txt):
        out.setdefault(m.group(1), m.group(2))
    return out


CRATES = ['cosmwasm-std', 'mantra-dex-std', 'cw-utils', 'cw-ownable', 'cw-storage-plus', 'mantra-utils', 'cw2']


def source_dirs():
    vers = _lock_versions()
    dirs = []
    for c in ['pool-manager', 'farm-manager', 'epoch-manager', 'fee-collector']:
        dirs.append((c.replace('-', '_'), '/repo/contracts/%s/src' % c))
    for c in CRATES:
        v = vers.get(c)
        d = os.path.join(REG, '%s-%s' % (c, v), 'src') if v else None
        if d and os.path.isdir(d):
            dirs.append((c.replace('-', '_'), d))
    return dirs


def _strip_comments(src):
    src = re.sub(r'//[^\n]*', '', src)
    src = re.sub(r'/\*.*?\*/', '', src, flags=re.S)
    return src


def _strip_attrs(s):
    # remove #[...] attributes (balanced)
    out = []
    i = 0
    n = len(s)
    while i < n:
        if s[i] == '#' and i + 1 < n and s[i + 1] == '[':
            j = match_close(s, i + 1)
            i = j + 1
            continue
        out.append(s[i])
        i += 1
    return ''.join(out)


class Layouts:
    def __init__(self):
        self.structs = {}   # (crate, modpath, name) -> [field names] (tuple structs: ['0','1',..])
        self.enums = {}     # (crate, modpath, name) -> [(variant, [field names])]
        self.by_name = {}   # name -> list of keys
        for crate, d in source_dirs():
            for root, _, files in os.walk(d):
                for f in files:
                    if f.endswith('.rs'):
                        p = os.path.join(root, f)
                        rel = os.path.relpath(p, d)[:-3].replace(os.sep, '::')
                        rel = re.sub(r'(::)?(mod|lib)$', '', rel)
                        self._scan(crate, rel, open(p).read())
        self._builtin()

    def _builtin(self):
        self._add_enum(('core', 'option', 'Option'), [('None', []), ('Some', ['0'])])
        self._add_enum(('core', 'result', 'Result'), [('Ok', ['0']), ('Err', ['0'])])
        self._add_enum(('core', 'ops', 'ControlFlow'), [('Continue', ['0']), ('Break', ['0'])])
        self._add_enum(('core', 'cmp', 'Ordering'), [('Less', []), ('Equal', []), ('Greater', [])])
        self._add_enum(('alloc', 'borrow', 'Cow'), [('Borrowed', ['0']), ('Owned', ['0'])])

    def _add_enum(self, key, variants):
        self.enums[key] = variants
        self.by_name.setdefault(key[2], []).append(('enum', key))

    def _add_struct(self, key, fields):
        self.structs[key] = fields
        self.by_name.setdefault(key[2], []).append(('struct', key))

    def _scan(self, crate, mod, src):
        src = _strip_comments(src)
        for m in re.finditer(r'\b(struct|enum)\s+([A-Za-z_][A-Za-z0-9_]*)\s*(<[^{;(]*>)?\s*(where[^{;]*)?([{(;])', src):
            kind, name, opener = m.group(1), m.group(2), m.group(5)
            if opener == ';':
                if kind == 'struct':
                    self._add_struct((crate, mod, name), [])
                continue
            i = m.end() - 1
            try:
                j = match_close(src, i)
            except Exception:
                continue
            body = _strip_attrs(src[i + 1:j])
            if kind == 'struct':
                if opener == '(':
                    n = len(split_top(body))
                    self._add_struct((crate, mod, name), [str(k) for k in range(n)])
                else:
                    self._add_struct((crate, mod, name), self._fields(body))
            else:
                variants = []
                for part in split_top(body):
                    part = part.strip()
                    if not part:
                        continue
                    mm = re.match(r'([A-Za-z_][A-Za-z0-9_]*)\s*(.*)$', part, re.S)
                    vname, rest = mm.group(1), mm.group(2).strip()
                    if rest.startswith('{'):
                        k = match_close(rest, 0)
                        variants.append((vname, self._fields(rest[1:k])))
                    elif rest.startswith('('):
                        k = match_close(rest, 0)
                        variants.append((vname, [str(x) for x in range(len(split_top(rest[1:k])))]))
                    else:
                        variants.append((vname, []))
                # variants appended by attribute macros
                pre = src[max(0, m.start() - 300):m.start()]
                pre = pre[max(pre.rfind('}'), pre.rfind(';')) + 1:]
                if 'cw_ownable_execute' in pre:
                    variants.append(('UpdateOwnership', ['0']))
                if 'cw_ownable_query' in pre:
                    variants.append(('Ownership', []))
                self._add_enum((crate, mod, name), variants)

    @staticmethod
    def _fields(body):
        out = []
        for part in split_top(body):
            part = part.strip()
            if not part:
                continue
            mm = re.match(r'(?:pub(?:\([^)]*\))?\s+)?(?:r#)?([A-Za-z_][A-Za-z0-9_]*)\s*:', part)
            if mm:
                out.append(mm.group(1))
        return out

    # ------------------------------------------------------------ lookup
    def _resolve(self, ty, kind, crate=None):
        """ty: a MIR type string such as `mantra_dex_std::pool_manager::Config` or `PoolInfo`
        or `std::result::Result<A, B>`.  Returns key or None."""
        base = type_base(ty)
        segs = base.split('::')
        name = segs[-1]
        cands = [k for (kd, k) in self.by_name.get(name, []) if kd == kind]
        if not cands:
            return None
        if len(cands) == 1:
            return cands[0]
        if crate:
            cr = crate.replace('-', '_')
            own = [k for k in cands if k[0] == cr]
            if own and (len(segs) == 1 or segs[0] not in [k[0] for k in cands]):
                cands = own
                if len(cands) == 1:
                    return cands[0]
        # disambiguate with path segments
        best = None
        bscore = -1
        for k in cands:
            full = [k[0]] + [x for x in k[1].split('::') if x] + [k[2]]
            score = 0
            for s in segs[:-1]:
                if s in full:
                    score += 1
            # prefer contracts' own crate when path is unqualified
            if score > bscore:
                best, bscore = k, score
        return best

    def enum_variants(self, ty, crate=None):
        k = self._resolve(ty, 'enum', crate)
        return self.enums.get(k) if k else None

    def struct_fields(self, ty, crate=None):
        k = self._resolve(ty, 'struct', crate)
        return self.structs.get(k) if k else None

    def is_enum(self, ty):
        return self._resolve(ty, 'enum') is not None

    def variant_index(self, ty, variant, crate=None):
        vs = self.enum_variants(ty, crate)
        if vs is None:
            return None
        for i, (n, _) in enumerate(vs):
            if n == variant:
                return i
        return None


def type_base(ty):
    """strip references, generics and lifetimes: `&'a mut std::vec::Vec<T>` -> `std::vec::Vec`"""
    t = ty.strip()
    while True:
        if t.startswith('&'):
            t = t[1:].lstrip()
            if t.startswith("'"):
                t = t.split(' ', 1)[1] if ' ' in t else t
            if t.startswith('mut '):
                t = t[4:]
            continue
        break
    i = t.find('<')
    if i > 0:
        t = t[:i]
    if t.endswith('::'):
        t = t[:-2]
    return t.strip()


_L = None


def layouts():
    global _L
    if _L is None:
        _L = Layouts()
    return _L


if __name__ == '__main__':
    L = layouts()
    print(len(L.structs), 'structs', len(L.enums), 'enums')
    for t in ['mantra_dex_std::pool_manager::PoolInfo', 'Coin', 'mantra_dex_std::farm_manager::Config', 'cosmwasm_std::Env',
              'Position', 'Farm', 'cosmwasm_std::Response', 'SubMsg', 'MessageInfo', 'BlockInfo']:
        print(t, L.struct_fields(t))
    for t in ['PoolType', 'error::ContractError', 'CosmosMsg', 'BankMsg', 'ReplyOn', 'mantra_dex_std::pool_manager::ExecuteMsg', 'PositionAction', 'cw_ownable::Action']:
        v = L.enum_variants(t)
        print(t, v if v is None or len(v) < 12 else (len(v), v[:5]))
