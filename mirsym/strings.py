"""Strings: concrete Python str, symbolic atoms (SymStr: an integer code compared by
equality only) and structured concatenations (Cat)."""
import hashlib
import z3
from . import smt
from .values import SymStr, Cat, Unsupported


def intern(s):
    """stable integer code of a concrete string (collision probability negligible)"""
    h = hashlib.sha1(s.encode()).digest()
    return int.from_bytes(h[:7], 'big') + (1 << 60)


def code_of(x):
    if isinstance(x, str):
        return intern(x)
    if isinstance(x, SymStr):
        return x.code
    raise Unsupported('code of structured string')


def _flat(x):
    """flatten to a tuple of parts, merging adjacent literals"""
    parts = []
    src = x.parts if isinstance(x, Cat) else (x,)
    for p in src:
        if isinstance(p, Cat):
            for q in _flat(p):
                _push(parts, q)
        else:
            _push(parts, p)
    return tuple(parts)


def _push(parts, p):
    if isinstance(p, str) and parts and isinstance(parts[-1], str):
        parts[-1] = parts[-1] + p
    elif isinstance(p, str) and p == '':
        return
    else:
        parts.append(p)


def cat(parts):
    f = _flat(Cat(parts))
    if not f:
        return ''
    if len(f) == 1 and isinstance(f[0], (str, SymStr)):
        return f[0]
    return Cat(f)


def str_eq(I, a, b):
    if isinstance(a, str) and isinstance(b, str):
        return a == b
    if isinstance(a, (str, SymStr)) and isinstance(b, (str, SymStr)):
        return smt.simp(smt.Eq(code_of(a), code_of(b)))
    fa = _flat(a) if isinstance(a, Cat) else (a,)
    fb = _flat(b) if isinstance(b, Cat) else (b,)
    # same shape: literals must agree position-wise, atoms compared pairwise
    if len(fa) == len(fb):
        conds = []
        ok = True
        for x, y in zip(fa, fb):
            if isinstance(x, str) and isinstance(y, str):
                if x != y:
                    return False
            elif isinstance(x, str) or isinstance(y, str):
                ok = False
                break
            else:
                conds.append(part_eq(x, y))
        if ok:
            return smt.And(*conds)
    # literal prefix mismatch decides inequality
    pa = fa[0] if isinstance(fa[0], str) else ''
    pb = fb[0] if isinstance(fb[0], str) else ''
    n = min(len(pa), len(pb))
    if pa[:n] != pb[:n]:
        return False
    sa = fa[-1] if isinstance(fa[-1], str) else ''
    sb = fb[-1] if isinstance(fb[-1], str) else ''
    n = min(len(sa), len(sb))
    if n and sa[-n:] != sb[-n:]:
        return False
    # an atom against a structured string: decided by an uninterpreted predicate keyed on the atom
    raise Unsupported('string equality between different shapes: %r vs %r' % (a, b))


def part_eq(x, y):
    if isinstance(x, SymStr) and isinstance(y, SymStr):
        return smt.Eq(x.code, y.code)
    if isinstance(x, SymStr) or isinstance(y, SymStr):
        raise Unsupported('string part kinds differ')
    return smt.Eq(x, y)   # integer parts (counters)
