"""Path-forking symbolic executor for parsed MIR.

Forking is done by re-execution: a path is identified by the list of decisions
taken at symbolic branch points; the explorer re-runs the scenario once per
feasible decision list.  This keeps the executor a plain recursive interpreter
(library models may call back into it, e.g. to run a closure)."""
import os
import re
import sys
import time

import z3

from . import smt
from .smt import is_conc, is_sym, simp
from .values import *
from .parse import parse_file, match_close, split_top, Func
from .layouts import layouts, type_base

sys.setrecursionlimit(20000)

INT_BITS = {'u8': 8, 'u16': 16, 'u32': 32, 'u64': 64, 'u128': 128, 'usize': 64,
            'i8': 8, 'i16': 16, 'i32': 32, 'i64': 64, 'i128': 128, 'isize': 64}
NEWTYPE_BITS = {'Uint64': 64, 'Uint128': 128, 'Uint256': 256, 'Uint512': 512,
                'Decimal': 128, 'Decimal256': 256, 'Timestamp': 64, 'U256': 256}


def strip_generics(s):
    out = []
    i = 0
    n = len(s)
    while i < n:
        if s.startswith('::<', i):
            j = match_close(s, i + 2)
            i = j + 1
            continue
        out.append(s[i])
        i += 1
    return ''.join(out)


def last_seg(path):
    p = strip_generics(path)
    # drop leading <T as Trait>:: forms are handled elsewhere
    return p.split('::')[-1]


class Program:
    """All parsed MIR dumps."""

    def __init__(self, dumps):
        # dumps: list of (crate, path)
        self.crates = {}
        self.closures = {}     # closure key -> Func
        self.by_method = {}    # method name -> [Func] for `<impl at ..>` functions
        self.consts = {}
        for crate, path in dumps:
            fs = parse_file(path, crate)
            self.crates[crate] = fs
            for name, f in fs.items():
                if f.kind == 'fn' and f.args:
                    t = f.args[0][1]
                    tt = t
                    if tt.startswith('&mut '):
                        tt = tt[5:]
                    elif tt.startswith('&'):
                        tt = tt[1:]
                    if tt.startswith('{closure@') and '{closure#' in name:
                        self.closures.setdefault(tt, f)
                if '<impl at ' in name and f.kind == 'fn':
                    m = strip_generics(name).split('::')[-1]
                    self.by_method.setdefault(m, []).append(f)
        self.order = [c for c, _ in dumps]

    def lookup_exact(self, name, prefer=None):
        if prefer and name in self.crates.get(prefer, {}):
            return self.crates[prefer][name]
        for c in self.order:
            f = self.crates[c].get(name)
            if f is not None:
                return f
        return None

    def lookup_fn(self, full, prefer=None):
        """resolve a callee path to a dumped function: exact name first, then `::`-suffixes inside
        the crate named by the leading path segment (names in a dump are trimmed paths)"""
        f = self.lookup_exact(full, prefer)
        if f is not None and f.kind == 'fn':
            return f
        segs = full.split('::')
        if len(segs) >= 2:
            cr = segs[0].replace('_', '-')
            fs = self.crates.get(cr)
            if fs is not None:
                for k in range(1, len(segs)):
                    g = fs.get('::'.join(segs[k:]))
                    if g is not None and g.kind == 'fn':
                        return g
            if prefer and prefer in self.crates and segs[0] == 'crate':
                fs = self.crates[prefer]
                for k in range(1, len(segs)):
                    g = fs.get('::'.join(segs[k:]))
                    if g is not None and g.kind == 'fn':
                        return g
        return None

    def lookup_suffix(self, name, prefer=None, kinds=('const', 'static')):
        """find an item whose name is a '::'-suffix of `name` or vice versa"""
        segs = name.split('::')
        order = ([prefer] if prefer else []) + [c for c in self.order if c != prefer]
        cr = segs[0].replace('_', '-')
        if cr in self.crates:
            order = [cr]
        for c in order:
            fs = self.crates.get(c, {})
            for k in range(len(segs)):
                cand = '::'.join(segs[k:])
                f = fs.get(cand)
                if f is not None and f.kind in kinds:
                    return f
        # crate-qualified reference, e.g. mantra_dex_std::lp_common::X
        return None


class Frame:
    __slots__ = ('fn', 'locals')

    def __init__(self, fn):
        self.fn = fn
        self.locals = {}


class CallCtx:
    __slots__ = ('callee', 'norm', 'args', 'dest_ty', 'fn', 'self_ty', 'trait', 'method', 'generics')


DEFAULT_ABSTRACTIONS = {}    # 'crate::fn name' -> handler(I, args): dumped functions replaced by typed models
MODELS = []      # (compiled regex, handler)
MODEL_EXACT = {}


def model(*names):
    def deco(h):
        for n in names:
            MODEL_EXACT[n] = h
        return h
    return deco


def model_re(pattern):
    def deco(h):
        MODELS.append((re.compile(pattern), h))
        return h
    return deco


def _short_trait(tr):
    """std::ops::FromResidual<X> -> FromResidual<X>"""
    i = tr.find('<')
    head = tr if i < 0 else tr[:i]
    tail = '' if i < 0 else tr[i:]
    return head.split('::')[-1] + tail


_PC_CACHE = {}


def parse_callee(callee):
    r = _PC_CACHE.get(callee)
    if r is None:
        r = _parse_callee(callee)
        _PC_CACHE[callee] = r
    return r


def _parse_callee(callee):
    """split `<T as Trait<..>>::method::<G>` / `Type::<G>::method::<H>` into
    (self_ty, trait, method, norm, full).  `norm` is the key library models match on."""
    self_ty = trait = None
    s = callee
    if s.startswith('<'):
        j = match_close(s, 0)
        inner = s[1:j]
        rest = s[j + 1:]
        from .parse import find_top
        k = find_top(inner, ' as ')
        if k >= 0:
            self_ty = inner[:k].strip()
            trait = _short_trait(inner[k + 4:].strip())
        else:
            self_ty = inner.strip()
        method = strip_generics(rest).lstrip(':')
        if trait:
            norm = '<%s as %s>::%s' % (self_ty, strip_generics(trait), method)
        else:
            norm = '<%s>::%s' % (self_ty, method)
        return self_ty, trait, method, norm, norm
    full = strip_generics(s)
    segs = full.split('::')
    method = segs[-1]
    self_ty = '::'.join(segs[:-1]) if len(segs) > 1 else None
    norm = full
    if len(segs) >= 3 and segs[-2][:1].isupper():
        norm = segs[-2] + '::' + segs[-1]
    return self_ty, None, method, norm, full


class Interp:
    def __init__(self, prog, decisions, stats, opts=None):
        self.prog = prog
        self.opts = opts or {}
        self.ctx = smt.SolverCtx(stats, timeout_ms=self.opts.get('fork_timeout_ms', 1500), seed=self.opts.get('seed', 0))
        self.decisions = list(decisions)
        self.pos = 0
        self.alternatives = []
        self.stats = stats
        self.funcs_run = stats.setdefault('functions', {})
        self.const_cache = {}
        self.depth = 0
        self.world = None
        self.abstractions = self.opts.get('abstract', {})   # fn name -> handler(I, args)
        self.loop_bound = self.opts.get('loop_bound', 64)
        self.steps = 0
        self.max_steps = self.opts.get('max_steps', 2000000)
        self.notes = []
        self.hint_eqs = None
        self.choices = {}
        self.hint_values = None
        self.quick_ms = self.opts.get('quick_fork_ms', 400)
        self.lazy = self.opts.get('lazy_forks', False)
        self.decided = {}
        self.L = layouts()

    # ------------------------------------------------------------ forking
    def _commit(self, cond, d, record=True):
        self.ctx.add(cond if d else z3.Not(cond))
        self.decided[cond.get_id()] = (d, cond)
        if record:
            self.decisions.append(d)
        self.pos += 1
        return d

    def fork(self, cond):
        cond = simp(cond)
        if isinstance(cond, bool):
            return cond
        if self.pos < len(self.decisions):
            return self._commit(cond, self.decisions[self.pos], record=False)
        dd = self.ctx.decide(cond)
        if dd is None:
            # the same condition was already decided on this path (e.g. quote vs execution)
            prev = self.decided.get(cond.get_id())
            if prev is not None and prev[1].eq(cond):
                dd = prev[0]
        if dd is not None:
            return self._commit(cond, dd)
        w = self.ctx.weval(cond)
        if self.opts.get('concolic') is not None:
            # probe pass: follow the concrete candidate only (no alternatives, no solver); a branch the candidate cannot decide ends the pass
            if w is True or w is False:
                return self._commit(cond, w)
            raise Infeasible()
        if w is True or w is False:
            # the witness satisfies one side: that side is feasible; the other gets one short query
            # (or none at all in lazy mode: it is explored and judged by the checks made on it)
            if self.lazy:
                other = 'unknown'
                self.stats['lazy_forks'] = self.stats.get('lazy_forks', 0) + 1
            else:
                other = self._feasible(z3.Not(cond) if w else cond, quick=True)
            if other != 'unsat':
                self.alternatives.append(self.decisions[:self.pos] + [not w])
            return self._commit(cond, w)
        if self.lazy:
            self.stats['lazy_forks'] = self.stats.get('lazy_forks', 0) + 1
            self.alternatives.append(self.decisions[:self.pos] + [False])
            return self._commit(cond, True)
        rt = self._feasible(cond)
        if rt == 'unsat':
            return self._commit(cond, False)
        mt = self.ctx.last_solver.model() if (rt == 'sat' and self.ctx.last_solver is not None) else None
        rf = self._feasible(z3.Not(cond))
        if rf == 'unsat':
            if mt is not None:
                self.ctx.witness_from_model(mt)
            return self._commit(cond, True)
        self.alternatives.append(self.decisions[:self.pos] + [False])
        if mt is not None:
            self.ctx.witness_from_model(mt)
        return self._commit(cond, True)

    def _feasible(self, cond, quick=False):
        """'sat' | 'unsat' | 'unknown'.  A concrete witness of the current pc (seeded by the obligation's
        hint, refreshed from solver models) answers the side it satisfies without a solver call."""
        w = self.ctx.weval(cond)
        if w is True:
            self.stats['witness_sat'] = self.stats.get('witness_sat', 0) + 1
            return 'sat'
        if quick:
            self.ctx.set_timeout(self.quick_ms)
        r = self.ctx.check(cond)
        if quick:
            self.ctx.set_timeout(self.ctx.timeout_ms)
        return r

    def set_hint(self, values):
        """concrete witness values for the inputs, used only to speed up feasibility queries"""
        self.hint_values = dict(values)
        if self.opts.get('concolic') is not None:
            self.hint_values.update(self.opts['concolic'])          # probe pass: the candidate's values take precedence
        self.ctx.set_witness(self.hint_values)

    def choose(self, n, label=''):
        """nondeterministic choice among n alternatives (all explored)"""
        for i in range(n - 1):
            b = self.ctx.fresh('choice_' + label, 'bool')
            if self.fork(b):
                self.choices[label] = i
                return i
        self.choices[label] = n - 1
        return n - 1

    def assume(self, cond):
        cond = simp(cond)
        if cond is True:
            return
        self.ctx.add(cond)
        if cond is False:
            raise Infeasible()

    def assume_checked(self, cond):
        self.assume(cond)
        if self.ctx.check() == 'unsat':
            raise Infeasible()

    def fresh_int(self, name, lo=0, hi=None, bits=None):
        v = z3.Int(name)
        if bits is not None:
            hi = (1 << bits) - 1
        self.ctx.set_bounds(v, lo, hi)
        if self.ctx.wit is not None and name not in self.ctx.wit:
            self.ctx.wit_define(v, lo if lo is not None else 0)
        if lo is not None:
            self.ctx.add(v >= lo)
        if hi is not None:
            self.ctx.add(v <= hi)
        return v

    def fresh_tmp(self, base, lo=0, hi=None):
        v = self.ctx.fresh(base)
        self.ctx.set_bounds(v, lo, hi)
        self.ctx.wit_define(v, lo if lo is not None else 0)
        if self.ctx.wit is not None and name not in self.ctx.wit:
            self.ctx.wit_define(v, lo if lo is not None else 0)
        if lo is not None:
            self.ctx.add(v >= lo)
        if hi is not None:
            self.ctx.add(v <= hi)
        return v

    def concretize_int(self, v, lo, hi, what=''):
        """fork over a small integer range"""
        v = simp(v)
        if is_conc(v):
            return v
        if hi - lo > 16:
            raise Unsupported('symbolic index over large range: ' + what)
        for k in range(lo, hi):
            if self.fork(v == k):
                return k
        self.assume(v == hi)
        return hi

    # ------------------------------------------------------------ string predicates (uninterpreted)
    def strlen(self, s):
        f = self.ctx.uf.get('strlen')
        if f is None:
            f = z3.Function('strlen', z3.IntSort(), z3.IntSort())
            self.ctx.uf['strlen'] = f
        t = f(s.code)
        key = ('strlen', s.code.get_id() if hasattr(s.code, 'get_id') else s.code)
        if key not in self.const_cache:
            self.const_cache[key] = True
            self.ctx.add(z3.And(t >= 0, t <= 1 << 20))
        return t

    def strpred(self, kind, s, p):
        name = 'str_%s_%s' % (kind, p)
        f = self.ctx.uf.get(name)
        if f is None:
            f = z3.Function(name, z3.IntSort(), z3.BoolSort())
            self.ctx.uf[name] = f
        return f(s.code)

    def addr_valid(self, s):
        """opaque predicate: is this string a valid bech32 address"""
        from .strings import code_of
        if isinstance(s, str):
            v = z3.Bool('addr_valid:' + s)
            if self.ctx.wit is not None and ('addr_valid:' + s) not in self.ctx.wit:
                self.ctx.wit_define(v, not s.startswith('not-'))
            return v
        f = self.ctx.uf.get('addr_valid')
        if f is None:
            f = z3.Function('addr_valid', z3.IntSort(), z3.BoolSort())
            self.ctx.uf['addr_valid'] = f
        return f(smt.toz(code_of(s)))

    # ------------------------------------------------------------ types
    def place_type(self, fn, place):
        local, projs = place
        ty = fn.locals.get(local)
        for p in projs:
            if ty is None:
                return None
            if p[0] == 'field':
                ty = p[2]
            elif p[0] == 'deref':
                ty = deref_type(ty)
            elif p[0] == 'downcast':
                pass
            elif p[0] in ('index', 'constindex'):
                ty = elem_type(ty)
            else:
                return None
        return ty

    def operand_type(self, fn, op):
        if op[0] in ('move', 'copy'):
            return self.place_type(fn, op[1])
        txt = op[1]
        m = re.match(r'^-?\d+_([iu](?:\d+|size))$', txt)
        if m:
            return m.group(1)
        if txt in ('true', 'false'):
            return 'bool'
        return None

    # ------------------------------------------------------------ places
    def resolve(self, fr, place):
        local, projs = place
        c, k = fr.locals, local
        for p in projs:
            try:
                v = c[k]
            except (KeyError, IndexError):
                raise Unsupported('read of unset place _%s%s in %s' % (local, projs, fr.fn.name))
            kind = p[0]
            if kind == 'deref':
                if isinstance(v, Ref):
                    c, k = v.c, v.k
                # else: value-like reference (&str etc.): stay
            elif kind == 'field':
                if isinstance(v, (St, En, Clo)):
                    c, k = v.f, p[1]
                elif isinstance(v, UninitBox):
                    if p[2].startswith('['):
                        c, k = v.slot, 0
                    # else stay on the box
                elif p[1] == 0 and not isinstance(v, (Vc, Mp)):
                    pass    # newtype over a scalar
                else:
                    raise Unsupported('field %d of %r in %s' % (p[1], type(v).__name__, fr.fn.name))
            elif kind == 'downcast':
                if isinstance(v, En):
                    if v.var != p[1]:
                        raise Unsupported('downcast %s on variant %s in %s' % (p[1], v.var, fr.fn.name))
                else:
                    raise Unsupported('downcast on non-enum %r' % (v,))
            elif kind == 'index':
                idx = fr.locals[p[1]]
                if isinstance(v, Ref):
                    v = v.get()
                if not isinstance(v, Vc):
                    raise Unsupported('index on %r' % (type(v).__name__,))
                idx = self.concretize_int(idx, 0, max(len(v.e) - 1, 0), 'index')
                c, k = v.e, idx
            elif kind == 'constindex':
                if not isinstance(v, Vc):
                    raise Unsupported('constindex on %r' % (type(v).__name__,))
                i = p[1]
                if p[3]:
                    i = len(v.e) - i
                c, k = v.e, i
            else:
                raise Unsupported('projection ' + kind)
        return c, k

    def read(self, fr, place):
        c, k = self.resolve(fr, place)
        try:
            return c[k]
        except (KeyError, IndexError):
            raise Unsupported('read of unset place _%s%s in %s' % (place[0], place[1], fr.fn.name))

    def write(self, fr, place, v):
        c, k = self.resolve(fr, place)
        if isinstance(c, list) and k >= len(c):
            while len(c) <= k:
                c.append(None)
        c[k] = v

    # ------------------------------------------------------------ operands / constants
    def operand(self, fr, op):
        kind = op[0]
        if kind == 'move':
            return self.read(fr, op[1])
        if kind == 'copy':
            v = self.read(fr, op[1])
            if isinstance(v, (St, En, Vc, Clo, Mp)):
                return clone(v)
            return v
        return self.const(fr, op[1])

    def const(self, fr, txt):
        m = re.match(r'^(-?\d+)_([iu](?:\d+|size))$', txt)
        if m:
            return int(m.group(1))
        if txt == 'true':
            return True
        if txt == 'false':
            return False
        if txt == '()':
            return UNIT
        if txt.startswith('"'):
            return _unescape(txt)
        if txt.startswith('b"'):
            return _unescape_bytes(txt[1:])
        if txt.startswith("'") and txt.endswith("'"):
            return _unescape('"' + txt[1:-1] + '"')
        if txt.startswith('ZeroSized: '):
            ty = txt[11:]
            if ty.startswith('{closure@'):
                return Clo(ty, [])
            m = re.match(r'^.*\{(.*)\}$', ty)
            if ty.startswith(('fn(', 'for<')) and m:
                return FnItem(m.group(1))
            return Opaque('zst', ty)
        if re.match(r'^-?\d+(\.\d+)?(e-?\d+)?f(32|64)$', txt):
            raise Unsupported('float constant ' + txt)
        if txt.startswith('{alloc'):
            raise Unsupported('alloc constant ' + txt[:60])
        ec = external_const(txt)
        if ec is not None:
            return ec
        # named item
        crate = fr.fn.src if fr else None
        key = (crate, txt)
        if key in self.const_cache:
            return clone(self.const_cache[key])
        name = txt
        f = self.prog.lookup_exact(name, crate)
        if f is None or f.kind == 'fn':
            f2 = self.prog.lookup_suffix(strip_generics(name), crate)
            if f2 is not None:
                f = f2
        if f is not None and f.kind in ('const', 'static'):
            if f.const_value is not None:
                v = self.const(Frame(f), f.const_value[6:] if f.const_value.startswith('const ') else f.const_value)
            else:
                v = self.call_fn(f, [])
            self.const_cache[key] = v
            return clone(v)
        return FnItem(txt)

    # ------------------------------------------------------------ rvalues
    def rvalue(self, fr, rv, dest):
        kind = rv[0]
        if kind == 'use':
            return self.operand(fr, rv[1])
        if kind == 'ref' or kind == 'rawptr':
            c, k = self.resolve(fr, rv[2])
            v = c.get(k) if isinstance(c, dict) else (c[k] if k < len(c) else None)
            # reborrow of a value-like reference (&*x where x: &str) yields the value
            projs = rv[2][1]
            if projs and projs[-1][0] == 'deref' and not isinstance(self._peek_parent(fr, rv[2]), Ref):
                return v
            return Ref(c, k, rv[1])
        if kind == 'binop':
            a = self.operand(fr, rv[2])
            b = self.operand(fr, rv[3])
            ty = self.operand_type(fr.fn, rv[2]) or self.operand_type(fr.fn, rv[3])
            return self.binop(rv[1], a, b, ty)
        if kind == 'unop':
            a = self.operand(fr, rv[2])
            return self.unop(rv[1], a)
        if kind == 'discr':
            v = self.read(fr, rv[1])
            return self.discriminant(v, self.place_type(fr.fn, rv[1]), fr.fn.src)
        if kind == 'cast':
            v = self.operand(fr, rv[1])
            return self.cast(fr, v, rv[1], rv[2], rv[3])
        if kind == 'tuple':
            if not rv[1]:
                return UNIT
            return St('()', [self.operand(fr, o) for o in rv[1]])
        if kind == 'array':
            return Vc([self.operand(fr, o) for o in rv[1]])
        if kind == 'repeat':
            n = rv[2]
            m = re.match(r'^(?:const )?(\d+)_usize$', n)
            if not m:
                raise Unsupported('repeat count ' + n)
            v = self.operand(fr, rv[1])
            return Vc([clone(v) for _ in range(int(m.group(1)))])
        if kind == 'closure':
            return Clo(rv[1], [self.operand(fr, o) for _, o in rv[2]], [n for n, _ in rv[2]])
        if kind == 'adt':
            return self.aggregate(fr, rv, dest)
        if kind == 'len':
            v = self.read(fr, rv[1])
            if isinstance(v, Ref):
                v = v.get()
            return len(v.e)
        raise Unsupported('rvalue ' + kind)

    def _peek_parent(self, fr, place):
        local, projs = place
        try:
            return self.read(fr, (local, projs[:-1]))
        except Unsupported:
            return None

    def aggregate(self, fr, rv, dest):
        path, fields = rv[1], rv[2]
        vals = [self.operand(fr, o) for _, o in fields]
        names = [n for n, _ in fields]
        if names and names[0] is None:
            names = None
        name = last_seg(path)
        crate = fr.fn.src
        dty = self.place_type(fr.fn, dest) if dest is not None else None
        # enum variant?
        segs = strip_generics(path).split('::')
        ekey = None
        if dty is not None:
            k = self.L._resolve(dty, 'enum', crate)
            if k is not None and any(n == name for n, _ in self.L.enums[k]):
                ekey = k
        if ekey is None and len(segs) >= 2:
            parent = '::'.join(segs[:-1])
            k = self.L._resolve(parent, 'enum', crate)
            if k is not None and any(n == name for n, _ in self.L.enums[k]):
                ekey = k
        if ekey is not None:
            if names is None:
                for n, fn_ in self.L.enums[ekey]:
                    if n == name and fn_ and not fn_[0].isdigit() and len(fn_) == len(vals):
                        names = fn_
            return En(qual(ekey), name, vals, names)
        skey = self.L._resolve(dty or path, 'struct', crate)
        if names is None and skey is not None:
            sf = self.L.structs[skey]
            if sf and len(sf) == len(vals):
                names = sf
        return St(skey[2] if skey else (type_base(dty).split('::')[-1] if dty else last_seg(path)), vals, names)

    def discriminant(self, v, ty, crate=None):
        if isinstance(v, Ref):
            v = v.get()
        if isinstance(v, bool):
            return 1 if v else 0
        if not isinstance(v, En):
            raise Unsupported('discriminant of %r' % (type(v).__name__,))
        if v.short == 'Ordering' and v.var in ('Less', 'Equal', 'Greater'):
            return {'Less': 255, 'Equal': 0, 'Greater': 1}[v.var]     # i8 discriminants -1, 0, 1 (printed as u8)
        for t in (v.ty, ty):
            if t:
                i = self.L.variant_index(t, v.var, crate)
                if i is not None:
                    return i
        raise Unsupported('unknown variant index %s::%s (%s)' % (v.ty, v.var, ty))

    def binop(self, op, a, b, ty):
        bits = INT_BITS.get(ty or '', None)
        signed = bool(ty) and ty.startswith('i')
        if op in ('Eq', 'Ne'):
            r = self.values_eq(a, b)
            return r if op == 'Eq' else smt.Not(r)
        if op == 'Lt':
            return simp(a < b)
        if op == 'Le':
            return simp(a <= b)
        if op == 'Gt':
            return simp(a > b)
        if op == 'Ge':
            return simp(a >= b)
        if op in ('AddWithOverflow', 'SubWithOverflow', 'MulWithOverflow'):
            if bits is None:
                raise Unsupported('overflow op without int type: %s' % ty)
            r = a + b if op[0] == 'A' else (a - b if op[0] == 'S' else a * b)
            lo, hi = (-(1 << (bits - 1)), (1 << (bits - 1)) - 1) if signed else (0, (1 << bits) - 1)
            ov = smt.Or(r < lo, r > hi)
            return St('()', [simp(r), simp(ov)])
        if op in ('Add', 'Sub', 'Mul', 'AddUnchecked', 'SubUnchecked', 'MulUnchecked'):
            if isinstance(a, bool) or isinstance(b, bool):
                raise Unsupported('arith on bool')
            r = a + b if op[0] == 'A' else (a - b if op[0] == 'S' else a * b)
            if op.endswith('Unchecked'):
                return simp(r)
            return self.wrap(r, bits, signed)
        if op in ('Div', 'Rem'):
            if signed and not (is_conc(a) and is_conc(b)):
                raise Unsupported('symbolic signed division')
            if is_conc(a) and is_conc(b):
                if b == 0:
                    raise RustPanic('division by zero')
                if signed:
                    q = abs(a) // abs(b)
                    q = q if (a >= 0) == (b >= 0) else -q
                    return q if op == 'Div' else a - q * b
                return a // b if op == 'Div' else a % b
            if self.fork(smt.Eq(b, 0)):
                raise RustPanic('division by zero')
            return self.ctx.fdiv(a, b) if op == 'Div' else self.ctx.fmod(a, b)
        if op in ('BitAnd', 'BitOr', 'BitXor'):
            if isinstance(a, (bool, z3.BoolRef)) or isinstance(b, (bool, z3.BoolRef)):
                if op == 'BitAnd':
                    return smt.And(a, b)
                if op == 'BitOr':
                    return smt.Or(a, b)
                return smt.Ne(a, b)
            if is_conc(a) and is_conc(b):
                return a & b if op == 'BitAnd' else (a | b if op == 'BitOr' else a ^ b)
            raise Unsupported('symbolic bit operation')
        if op in ('Shl', 'Shr', 'ShlUnchecked', 'ShrUnchecked'):
            if is_conc(b):
                if op.startswith('Shl'):
                    return self.wrap(a * (1 << b), bits, signed)
                return self.ctx.fdiv(a, 1 << b) if not is_conc(a) else a >> b
            raise Unsupported('symbolic shift amount')
        if op == 'Cmp':
            if self.fork(a < b):
                return En('Ordering', 'Less')
            if self.fork(smt.Eq(a, b)):
                return En('Ordering', 'Equal')
            return En('Ordering', 'Greater')
        raise Unsupported('binop ' + op)

    def wrap(self, r, bits, signed=False):
        r = simp(r)
        if bits is None:
            return r
        if is_conc(r):
            if signed:
                r &= (1 << bits) - 1
                return r - (1 << bits) if r >= (1 << (bits - 1)) else r
            return r & ((1 << bits) - 1)
        if signed:
            raise Unsupported('symbolic signed wrap')
        # in range?  (usual case: an overflow assert preceded)
        m = 1 << bits
        if self.ctx.check(z3.Or(r < 0, r >= m)) == 'unsat':
            return r
        return self.ctx.fmod(r, m)

    def unop(self, op, a):
        if op == 'Not':
            if isinstance(a, (bool, z3.BoolRef)):
                return simp(smt.Not(a))
            raise Unsupported('bitwise not on int')
        if op == 'Neg':
            return simp(-a)
        if op == 'PtrMetadata':
            v = a.get() if isinstance(a, Ref) else a
            if isinstance(v, Vc):
                return len(v.e)
            if isinstance(v, str):
                return len(v.encode())
            raise Unsupported('PtrMetadata of %r' % (type(v).__name__,))
        raise Unsupported('unop ' + op)

    def cast(self, fr, v, operand, ty, ck):
        if ck.startswith('IntToInt'):
            sty = self.operand_type(fr.fn, operand)
            tb = INT_BITS.get(ty)
            sb = INT_BITS.get(sty or '')
            if isinstance(v, bool):
                return 1 if v else 0
            if isinstance(v, z3.BoolRef):
                return z3.If(v, 1, 0)
            if isinstance(v, En):      # C-like enum to int
                return self.discriminant(v, sty, fr.fn.src)
            if tb is None:
                raise Unsupported('IntToInt to ' + ty)
            if ty.startswith('i') or (sty or '').startswith('i'):
                if is_conc(v):
                    return self.wrap(v, tb, ty.startswith('i'))
                if (sty or '').startswith('i'):
                    raise Unsupported('symbolic signed cast')
            if sb is not None and sb <= tb:
                return v
            return self.wrap(v, tb, False)
        if ck.startswith(('PointerCoercion', 'Transmute', 'PtrToPtr', 'Subtype')):
            if isinstance(v, FnItem) or True:
                return v
        raise Unsupported('cast kind ' + ck)

    # ------------------------------------------------------------ equality on values
    def values_eq(self, a, b):
        """structural equality as a Bool term (no forking)"""
        if isinstance(a, Ref):
            a = a.get()
        if isinstance(b, Ref):
            b = b.get()
        if isinstance(a, (St, Clo)) and isinstance(b, (St, Clo)):
            if len(a.f) != len(b.f):
                return False
            return smt.And(*[self.values_eq(x, y) for x, y in zip(a.f, b.f)])
        if isinstance(a, En) and isinstance(b, En):
            if a.var != b.var:
                return False
            return smt.And(*[self.values_eq(x, y) for x, y in zip(a.f, b.f)])
        if isinstance(a, Vc) and isinstance(b, Vc):
            if len(a.e) != len(b.e):
                return False
            return smt.And(*[self.values_eq(x, y) for x, y in zip(a.e, b.e)])
        if isinstance(a, (str, SymStr, Cat)) or isinstance(b, (str, SymStr, Cat)):
            from .strings import str_eq
            return str_eq(self, a, b)
        if isinstance(a, (Opaque, FnItem)) or isinstance(b, (Opaque, FnItem)):
            raise Unsupported('equality on opaque values %r %r' % (a, b))
        return simp(smt.Eq(a, b))

    # ------------------------------------------------------------ execution
    def call_fn(self, fn, args):
        key = '%s::%s' % (fn.src, fn.name)
        h = self.abstractions.get(key) or self.abstractions.get(fn.name) or DEFAULT_ABSTRACTIONS.get(key)
        if h is not None:
            self.funcs_run['abstracted:' + key] = self.funcs_run.get('abstracted:' + key, 0) + 1
            return h(self, args)
        self.funcs_run[key] = self.funcs_run.get(key, 0) + 1
        fr = Frame(fn)
        if len(args) != len(fn.args):
            raise Unsupported('arity mismatch calling %s: %d vs %d' % (fn.name, len(args), len(fn.args)))
        for (l, _), v in zip(fn.args, args):
            fr.locals[l] = v
        self.depth += 1
        if self.depth > 400:
            raise Unsupported('call depth exceeded in ' + fn.name)
        try:
            return self.run(fr)
        finally:
            self.depth -= 1

    def run(self, fr):
        fn = fr.fn
        bb = 0
        visits = {}
        while True:
            blk = fn.blocks.get(bb)
            if blk is None:
                raise Unsupported('missing block bb%d in %s' % (bb, fn.name))
            visits[bb] = visits.get(bb, 0) + 1
            if visits[bb] > self.loop_bound:
                raise Unsupported('loop bound %d exceeded in %s (bb%d)' % (self.loop_bound, fn.name, bb))
            for st in blk.stmts:
                self.steps += 1
                k = st[0]
                if k == 'assign':
                    v = self.rvalue(fr, st[2], st[1])
                    self.write(fr, st[1], v)
                elif k == 'nop':
                    pass
                elif k == 'setdiscr':
                    raise Unsupported('SetDiscriminant in ' + fn.name)
                else:
                    raise Unsupported('statement %s in %s: %s' % (k, fn.name, st[1][:120] if len(st) > 1 else ''))
            if self.steps > self.max_steps:
                raise Unsupported('step budget exceeded')
            t = blk.term
            if t is None:
                raise Unsupported('block without terminator in ' + fn.name)
            self.steps += 1
            k = t[0]
            if k == 'goto':
                bb = t[1]
            elif k == 'return':
                return fr.locals.get(0, UNIT)
            elif k == 'drop':
                bb = t[2]
            elif k == 'switch':
                v = self.operand(fr, t[1])
                bb = self.switch(v, t[2], t[3])
            elif k == 'call':
                _, dest, callee, aops, ret = t
                args = [self.operand(fr, a) for a in aops]
                dty = self.place_type(fn, dest) if dest is not None else None
                v = self.call_callee(callee, args, fn, dty)
                if ret is None:
                    raise RustPanic('diverging call returned: ' + callee)
                if dest is not None:
                    self.write(fr, dest, v)
                bb = ret
            elif k == 'assert':
                c = self.operand(fr, t[1])
                ok = c if t[2] else smt.Not(c)
                if not self.fork(ok):
                    raise RustPanic('assert failed: ' + t[3][:80])
                bb = t[4]
            elif k == 'unreachable':
                raise Unsupported('reached `unreachable` in ' + fn.name)
            elif k in ('resume', 'abort', 'terminate'):
                raise RustPanic(k)
            else:
                raise Unsupported('terminator ' + k)

    def switch(self, v, targets, otherwise):
        if isinstance(v, bool):
            v = 1 if v else 0
        if isinstance(v, z3.BoolRef):
            # targets keyed 0 / otherwise
            tmap = dict(targets)
            if self.fork(v):
                return tmap.get(1, otherwise)
            return tmap.get(0, otherwise)
        if isinstance(v, str) and len(v) == 1:
            v = ord(v)
        if is_conc(v):
            for val, tgt in targets:
                if val == v:
                    return tgt
            if otherwise is None:
                raise Unsupported('switch without matching target')
            return otherwise
        for val, tgt in targets:
            if self.fork(v == val):
                return tgt
        if otherwise is None:
            raise Infeasible()
        return otherwise

    # ------------------------------------------------------------ call dispatch
    def call_callee(self, callee, args, caller, dest_ty=None):
        self_ty, trait, method, norm, full = parse_callee(callee)
        crate = caller.src if caller else None
        # 1. a function defined in a dumped crate (exact, generics stripped)
        if not callee.startswith('<'):
            f = self.prog.lookup_fn(full, crate)
            if f is None and full != norm:
                f = self.prog.lookup_fn(norm, crate)
            if f is not None:
                return self.call_fn(f, args)
        c = CallCtx()
        c.callee, c.norm, c.args, c.dest_ty, c.fn = callee, norm, args, dest_ty, caller
        c.self_ty, c.trait, c.method = self_ty, trait, method
        # 2. abstraction requested by the obligation
        if norm in self.abstractions:
            return self.abstractions[norm](self, args)
        # 3. library models
        h = MODEL_EXACT.get(norm)
        if h is None:
            for rx, hh in MODELS:
                if rx.search(norm):
                    h = hh
                    break
        if h is not None:
            return h(self, c)
        # 4. impl functions of dumped crates resolved by method name + receiver type
        f = self.resolve_impl(self_ty, trait, method, args, crate)
        if f is not None:
            return self.call_fn(f, args)
        # 5. a tuple-variant / tuple-struct constructor used as a function value
        segs = full.split('::')
        if len(segs) >= 2 and not callee.startswith('<'):
            k = self.L._resolve('::'.join(segs[:-1]), 'enum', crate)
            if k is not None and any(n == segs[-1] for n, _ in self.L.enums[k]):
                return En(qual(k), segs[-1], list(args))
        raise Unsupported('no model for callee: %s   (in %s)' % (callee[:200], caller.name if caller else '?'))

    def resolve_impl(self, self_ty, trait, method, args, crate):
        cands = self.prog.by_method.get(method)
        if not cands:
            return None
        cands = [f for f in cands if len(f.args) == len(args)]
        if not cands:
            return None
        if self_ty:
            sb = type_base(self_ty).split('::')[-1]
            exact = []
            for f in cands:
                a0 = type_base(f.args[0][1]).split('::')[-1] if f.args else ''
                rt = type_base(f.ret).split('::')[-1]
                if a0 == sb or rt == sb or (rt == 'Self') or (a0 != sb and sb in f.ret and trait and trait.startswith(('From', 'Decimal256Helper'))):
                    exact.append(f)
            if trait and trait.startswith('From<'):
                src = type_base(trait[5:-1]).split('::')[-1]
                exact = [f for f in cands if f.args and type_base(f.args[0][1]).split('::')[-1] == src
                         and type_base(f.ret).split('::')[-1] == sb]
            cands = exact
        same = [f for f in cands if f.src == crate]
        if len(same) == 1:
            return same[0]
        if len(cands) == 1:
            return cands[0]
        if same:
            return same[0]
        return cands[0] if cands else None

    def call_value(self, f, args):
        """call a closure / fn item value with already-spread arguments"""
        if isinstance(f, Ref):
            f = f.get()
        if isinstance(f, Clo):
            fn = self.prog.closures.get(f.key)
            if fn is None:
                raise Unsupported('closure body not found: ' + f.key)
            t0 = fn.args[0][1]
            if t0.startswith('&'):
                recv = Ref([f], 0, t0.startswith('&mut'))
            else:
                recv = f
            return self.call_fn(fn, [recv] + list(args))
        if isinstance(f, FnItem):
            return self.call_callee(f.name, list(args), None)
        raise Unsupported('call of non-function value %r' % (f,))


_EXT = {
    'DECIMAL_PLACES': 18,
    'DECIMAL_FRACTIONAL': 10 ** 18,
}


def external_const(txt):
    """associated constants of library types that appear by name in MIR"""
    t = strip_generics(txt)
    segs = t.split('::')
    name = segs[-1]
    owner = segs[-2] if len(segs) > 1 else ''
    if owner in ('Decimal', 'Decimal256') and name in _EXT:
        return _EXT[name]
    if name == 'MAX':
        if owner in NEWTYPE_BITS:
            return (1 << NEWTYPE_BITS[owner]) - 1
        if owner in INT_BITS and owner.startswith('u'):
            return (1 << INT_BITS[owner]) - 1
        if owner in INT_BITS:
            return (1 << (INT_BITS[owner] - 1)) - 1
    if name == 'MIN' and (owner in NEWTYPE_BITS or (owner in INT_BITS and owner.startswith('u'))):
        return 0
    if name == 'MAX' and owner in ('Decimal', 'Decimal256'):
        return (1 << NEWTYPE_BITS[owner]) - 1
    m = re.match(r'^core::num::<impl ([iu](?:\d+|size))>::(MAX|MIN)$', txt)
    if m:
        b = INT_BITS[m.group(1)]
        if m.group(1).startswith('u'):
            return (1 << b) - 1 if m.group(2) == 'MAX' else 0
        return (1 << (b - 1)) - 1 if m.group(2) == 'MAX' else -(1 << (b - 1))
    return None


def qual(key):
    """short type name for builtin enums, crate-qualified for the rest"""
    if key[0] in ('core', 'alloc'):
        return key[2]
    return '::'.join([key[0]] + [x for x in key[1].split('::') if x] + [key[2]])


def deref_type(ty):
    t = ty.strip()
    if t.startswith('&'):
        t = t[1:].lstrip()
        if t.startswith("'"):
            t = t.split(' ', 1)[1]
        if t.startswith('mut '):
            t = t[4:]
        return t
    if t.startswith('*const '):
        return t[7:]
    if t.startswith('*mut '):
        return t[5:]
    m = re.match(r'^(?:std::boxed::)?Box<(.*)>$', t)
    if m:
        return m.group(1)
    return t


def elem_type(ty):
    t = ty.strip()
    if t.startswith('['):
        inner = t[1:-1]
        from .parse import find_top
        k = find_top(inner, ';')
        return inner[:k] if k >= 0 else inner
    m = re.match(r'^(?:std::vec::)?Vec<(.*)>$', t)
    if m:
        return m.group(1)
    return None


def _unescape(s):
    body = s[1:-1]
    if '\\' not in body:
        return body
    out = []
    i = 0
    while i < len(body):
        c = body[i]
        if c == '\\':
            n = body[i + 1]
            if n == 'n':
                out.append('\n'); i += 2
            elif n == 't':
                out.append('\t'); i += 2
            elif n == 'u':
                j = body.index('}', i)
                out.append(chr(int(body[i + 3:j], 16))); i = j + 1
            elif n == 'x':
                out.append(chr(int(body[i + 2:i + 4], 16))); i += 4
            else:
                out.append(n); i += 2
        else:
            out.append(c); i += 1
    return ''.join(out)


def _unescape_bytes(s):
    body = s[1:-1]
    out = bytearray()
    i = 0
    while i < len(body):
        c = body[i]
        if c == '\\':
            n = body[i + 1]
            if n == 'x':
                out.append(int(body[i + 2:i + 4], 16)); i += 4
            elif n == 'n':
                out.append(10); i += 2
            elif n == 't':
                out.append(9); i += 2
            elif n == 'r':
                out.append(13); i += 2
            elif n == '0':
                out.append(0); i += 2
            else:
                out.append(ord(n)); i += 2
        else:
            out.extend(c.encode()); i += 1
    return bytes(out)
