"""Python side of native replay: builds the Rust replayer against /repo's current tree,
runs scenarios, and judges whether a solver counterexample reproduces."""
import json
import os
import subprocess
import sys
import time

ROOT = os.path.dirname(os.path.dirname(os.path.abspath(__file__)))
CRATE = os.path.join(ROOT, 'replay')
BIN = os.path.join(CRATE, 'target', 'debug', 'replay')
REPLAYS = os.path.join(ROOT, 'evidence', 'replays')
_built = False


def build(verbose=False):
    """(re)build the replayer; cargo notices changes in /repo through the path dependencies"""
    global _built
    if _built:
        return True, ''
    env = dict(os.environ)
    env['CARGO_NET_OFFLINE'] = 'true'
    env['CARGO_TARGET_DIR'] = os.path.join(CRATE, 'target')
    lock_src = '/repo/Cargo.lock'
    try:
        import shutil
        if os.path.exists(lock_src) and not os.path.exists(os.path.join(CRATE, 'Cargo.lock')):
            shutil.copy(lock_src, os.path.join(CRATE, 'Cargo.lock'))
    except Exception:
        pass
    p = subprocess.run(['cargo', 'build', '--offline'], cwd=CRATE, env=env, stdout=subprocess.PIPE, stderr=subprocess.STDOUT, text=True)
    if p.returncode != 0:
        return False, p.stdout[-3000:]
    _built = True
    return True, ''


def run_scenario(sc, path=None):
    ok, msg = build()
    if not ok:
        return {'build_error': msg}
    if path is None:
        os.makedirs(REPLAYS, exist_ok=True)
        path = os.path.join(REPLAYS, 'tmp-%d.json' % os.getpid())
    with open(path, 'w') as f:
        json.dump(sc, f, indent=1)
    p = subprocess.run([BIN, path], stdout=subprocess.PIPE, stderr=subprocess.PIPE, text=True, timeout=300)
    if p.returncode != 0:
        return {'replay_error': (p.stderr or '')[-2000:]}
    try:
        return json.loads(p.stdout)
    except Exception as e:
        return {'replay_error': 'bad output: %s' % p.stdout[-500:]}


def prim_batch(reqs):
    """evaluate primitive requests natively: list of {'op','args'} -> list of results"""
    ok, msg = build()
    if not ok:
        raise RuntimeError(msg)
    inp = '\n'.join(json.dumps(r) for r in reqs) + '\n'
    p = subprocess.run([BIN, 'prim'], input=inp, stdout=subprocess.PIPE, stderr=subprocess.PIPE, text=True, timeout=300)
    return [json.loads(l) for l in p.stdout.splitlines() if l.strip()]


def confirm(pid, ob, label, model, seed=0):
    """try to reproduce a counterexample natively.
    returns {'status': 'confirmed'|'not_reproduced'|'no_replayer', 'path':..., 'detail':...}"""
    rb = getattr(ob, 'replay', None) or ob.opts.get('replay')
    if rb is None:
        return {'status': 'no_replayer', 'detail': 'obligation has no replay builder; model=%s' % json.dumps(model)[:400]}
    try:
        built = rb(label, model)
    except Exception as e:
        return {'status': 'no_replayer', 'detail': 'replay builder failed: %r' % (e,)}
    if built is None:
        return {'status': 'no_replayer', 'detail': 'no scenario for label %s' % label}
    sc, judge = built
    os.makedirs(REPLAYS, exist_ok=True)
    path = os.path.join(REPLAYS, '%s-%s-%s.json' % (pid, ob.name.replace('/', '_'), label))
    sc = dict(sc)
    sc['_meta'] = {'property': pid, 'obligation': ob.name, 'check': label, 'model': model}
    out = run_scenario(sc, path)
    if 'build_error' in out or 'replay_error' in out or ('setup_error' in out and not sc.get('_setup_error_ok')):
        return {'status': 'not_reproduced', 'path': path, 'detail': json.dumps(out)[:800]}
    try:
        bad, why = judge(out)
    except Exception as e:
        return {'status': 'not_reproduced', 'path': path, 'detail': 'judge failed: %r on %s' % (e, json.dumps(out)[:500])}
    with open(path, 'w') as f:
        sc['_observed'] = out.get('results')
        sc['_verdict'] = why
        json.dump(sc, f, indent=1)
    return {'status': 'confirmed' if bad else 'not_reproduced', 'path': path, 'detail': why}


def fidelity(pid, ob, model):
    """translator validation on the unchanged tree: a concrete witness of the obligation's normal path (inputs + every observable the
    executor predicts) is run natively; the native run must reproduce every predicted observable.
    returns {'status': 'agrees'|'differs'|'skipped', 'detail': ...}"""
    rb = getattr(ob, 'replay', None)
    if rb is None or not getattr(rb, 'generic', False):
        return {'status': 'skipped', 'detail': 'no generic (observable-comparing) replay builder'}
    if not model.get('_obs'):
        return {'status': 'skipped', 'detail': 'no observables registered before the witness point'}
    try:
        built = rb('fidelity', model)
    except Exception as e:
        return {'status': 'skipped', 'detail': 'replay builder failed: %r' % (e,)}
    if built is None:
        return {'status': 'skipped', 'detail': 'no scenario'}
    sc, judge = built
    out = run_scenario(dict(sc))
    if 'build_error' in out or 'replay_error' in out or 'setup_error' in out:
        return {'status': 'differs', 'detail': json.dumps(out)[:600]}
    try:
        same, why = judge(out)
    except Exception as e:
        return {'status': 'differs', 'detail': 'judge failed: %r' % (e,)}
    return {'status': 'agrees' if same else 'differs', 'detail': why, 'observables': len(model.get('_obs', {}))}


def replay_cli(pid, path):
    sc = json.load(open(path))
    out = run_scenario({k: v for k, v in sc.items() if not k.startswith('_')}, path + '.rerun')
    print(json.dumps(out, indent=1))
    return 0
