"""Symbolic values.  Scalars are Python int/bool/str or z3 terms; everything
structured is one of the small classes below.  Containers are Python lists so
that a reference is simply (container, key)."""
import z3


class Unsupported(Exception):
    """construct / callee the executor cannot handle -> check is inconclusive (exit 2)"""


class RustPanic(Exception):
    """the transaction aborts (panic, failed MIR assert, unwrap on None ...)"""

    def __init__(self, msg=''):
        Exception.__init__(self, msg)
        self.msg = msg


class Infeasible(Exception):
    """the current path became infeasible (an assumption contradicts the pc)"""


class St:
    __slots__ = ('ty', 'f', 'names')

    def __init__(self, ty, f, names=None):
        self.ty = ty
        self.f = f
        self.names = names

    def __repr__(self):
        if self.names:
            return '%s{%s}' % (self.ty, ', '.join('%s: %r' % (n, v) for n, v in zip(self.names, self.f)))
        return '%s(%s)' % (self.ty or '', ', '.join(repr(v) for v in self.f))

    @property
    def short(self):
        return self.ty.split('::')[-1] if self.ty else ''

    def get(self, name):
        return self.f[self.names.index(name)]

    def set(self, name, v):
        self.f[self.names.index(name)] = v


class En:
    __slots__ = ('ty', 'var', 'f', 'names')

    def __init__(self, ty, var, f=None, names=None):
        self.ty = ty
        self.var = var
        self.f = f if f is not None else []
        self.names = names

    def __repr__(self):
        if not self.f:
            return '%s' % (self.var,)
        return '%s(%s)' % (self.var, ', '.join(repr(v) for v in self.f))

    @property
    def short(self):
        return self.ty.split('::')[-1] if self.ty else ''

    def get(self, name):
        return self.f[self.names.index(name)]


class Vc:
    __slots__ = ('e',)

    def __init__(self, e):
        self.e = e

    def __repr__(self):
        return 'vec%r' % (self.e,)


class Ref:
    __slots__ = ('c', 'k', 'mut')

    def __init__(self, c, k, mut=False):
        self.c = c
        self.k = k
        self.mut = mut

    def get(self):
        return self.c[self.k]

    def set(self, v):
        self.c[self.k] = v

    def __repr__(self):
        try:
            return '&%r' % (self.c[self.k],)
        except Exception:
            return '&<dangling>'


class Clo:
    __slots__ = ('key', 'f', 'names')

    def __init__(self, key, f=None, names=None):
        self.key = key
        self.f = f if f is not None else []
        self.names = names

    def __repr__(self):
        return 'closure%s' % self.key[8:40]


class FnItem:
    __slots__ = ('name',)

    def __init__(self, name):
        self.name = name

    def __repr__(self):
        return 'fn:' + self.name


class Mp:
    """HashMap / HashSet / BTreeMap with concrete shape: list of [key, value] pairs."""
    __slots__ = ('items', 'kind')

    def __init__(self, kind='map'):
        self.items = []
        self.kind = kind

    def __repr__(self):
        return 'map%r' % (self.items,)


class Opaque:
    """a value no property observes (formatted text, attributes, Api handles ...)"""
    __slots__ = ('tag', 'data')

    def __init__(self, tag, data=None):
        self.tag = tag
        self.data = data

    def __repr__(self):
        return '<%s>' % self.tag


class UninitBox:
    """Box::new_uninit() as used by the vec![] lowering"""
    __slots__ = ('slot',)

    def __init__(self):
        self.slot = [None]


class SymStr:
    """a symbolic string atom: an integer code, compared by equality only"""
    __slots__ = ('code', 'label')

    def __init__(self, code, label=''):
        self.code = code
        self.label = label

    def __repr__(self):
        return 'str?%s' % (self.label or self.code)


class Cat:
    """structured string: concatenation of parts (str / SymStr / int terms)"""
    __slots__ = ('parts',)

    def __init__(self, parts):
        self.parts = tuple(parts)

    def __repr__(self):
        return 'cat%r' % (self.parts,)


UNIT = St('()', [])


def Some(v):
    return En('Option', 'Some', [v])


def NONE():
    return En('Option', 'None', [])


def Ok(v):
    return En('Result', 'Ok', [v])


def Err(e):
    return En('Result', 'Err', [e])


def clone(v):
    """deep copy of a value (references keep pointing at the same target)"""
    if isinstance(v, St):
        return St(v.ty, [clone(x) for x in v.f], v.names)
    if isinstance(v, En):
        return En(v.ty, v.var, [clone(x) for x in v.f], v.names)
    if isinstance(v, Vc):
        return Vc([clone(x) for x in v.e])
    if isinstance(v, Clo):
        return Clo(v.key, [clone(x) for x in v.f], v.names)
    if isinstance(v, Mp):
        m = Mp(v.kind)
        m.items = [[clone(k), clone(x)] for k, x in v.items]
        return m
    return v


def is_scalar(v):
    return isinstance(v, (int, bool, z3.ExprRef))
