"""mirsym: symbolic execution of rustc MIR dumps of /repo, decided by z3."""
