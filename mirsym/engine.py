"""Exploration driver: runs a scenario once per feasible decision list, collects
the verdict of every check, counterexample models, coverage witnesses and stats."""
import json
import os
import time
import traceback

import z3

from . import smt
from .smt import simp, is_conc
from .values import *
from .interp import Interp, Program
from . import models_core, models_coll, models_cw   # noqa: F401  (register models)


class World:
    """Chain-side state visible to the contracts on one path."""

    def __init__(self):
        self.storage = {}      # contract key -> {namespace: value | MapStore}
        self.bank = {}         # (addr code, denom code) -> amount term   (see chain.py)
        self.meta = {}

    def store(self, ckey):
        return self.storage.setdefault(ckey, {})


class CheckRecord:
    def __init__(self, label):
        self.label = label
        self.unsat = 0
        self.sat = 0
        self.unknown = 0
        self.models = []
        self.time = 0.0


class Result:
    def __init__(self, name):
        self.name = name
        self.paths = 0
        self.infeasible = 0
        self.checks = {}
        self.covers = {}
        self.unsupported = []
        self.stats = {}
        self.wall = 0.0
        self.outcomes = {}
        self.samples = []
        self.lemmas = []
        self.params = {}
        self.witnesses = {}

    def ok(self):
        if self.unsupported:
            return False
        for c in self.checks.values():
            if c.sat or c.unknown:
                return False
        for k, v in self.covers.items():
            if not v:
                return False
        return True

    def verdict(self):
        # a counterexample that was found stands, whatever else could not be explored or decided
        if any(c.sat for c in self.checks.values()):
            return 'sat'
        if self.unsupported:
            return 'inconclusive'
        if any(c.unknown for c in self.checks.values()):
            return 'inconclusive'
        if any(not v for v in self.covers.values()):
            return 'vacuous'
        return 'unsat'

    def summary(self):
        return {
            'obligation': self.name,
            'verdict': self.verdict(),
            'paths': self.paths,
            'queries': self.stats.get('queries', 0),
            'solver_s': round(self.stats.get('solver_s', 0.0), 3),
            'max_query_s': round(self.stats.get('max_query_s', 0.0), 3),
            'wall_s': round(self.wall, 2),
            'checks': {k: {'unsat': c.unsat, 'sat': c.sat, 'unknown': c.unknown} for k, c in self.checks.items()},
            'covers': self.covers,
            'outcomes': self.outcomes,
            'unsupported': self.unsupported[:3],
            'lemmas': self.lemmas,
            'params': self.params,
        }


class ScenarioInterp(Interp):
    """Interp + the obligation-facing API (inputs, checks, covers)."""

    def __init__(self, prog, decisions, stats, opts, result):
        Interp.__init__(self, prog, decisions, stats, opts)
        self.result = result
        self.inputs = {}
        self.observed = {}
        self.world = World()
        self.check_timeout_ms = (opts or {}).get('check_timeout_ms', 60000)

    # -- inputs
    def sym(self, name, bits=None, lo=0, hi=None):
        v = self.fresh_int(name, lo=lo, hi=hi, bits=bits)
        self.inputs[name] = v
        return v

    def symbool(self, name):
        v = z3.Bool(name)
        if self.ctx.wit is not None and name not in self.ctx.wit:
            self.ctx.wit_define(v, False)
        self.inputs[name] = v
        return v

    def symstr(self, name):
        v = z3.Int('str_' + name)
        self.inputs['str_' + name] = v
        return SymStr(v, name)

    # -- running entry points
    def call(self, fname, args, crate=None):
        f = self.prog.lookup_exact(fname, crate)
        if f is None:
            raise Unsupported('entry function not found: ' + fname)
        return self.call_fn(f, args)

    def try_call_method(self, callee, args):
        """call through the normal callee dispatch (models / impl resolution)"""
        try:
            return 'ok', self.call_callee(callee, args, None)
        except RustPanic as e:
            return 'panic', e.msg

    def try_call(self, fname, args, crate=None):
        """returns ('ok', value) or ('panic', msg)"""
        try:
            return 'ok', self.call(fname, args, crate)
        except RustPanic as e:
            return 'panic', e.msg

    # -- verdicts
    def check(self, label, prop):
        rec = self.result.checks.setdefault(label, CheckRecord(label))
        prop = simp(prop)
        if prop is True:
            rec.unsat += 1
            return True
        t0 = time.time()
        cand = self.opts.get('concolic')
        if cand is not None:
            # probe pass: this path was driven by a concrete candidate; one solver query with the inputs pinned decides whether the candidate
            # violates the post-condition here (a candidate can only ever turn into a counterexample, never into a pass)
            eqs = [self.inputs[k] == v for k, v in cand.items() if k in self.inputs]
            if eqs and self.ctx.check(z3.And(smt.toz(smt.Not(prop)) if not isinstance(prop, bool) else z3.BoolVal(not prop), *eqs)) == 'sat':
                rec.sat += 1
                if len(rec.models) < 3:
                    rec.models.append(self.model_values())
                return False
            return True
        dl = self.opts.get('deadline')
        if dl and t0 > dl:
            # the obligation's wall-clock budget is spent: undecided, reported as inconclusive
            rec.unknown += 1
            if 'time budget exceeded' not in self.result.unsupported:
                self.result.unsupported.append('time budget exceeded')
            return False
        neg = smt.Not(prop) if not isinstance(prop, bool) else True
        # 1. short attempt  2. counterexample probes (inputs pinned)  3. full-length attempt
        self.ctx.set_timeout(min(self.check_timeout_ms, 4000))
        r = self.ctx.check(neg)
        if r == 'unknown':
            for probe in getattr(self, 'probes', ()):
                eqs = [self.inputs[k] == v for k, v in probe.items() if k in self.inputs]
                if not eqs:
                    continue
                if self.ctx.check(z3.And(smt.toz(neg), *eqs)) == 'sat':
                    r = 'sat'
                    break
        if r == 'unknown' and rec.sat == 0 and self.check_timeout_ms > 4000:
            self.ctx.set_timeout(self.check_timeout_ms)
            r = self.ctx.check(neg)
        self.ctx.set_timeout(self.ctx.timeout_ms)
        rec.time += time.time() - t0
        if r == 'unsat':
            rec.unsat += 1
            return True
        if r == 'sat':
            rec.sat += 1
            if len(rec.models) < 3:
                rec.models.append(self.model_values())
            return False
        rec.unknown += 1
        return False

    def _cover_disabled(self):
        return self.opts.get('concolic') is not None

    def cover(self, label, hint=None):
        """reachability witness: this point was reached on a feasible path.  `hint` (input name ->
        value) pins inputs so that the witness query becomes easy when the free query is not decided"""
        if self.result.covers.get(label) or self._cover_disabled():
            return
        r = self.ctx.check()
        if r != 'sat' and hint:
            eqs = [self.inputs[k] == v for k, v in hint.items() if k in self.inputs]
            r = self.ctx.check(z3.And(*eqs)) if eqs else r
        self.result.covers[label] = (r == 'sat')
        if r == 'sat' and ('%s' % label) not in self.result.witnesses and getattr(self, '_wit_req', None) is None:
            # a concrete witness of this path is taken when the path ends (all observables registered): see finish_witness
            self._wit_req = (label, hint)

    def finish_witness(self):
        """at the end of a path that reached a cover point: a concrete model of the whole path (inputs + every predicted observable),
        replayed natively afterwards as a fidelity run of the translator"""
        req = getattr(self, '_wit_req', None)
        if req is None or req[0] in self.result.witnesses:
            return
        label, hint = req
        r = 'unknown'
        if hint:
            eqs = [self.inputs[k] == v for k, v in hint.items() if k in self.inputs]
            if eqs:
                r = self.ctx.check(z3.And(*eqs))
        if r != 'sat':
            r = self.ctx.check()
        if r == 'sat':
            try:
                self.result.witnesses[label] = self.model_values()
            except Exception:
                pass

    def finding_active(self, fid):
        """is the open known finding `fid` still reproducing natively on the current tree?"""
        return fid in (self.opts.get('active_findings') or ())

    def param(self, name, options):
        """a dimension of the scenario that is concretised (fee configuration, lock duration ...): the quick tier takes the option selected by
        VERIF_SEED (rotating with the seed, option 0 for seed 0), the thorough tier explores every option.  The index is recorded with the
        choices so that replay builders reproduce it."""
        key = 'param:' + name
        if self.opts.get('tier') == 'thorough' and len(options) > 1:
            idx = self.choose(len(options), key)
        else:
            seed = int(self.opts.get('seed', 0) or 0)
            # different dimensions rotate at different speeds so that seeds cover combinations
            h = sum(ord(c) for c in name)
            idx = (seed * (1 + h % 3) + (seed // len(options)) * (h % 2)) % len(options) if seed else 0
            self.choices[key] = idx
        self.result.params[name] = len(options)
        return options[idx]

    def lemma(self, cond, because):
        """assume a fact established by another obligation of the same run (assume-guarantee)"""
        if because not in self.result.lemmas:
            self.result.lemmas.append(because)
        self.assume(cond)

    def outcome(self, label):
        self.result.outcomes[label] = self.result.outcomes.get(label, 0) + 1

    def set_probes(self, probes):
        """concrete input assignments tried as counterexample candidates when a check comes back unknown"""
        self.probes = list(probes)

    def observe(self, key, term):
        """register an observable (evaluated in counterexample models and compared with the native replay)"""
        self.observed[key] = term

    def model_values(self):
        m = self.ctx.model()
        out = {}
        obs = {}
        for k, t in self.observed.items():
            if isinstance(t, (str, bool, list)) or t is None:
                obs[k] = t
            elif isinstance(t, int):
                obs[k] = t
            else:
                try:
                    v = m.eval(smt.toz(t), model_completion=True)
                    obs[k] = v.as_long() if z3.is_int_value(v) else (True if z3.is_true(v) else (False if z3.is_false(v) else str(v)))
                except Exception:
                    pass
        out['_obs'] = obs
        out['_choices'] = dict(self.choices)
        for k, v in self.inputs.items():
            try:
                val = m.eval(v, model_completion=True)
                if z3.is_int_value(val):
                    out[k] = val.as_long()
                elif z3.is_true(val):
                    out[k] = True
                elif z3.is_false(val):
                    out[k] = False
                else:
                    out[k] = str(val)
            except Exception:
                pass
        return out

    def eval_model(self, term):
        m = self.ctx.model()
        v = m.eval(smt.toz(term), model_completion=True)
        if z3.is_int_value(v):
            return v.as_long()
        if z3.is_true(v):
            return True
        if z3.is_false(v):
            return False
        return str(v)


def _probe_passes(prog, scenario, opts, res, stats, probes):
    """concolic pre-pass: each counterexample candidate (concrete inputs) drives the scenario down its own single path; the checks on that path are
    decided by the solver with the inputs pinned.  Finds counterexamples the fully symbolic query cannot decide in time; proves nothing."""
    for cand in probes:
        o2 = dict(opts)
        o2['concolic'] = dict(cand)
        J = ScenarioInterp(prog, [], stats, o2, res)
        try:
            scenario(J)
            res.stats['probe_paths'] = res.stats.get('probe_paths', 0) + 1
        except (Infeasible, RustPanic):
            pass
        except Unsupported:
            pass


def explore(prog, name, scenario, opts=None, max_paths=20000, declare_covers=()):
    """Run `scenario(I)` over all feasible decision lists."""
    opts = opts or {}
    res = Result(name)
    for c in declare_covers:
        res.covers[c] = False
    work = [[]]
    t0 = time.time()
    stats = res.stats
    probes_done = [False]
    deadline = opts.get('deadline')
    while work:
        dec = work.pop()
        if res.paths >= max_paths:
            res.unsupported.append('path budget %d exceeded' % max_paths)
            break
        if deadline and time.time() > deadline:
            res.unsupported.append('time budget exceeded')
            break
        if time.time() - t0 > opts.get('stop_after_sat_s', 60) and any(c.sat for c in res.checks.values()):
            # a counterexample is already in hand: exploring the remaining paths would only cost time
            res.stats['stopped_after_counterexample'] = 1
            break
        I = ScenarioInterp(prog, dec, stats, opts, res)
        try:
            try:
                scenario(I)
            finally:
                if not probes_done[0] and opts.get('concolic') is None:
                    # counterexample candidates: the obligation's own probes plus its hint (an ordinary concrete run)
                    cands = list(getattr(I, 'probes', None) or [])
                    if getattr(I, 'hint_values', None):
                        cands.append(dict(I.hint_values))
                    if cands:
                        probes_done[0] = True
                        _probe_passes(prog, scenario, opts, res, stats, cands)
            res.paths += 1
            I.finish_witness()
        except Infeasible:
            res.infeasible += 1
        except Unsupported as e:
            res.paths += 1
            msg = str(e)
            if msg not in res.unsupported:
                res.unsupported.append(msg)
            if opts.get('stop_on_unsupported', True):
                if opts.get('debug'):
                    traceback.print_exc()
                work.extend(I.alternatives)
                break
        except RustPanic as e:
            # a panic not handled by the scenario: treated as an outcome of the path
            res.paths += 1
            res.outcomes['unhandled_panic'] = res.outcomes.get('unhandled_panic', 0) + 1
        work.extend(I.alternatives)
    res.wall = time.time() - t0
    return res
