"""CLI behind ./check : run the obligations of one property against /repo's current MIR."""
import argparse
import importlib
import json
import multiprocessing as mp
import os
import sys
import time
import traceback

ROOT = os.path.dirname(os.path.dirname(os.path.abspath(__file__)))
EVID = os.path.join(ROOT, 'evidence')


def _load_obligations(pid):
    importlib.import_module('mirsym.obligations.' + pid.lower())
    from .obligations.common import REGISTRY
    return REGISTRY.get(pid, [])


_PROG = None


_ACTIVE = ()


def _run_one(args):
    pid, idx, tier, seed, budget = args
    from .engine import explore
    from .dump import load_program
    global _PROG
    t0 = time.time()
    try:
        if _PROG is None:
            _PROG = load_program()[0]
        ob = _load_obligations(pid)[idx]
        opts = dict(ob.opts)
        opts['seed'] = seed
        opts['tier'] = tier
        opts['active_findings'] = _ACTIVE
        # wall-clock budget per obligation: a check that cannot decide in time is inconclusive (exit 2), never open-ended
        budget = budget or int(os.environ.get('VERIF_OBLIGATION_BUDGET_S', '0') or 0) or (900 if tier == 'quick' else 5400)
        opts['deadline'] = time.time() + budget
        if tier == 'thorough':
            opts.setdefault('check_timeout_ms', 600000)
            opts['fork_timeout_ms'] = opts.get('fork_timeout_ms', 10000) * 3
        r = explore(_PROG, ob.name, ob.fn, opts, declare_covers=ob.covers,
                    max_paths=opts.get('max_paths', 20000))
        out = r.summary()
        out['models'] = {k: c.models for k, c in r.checks.items() if c.models}
        out['witnesses'] = r.witnesses
        out['functions'] = sorted(r.stats.get('functions', {}).keys())
        out['mir_statements'] = 0
        return idx, out
    except Exception as e:
        return idx, {'obligation': '?', 'verdict': 'inconclusive', 'paths': 0, 'queries': 0, 'solver_s': 0.0,
                     'wall_s': time.time() - t0, 'checks': {}, 'covers': {}, 'outcomes': {},
                     'unsupported': ['internal error: %s' % traceback.format_exc()[-1500:]], 'models': {}, 'functions': []}


def main(argv=None):
    ap = argparse.ArgumentParser()
    ap.add_argument('pid')
    ap.add_argument('--tier', default=os.environ.get('VERIF_TIER', 'quick'))
    ap.add_argument('--only', default='')
    ap.add_argument('--replay', default=None)
    ap.add_argument('--jobs', type=int, default=int(os.environ.get('VERIF_JOBS', '14')))
    a = ap.parse_args(argv)
    pid = a.pid
    tier = a.tier if a.tier in ('quick', 'thorough') else 'quick'
    seed = int(os.environ.get('VERIF_SEED', '0') or 0)
    t0 = time.time()

    from .dump import load_program
    from . import findings, replayer, evidence

    if a.replay:
        return replayer.replay_cli(pid, a.replay)

    try:
        prog, mir_hash = load_program(verbose=True)
    except Exception as e:
        print('INCONCLUSIVE property=%s MIR regeneration failed: %s' % (pid, e))
        return 2
    global _PROG
    _PROG = prog
    obs = _load_obligations(pid)
    # translator validation: library models vs the real cosmwasm-std (cached by model-source hash)
    from . import validate
    try:
        mv = validate.ensure()
    except Exception as e:
        print('INCONCLUSIVE property=%s model validation could not run: %s' % (pid, e))
        return 2
    if mv.get('n_mismatches') or mv.get('unsupported'):
        print('INCONCLUSIVE property=%s library models disagree with the real cosmwasm-std: %s' % (
            pid, json.dumps((mv.get('mismatches') or [mv.get('unsupported')])[0])[:400]))
        return 2
    todo = [i for i, ob in enumerate(obs) if (tier == 'thorough' or ob.tier == 'quick') and (not a.only or a.only in ob.name)]
    if not todo:
        print('no obligations registered for %s at tier %s' % (pid, tier))
        return 2
    budget = 0
    # open known findings of this property: replay their witnesses against the current tree first
    known = findings.load()
    global _ACTIVE
    act = findings.active_for(known, pid)
    _ACTIVE = tuple(k for k, v in act.items() if v)
    jobs = [(pid, i, tier, seed, budget) for i in todo]
    results = {}
    if a.jobs > 1 and len(jobs) > 1:
        ctx = mp.get_context('fork')
        with ctx.Pool(min(a.jobs, len(jobs))) as pool:
            for idx, out in pool.imap_unordered(_run_one, jobs):
                results[idx] = out
    else:
        for j in jobs:
            idx, out = _run_one(j)
            results[idx] = out

    # ---- verdicts
    violations = []
    inconclusive = []
    known_printed = []
    replays = 0
    for i in todo:
        ob = obs[i]
        out = results[i]
        out['obligation'] = ob.name
        out['entries'] = ob.entries
        out['statement'] = ob.statement
        out['bounds'] = ob.bounds
        out['abstractions'] = ob.abstractions
        out['kind'] = ob.kind
        v = out['verdict']
        # fidelity run: the executor's prediction for a concrete witness of the normal path must be reproduced by the real contracts
        wit = out.get('witnesses') or {}
        if wit and v in ('unsat', 'sat'):
            runs = []
            for wlabel in sorted(wit)[:4]:
                fr = replayer.fidelity(pid, ob, wit[wlabel])
                runs.append(dict(fr, witness=wlabel))
                if fr['status'] == 'differs':
                    inconclusive.append((ob.name, 'the executor and the real contracts disagree on a concrete run of the normal path (translator validation, witness %s)' % wlabel,
                                         fr.get('detail')))
            st_all = 'differs' if any(r['status'] == 'differs' for r in runs) else ('agrees' if any(r['status'] == 'agrees' for r in runs) else 'skipped')
            out['fidelity'] = {'status': st_all, 'runs': runs, 'agrees': sum(1 for r in runs if r['status'] == 'agrees'), 'detail': runs[0].get('detail')}
        if v == 'unsat':
            continue
        if v in ('inconclusive', 'vacuous'):
            inconclusive.append((ob.name, v, out.get('unsupported')))
            continue
        # sat: every failing check label must be replay-confirmed
        for label, models in out.get('models', {}).items():
            if not models:
                continue
            kf = findings.match(known, pid, ob.name, label)
            rep = replayer.confirm(pid, ob, label, models[0], seed)
            replays += 1
            out.setdefault('replays', {})[label] = rep
            if rep['status'] == 'confirmed':
                if kf is not None:
                    known_printed.append((kf, label))
                else:
                    violations.append((ob.name, label, rep.get('path', '')))
            elif rep['status'] == 'not_reproduced':
                inconclusive.append((ob.name, 'counterexample for %s did not reproduce natively' % label, rep.get('detail')))
            else:
                inconclusive.append((ob.name, 'no replayer for %s' % label, rep.get('detail')))
    wall = time.time() - t0
    evidence.write(pid, tier, seed, mir_hash, [results[i] for i in todo], wall, len(violations), replays,
                   [k for k, _ in known_printed] + [k for k in known.get('open', []) if k['property'] == pid and k['id'] in _ACTIVE],
                   model_validation={k: mv.get(k) for k in ('ops', 'cases', 'agree', 'n_mismatches', 'key')})
    printed = set()
    for k in known.get('open', []):
        if k['property'] == pid and k['id'] in _ACTIVE:
            print('KNOWN-FINDING: property=%s %s' % (pid, k['what']))
            printed.add(k['id'])
    for kf, label in known_printed:
        if kf['id'] not in printed:
            print('KNOWN-FINDING: property=%s %s' % (pid, kf['what']))
    for name, v, why in inconclusive:
        print('INCONCLUSIVE property=%s obligation=%s %s %s' % (pid, name, v, (why or '')))
    for name, label, path in violations:
        print('VIOLATION property=%s replay=%s' % (pid, path))
        print('  obligation=%s check=%s' % (name, label))
    tot_q = sum(results[i].get('queries', 0) for i in todo)
    tot_s = sum(results[i].get('solver_s', 0.0) for i in todo)
    print('%s tier=%s obligations=%d paths=%d queries=%d solver_s=%.2f wall_s=%.1f mir=%s' % (
        pid, tier, len(todo), sum(results[i].get('paths', 0) for i in todo), tot_q, tot_s, wall, mir_hash))
    if violations:
        return 1
    if inconclusive:
        return 2
    return 0


if __name__ == '__main__':
    try:
        rc = main()
    except SystemExit:
        raise
    except BaseException:
        # an internal error of the machinery is never a verdict about the code: inconclusive
        traceback.print_exc()
        print('INCONCLUSIVE internal error of the checker (see traceback)')
        rc = 2
    sys.exit(rc)
