"""Executable model of what the chain does around a contract call (assumed, not verified):
funds move before execute, messages run depth-first in order, an error anywhere reverts the whole
transaction unless a reply handler with reply_on error/always catches it, bank sends fail on
insufficient funds, token-factory mint/burn are admin-checked.  Addresses and denoms are concrete
strings in handler-level obligations; amounts are symbolic."""
import z3

from . import smt
from .smt import simp
from .values import *
from .interp import DEFAULT_ABSTRACTIONS, model, model_re
from .models_core import deref
from .models_cw import coin_v, storage_key, mk, mk_enum, submsg


class TxFailed(Exception):
    def __init__(self, why):
        Exception.__init__(self, why)
        self.why = why


# ----------------------------------------------------------------- token factory messages (typed)

def _tf(kind, **kw):
    return En('CosmosMsg', 'TokenFactory', [kind, kw])


def _abs_mint(I, args):
    sender, coin, to = args
    return _tf('mint', sender=deref(sender), coin=coin, to=deref(to))


def _abs_burn(I, args):
    sender, coin, frm = args
    return _tf('burn', sender=deref(sender), coin=coin, frm=deref(frm))


def _abs_create_denom(I, args):
    sender, sub = args
    return _tf('create_denom', sender=deref(sender), subdenom=deref(sub))


DEFAULT_ABSTRACTIONS['mantra-dex-std::mint'] = _abs_mint
DEFAULT_ABSTRACTIONS['mantra-dex-std::burn'] = _abs_burn
DEFAULT_ABSTRACTIONS['mantra-dex-std::create_denom'] = _abs_create_denom


# ----------------------------------------------------------------- bank

class Bank:
    def __init__(self):
        self.bal = {}       # (addr, denom) -> amount
        self.supply = {}    # denom -> amount

    def get(self, addr, denom):
        return self.bal.get((addr, denom), 0)

    def set(self, addr, denom, v):
        self.bal[(addr, denom)] = simp(v)

    def add(self, addr, denom, v):
        self.set(addr, denom, self.get(addr, denom) + v)

    def snapshot(self):
        b = Bank()
        b.bal = dict(self.bal)
        b.supply = dict(self.supply)
        return b

    def restore(self, snap):
        self.bal = dict(snap.bal)
        self.supply = dict(snap.supply)


def bank_of(I):
    b = I.world.meta.get('bank')
    if b is None:
        b = Bank()
        I.world.meta['bank'] = b
    return b


def _need_concrete(x, what):
    x = deref(x)
    if not isinstance(x, str):
        raise Unsupported('chain model needs a concrete %s, got %r' % (what, x))
    return x


def send(I, frm, to, coins, fault=None):
    """bank send; raises TxFailed on insufficient funds / empty or zero coins"""
    b = bank_of(I)
    coins = deref(coins)
    if not coins.e:
        raise TxFailed('empty coins in bank send')
    for c in coins.e:
        d = _need_concrete(c.get('denom'), 'denom')
        amt = c.get('amount')
        if I.fork(amt <= 0):
            raise TxFailed('zero amount in bank send')
        have = b.get(frm, d)
        if I.fork(have < amt):
            raise TxFailed('insufficient funds: %s %s' % (frm, d))
        b.set(frm, d, have - amt)
        b.add(to, d, amt)


def burn(I, frm, coins):
    b = bank_of(I)
    coins = deref(coins)
    if not coins.e:
        raise TxFailed('empty coins in bank burn')
    for c in coins.e:
        d = _need_concrete(c.get('denom'), 'denom')
        amt = c.get('amount')
        if I.fork(amt <= 0):
            raise TxFailed('zero amount in burn')
        have = b.get(frm, d)
        if I.fork(have < amt):
            raise TxFailed('insufficient funds for burn: %s %s' % (frm, d))
        b.set(frm, d, have - amt)
        b.supply[d] = simp(b.supply.get(d, 0) - amt)


def tf_admin_ok(sender, denom):
    """token factory: only the creator (admin) of factory/<creator>/<sub> may mint/burn"""
    parts = denom.split('/', 2)
    return len(parts) == 3 and parts[0] == 'factory' and parts[1] == sender


# ----------------------------------------------------------------- querier

@model_re(r'^QuerierWrapper::query_balance$')
def query_balance(I, c):
    addr = _need_concrete(c.args[1], 'address')
    denom = _need_concrete(c.args[2], 'denom')
    return Ok(coin_v(denom, bank_of(I).get(addr, denom)))


@model_re(r'^QuerierWrapper::query_supply$')
def query_supply(I, c):
    denom = _need_concrete(c.args[1], 'denom')
    return Ok(coin_v(denom, bank_of(I).supply.get(denom, 0)))


@model_re(r'^QuerierWrapper::query_all_balances$')
def query_all_balances(I, c):
    addr = _need_concrete(c.args[1], 'address')
    b = bank_of(I)
    out = []
    for (a, d), v in sorted(b.bal.items()):
        if a == addr:
            if I.fork(v > 0):
                out.append(coin_v(d, v))
    return Ok(Vc(out))


# ----------------------------------------------------------------- transactions

class Chain:
    """contracts: address -> crate name; executes messages with sub-message/reply semantics."""

    def __init__(self, I, contracts):
        self.I = I
        self.contracts = dict(contracts)
        self.time_nanos = I.world.meta.get('time_nanos', 0)
        self.log = []           # executed message records (for obligations)
        self.faults = {}        # message index -> Bool (fails when true)
        self.fault_seq = 0
        self.fault_inject = None    # callable(kind, detail) -> bool (should this call fail)
        self.submsgs = []           # (contract, reply_on, id, msg kind, sub kind) of every dispatched message
        self.calls = 0

    # --- state snapshot (for rollback / comparisons)
    def snapshot(self):
        st = {}
        for ck, store in self.I.world.storage.items():
            st[ck] = {}
            for ns, v in store.items():
                if hasattr(v, 'entries'):
                    st[ck][ns] = ('map', [[k, clone(x)] for k, x in v.entries])
                else:
                    st[ck][ns] = ('item', clone(v))
        return st, bank_of(self.I).snapshot()

    def restore(self, snap):
        from .models_cw import MapStore
        st, bk = snap
        self.I.world.storage.clear()
        for ck, store in st.items():
            d = {}
            for ns, (kind, v) in store.items():
                if kind == 'map':
                    ms = MapStore()
                    ms.entries = [[k, clone(x)] for k, x in v]
                    d[ns] = ms
                else:
                    d[ns] = clone(v)
            self.I.world.storage[ck] = d
        bank_of(self.I).restore(bk)

    def env(self, addr):
        from .obligations.common import env
        return env(self.time_nanos, addr)

    def execute(self, sender, contract, msg, funds):
        """top-level transaction: returns ('ok', response) or ('err', reason); state is rolled back on error"""
        snap = self.snapshot()
        self.last_pre = snap
        try:
            r = self._execute(sender, contract, msg, funds)
            return 'ok', r
        except TxFailed as e:
            self.restore(snap)
            return 'err', e.why

    def _execute(self, sender, contract, msg, funds):
        I = self.I
        from .obligations.common import deps, message_info
        crate = self.contracts.get(contract)
        if crate is None:
            raise TxFailed('no such contract ' + str(contract))
        # the sender of a message is an existing account, hence a valid address (platform fact)
        I.assume(I.addr_valid(sender))
        I.assume(I.addr_valid(contract))
        fv = Vc([clone(c) for c in funds])
        if fv.e:
            send(I, sender, contract, fv)
        self.log.append(('execute', sender, contract, msg, funds))
        try:
            res = I.call('execute', [deps(contract), self.env(contract), message_info(sender, fv.e), msg], crate)
        except RustPanic as e:
            raise TxFailed('panic in %s: %s' % (contract, e.msg))
        if res.var == 'Err':
            raise TxFailed('%s returned Err(%r)' % (contract, res.f[0]))
        resp = res.f[0]
        self._dispatch(contract, resp)
        return resp

    def _fault(self, kind, detail):
        self.calls += 1
        if self.fault_inject is not None:
            return self.fault_inject(self.calls, kind, detail)
        return False

    def _dispatch(self, contract, resp):
        I = self.I
        for sm in resp.get('messages').e:
            msg = sm.get('msg')
            reply_on = sm.get('reply_on').var
            self.submsgs.append((contract, reply_on, sm.get('id'), deref(msg).var, deref(msg).f[0].var if deref(msg).f and isinstance(deref(msg).f[0], En) else None))
            snap = self.snapshot() if reply_on in ('Error', 'Always') else None
            try:
                self._run_msg(contract, msg)
                ok = True
                why = None
            except TxFailed as e:
                if snap is None:
                    raise
                self.restore(snap)
                ok = False
                why = e.why
            if ok and reply_on in ('Success', 'Always'):
                self._reply(contract, sm, En('SubMsgResult', 'Ok', [mk('cosmwasm_std::SubMsgResponse', events=Vc([]), data=NONE(), msg_responses=Vc([]))]))
            elif (not ok) and reply_on in ('Error', 'Always'):
                self._reply(contract, sm, En('SubMsgResult', 'Err', [Opaque('text', why)]))

    def _reply(self, contract, sm, result):
        I = self.I
        from .obligations.common import deps
        crate = self.contracts[contract]
        rep = mk('cosmwasm_std::Reply', id=sm.get('id'), payload=sm.get('payload'), gas_used=0, result=result)
        self.log.append(('reply', contract, sm.get('id'), result.var))
        try:
            res = I.call('reply', [deps(contract), self.env(contract), rep], crate)
        except RustPanic as e:
            raise TxFailed('panic in reply of %s: %s' % (contract, e.msg))
        if res.var == 'Err':
            raise TxFailed('reply of %s returned Err(%r)' % (contract, res.f[0]))
        self._dispatch(contract, res.f[0])

    def _run_msg(self, contract, msg):
        I = self.I
        msg = deref(msg)
        kind = msg.var
        if kind == 'Bank':
            b = msg.f[0]
            if b.var == 'Send':
                to = _need_concrete(b.get('to_address'), 'address')
                self.log.append(('send', contract, to, clone(b.get('amount'))))
                if self._fault('send', (contract, to)):
                    raise TxFailed('injected fault: bank send')
                send(I, contract, to, b.get('amount'))
            elif b.var == 'Burn':
                self.log.append(('burn', contract, clone(b.get('amount'))))
                if self._fault('burn', (contract,)):
                    raise TxFailed('injected fault: bank burn')
                burn(I, contract, b.get('amount'))
            else:
                raise Unsupported('bank msg ' + b.var)
        elif kind == 'TokenFactory':
            tk, kw = msg.f
            if tk == 'mint':
                coin = kw['coin']
                d = _need_concrete(coin.get('denom'), 'denom')
                self.log.append(('tf_mint', contract, kw['to'], clone(coin)))
                if self._fault('tf_mint', (contract, d)):
                    raise TxFailed('injected fault: token factory mint')
                if kw['sender'] != contract or not tf_admin_ok(contract, d):
                    raise TxFailed('token factory: unauthorized mint of ' + d)
                if I.fork(coin.get('amount') <= 0):
                    raise TxFailed('token factory: zero amount mint')        # MsgMint validates the coin as positive (the test mock's bank does too)
                bk = bank_of(I)
                new_supply = simp(bk.supply.get(d, 0) + coin.get('amount'))
                if I.fork(new_supply > (1 << 128) - 1):
                    raise TxFailed('mint would overflow the 128-bit supply')
                bk.add(_need_concrete(kw['to'], 'address'), d, coin.get('amount'))
                bk.supply[d] = new_supply
            elif tk == 'burn':
                coin = kw['coin']
                d = _need_concrete(coin.get('denom'), 'denom')
                self.log.append(('tf_burn', contract, kw['frm'], clone(coin)))
                if self._fault('tf_burn', (contract, d)):
                    raise TxFailed('injected fault: token factory burn')
                if kw['sender'] != contract or not tf_admin_ok(contract, d):
                    raise TxFailed('token factory: unauthorized burn of ' + d)
                burn(I, _need_concrete(kw['frm'], 'address'), Vc([coin]))
            elif tk == 'create_denom':
                self.log.append(('tf_create_denom', contract, kw['subdenom']))
                if self._fault('tf_create_denom', (contract,)):
                    raise TxFailed('injected fault: create denom')
                fees = I.world.meta.get('tf_fees', [])
                if fees:
                    burn(I, contract, Vc([clone(c) for c in fees]))
                created = I.world.meta.setdefault('tf_denoms', [])
                d = 'factory/%s/%s' % (contract, _denom_text(kw['subdenom']))
                if d in created:
                    raise TxFailed('denom already exists')
                created.append(d)
            else:
                raise Unsupported('token factory msg ' + tk)
        elif kind == 'Wasm':
            w = msg.f[0]
            if w.var != 'Execute':
                raise Unsupported('wasm msg ' + w.var)
            target = _need_concrete(w.get('contract_addr'), 'address')
            payload = w.get('msg')
            if not (isinstance(payload, Opaque) and payload.tag == 'json'):
                raise Unsupported('wasm execute with untyped payload')
            if self._fault('wasm', (contract, target)):
                raise TxFailed('injected fault: wasm execute')
            sink = self.I.world.meta.get('sinks', {}).get(target)
            if sink is not None:
                fv = deref(w.get('funds'))
                if fv.e:
                    send(I, contract, target, fv)
                self.log.append(('sink', contract, target, clone(payload.data), clone(fv)))
                sink(self, contract, payload.data, fv)
                return
            self._execute(contract, target, clone(payload.data), [clone(c) for c in deref(w.get('funds')).e])
        else:
            raise Unsupported('cosmos msg ' + kind)


def _denom_text(x):
    x = deref(x)
    if isinstance(x, str):
        return x
    raise Unsupported('symbolic subdenom %r' % (x,))


def _abs_tf_fee(I, args):
    """token-factory params query: the denom creation fee coins configured on the chain"""
    fees = I.world.meta.get('tf_fees', [])
    return Ok(Vc([clone(c) for c in fees]))


DEFAULT_ABSTRACTIONS['mantra-dex-std::get_factory_denom_creation_fee'] = _abs_tf_fee
