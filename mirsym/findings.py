"""Known findings: genuine defects recorded rather than repaired (never written at run time)."""
import json
import os

ROOT = os.path.dirname(os.path.dirname(os.path.abspath(__file__)))
PATH = os.path.join(ROOT, 'known_findings.json')


def load():
    try:
        return json.load(open(PATH))
    except OSError:
        return {'open': [], 'fixed': []}


def match(known, pid, obligation, label):
    for k in known.get('open', []):
        if k['property'] == pid and k['obligation'] == obligation and label in k['checks']:
            return k
    return None
