"""Known findings: genuine defects recorded rather than repaired.  The file is committed and never
written at run time.  Each open entry carries a native witness scenario; at run time the witness is
replayed against the current tree: while it still fails the check prints KNOWN-FINDING and the affected
obligation is discharged outside the finding's trigger; once it no longer fails (defect repaired) the
exclusion is dropped and the full obligation must hold."""
import json
import os

ROOT = os.path.dirname(os.path.dirname(os.path.abspath(__file__)))
PATH = os.path.join(ROOT, 'known_findings.json')


def load():
    try:
        return json.load(open(PATH))
    except OSError:
        return {'open': [], 'fixed': []}


def _get(v, path):
    for p in path:
        if isinstance(v, dict):
            v = v.get(p)
        elif isinstance(v, list):
            v = v[p] if isinstance(p, int) and p < len(v) else None
        else:
            return None
    return v


def _holds(results, e):
    r = results[e['step']]
    op = e['op']
    if op == 'err':
        return 'err' in r or 'panic' in r
    if op == 'ok':
        return 'ok' in r
    v = _get(r, e['path'])
    if v is None:
        return False
    if op == 'eq':
        return str(v) == str(e['value'])
    if op == 'ne':
        return str(v) != str(e['value'])
    if op == 'lt':
        return int(v) < int(e['value'])
    if op == 'gt':
        return int(v) > int(e['value'])
    if op == 'contains':
        return str(e['value']) in json.dumps(v)
    raise ValueError('bad expectation op ' + op)


def still_reproduces(finding):
    """replay the stored witness natively; True when every recorded expectation (the defect) still holds"""
    from . import replayer
    w = finding.get('witness')
    if not w:
        return False
    out = replayer.run_scenario({'setup': w.get('setup', {}), 'steps': w['steps']},
                                os.path.join(replayer.REPLAYS, 'finding-%s.json' % finding['id']))
    if 'results' not in out:
        return False
    try:
        return all(_holds(out['results'], e) for e in w['expect'])
    except Exception:
        return False


def active_for(known, pid):
    """ids of the open findings of property `pid` that still reproduce on the current tree"""
    act = {}
    for k in known.get('open', []):
        if k['property'] == pid:
            act[k['id']] = still_reproduces(k)
    return act


def match(known, pid, obligation, label):
    for k in known.get('open', []):
        if k['property'] == pid and k.get('obligation') == obligation and label in k.get('checks', []):
            return k
    return None
