"""Library models: cw-storage-plus (Item / Map / IndexedMap), Response and message
builders, coins, querier, Api, JSON (identity on typed values)."""
import re
import z3

from . import smt
from .smt import is_conc, simp
from .values import *
from .interp import model, model_re, INT_BITS, NEWTYPE_BITS
from .layouts import type_base, layouts
from .models_core import deref, default_value, _generic_args, err
from .models_coll import VecIntoIter, It, STOP, _less_values
from .parse import split_top


def mk(ty, **kw):
    """build a struct value of an external type with fields in declaration order"""
    names = layouts().struct_fields(ty)
    if names is None:
        raise Unsupported('unknown struct layout: ' + ty)
    missing = [n for n in names if n not in kw]
    if missing:
        raise Unsupported('mk(%s): missing fields %s' % (ty, missing))
    return St(type_base(ty).split('::')[-1], [kw[n] for n in names], list(names))


def mk_enum(ty, var, **kw):
    vs = layouts().enum_variants(ty)
    if vs is None:
        raise Unsupported('unknown enum layout: ' + ty)
    for n, fields in vs:
        if n == var:
            if fields and not fields[0].isdigit():
                return En(type_base(ty).split('::')[-1], var, [kw[f] for f in fields], list(fields))
            return En(type_base(ty).split('::')[-1], var, [kw[str(i)] for i in range(len(fields))])
    raise Unsupported('unknown variant %s::%s' % (ty, var))


def coin_v(denom, amount):
    return St('Coin', [denom, amount], ['denom', 'amount'])


# ----------------------------------------------------------------- storage

def storage_key(v):
    v = deref(v)
    if isinstance(v, Opaque) and v.tag == 'storage':
        return v.data
    raise Unsupported('not a storage handle: %r' % (v,))


class MapStore:
    """finite association list: entries [key tuple, value]; keys are tuples of
    scalars/strings; `complete` says whether absent keys are known to be absent"""
    __slots__ = ('entries',)

    def __init__(self):
        self.entries = []


def not_found():
    return En('StdError', 'NotFound', [])


@model_re(r'^(cw_storage_plus::)?Item::new$')
def item_new(I, c):
    return St('Item', [deref(c.args[0])])


@model_re(r'^(cw_storage_plus::)?Map::new$')
def map_new(I, c):
    return St('Map', [deref(c.args[0])])


@model_re(r'^(cw_storage_plus::)?IndexedMap::new$')
def indexed_map_new(I, c):
    ns = deref(c.args[0])
    return St('IndexedMap', [ns, St('Map', [ns]), c.args[1]], ['pk_namespace', 'primary', 'idx'])


@model_re(r'^(cw_storage_plus::)?(UniqueIndex|MultiIndex)::new$')
def index_new(I, c):
    kind = 'UniqueIndex' if 'UniqueIndex' in c.norm else 'MultiIndex'
    if kind == 'UniqueIndex':
        return St(kind, [c.args[0], deref(c.args[1])])
    return St(kind, [c.args[0], deref(c.args[1]), deref(c.args[2])])


def _ns(item):
    return deref(item).f[0]


@model_re(r'^(cw_storage_plus::)?Item::(load|may_load)$')
def item_load(I, c):
    st = I.world.store(storage_key(c.args[1]))
    ns = _ns(c.args[0])
    v = st.get(ns)
    if c.method == 'load':
        if v is None:
            return Err(not_found())
        return Ok(clone(v))
    return Ok(NONE() if v is None else Some(clone(v)))


@model_re(r'^(cw_storage_plus::)?Item::(exists)$')
def item_exists(I, c):
    st = I.world.store(storage_key(c.args[1]))
    return st.get(_ns(c.args[0])) is not None


@model_re(r'^(cw_storage_plus::)?Item::save$')
def item_save(I, c):
    st = I.world.store(storage_key(c.args[1]))
    st[_ns(c.args[0])] = clone(deref(c.args[2]))
    return Ok(UNIT)


@model_re(r'^(cw_storage_plus::)?Item::remove$')
def item_remove(I, c):
    st = I.world.store(storage_key(c.args[1]))
    st.pop(_ns(c.args[0]), None)
    return UNIT


@model_re(r'^(cw_storage_plus::)?Item::update$')
def item_update(I, c):
    st = I.world.store(storage_key(c.args[1]))
    ns = _ns(c.args[0])
    v = st.get(ns)
    if v is None:
        return Err(not_found())
    r = I.call_value(c.args[2], [clone(v)])
    if r.var == 'Err':
        return r
    st[ns] = clone(r.f[0])
    return Ok(r.f[0])


# ---- Map<K, V>: keys are flattened to tuples of atoms

def key_tuple(k):
    k = deref(k)
    if isinstance(k, St) and k.short == '()':
        out = []
        for x in k.f:
            out.extend(key_tuple(x))
        return tuple(out)
    return (k,)


def keys_eq(I, a, b):
    if len(a) != len(b):
        return False
    return smt.And(*[I.values_eq(x, y) for x, y in zip(a, b)])


def _mapstore(I, c, k=1, ns=None):
    st = I.world.store(storage_key(c.args[k]))
    ns = ns if ns is not None else _ns(c.args[0])
    ms = st.get(ns)
    if ms is None:
        ms = MapStore()
        st[ns] = ms
    return ms


def map_lookup(I, ms, key):
    for e in ms.entries:
        if I.fork(keys_eq(I, e[0], key)):
            return e
    return None


@model_re(r'^(cw_storage_plus::)?(Map|IndexedMap)::(load|may_load|has)$')
def map_load(I, c):
    ms = _mapstore(I, c)
    key = key_tuple(c.args[2])
    e = map_lookup(I, ms, key)
    if c.method == 'has':
        return e is not None
    if c.method == 'load':
        if e is None:
            return Err(not_found())
        return Ok(clone(e[1]))
    return Ok(NONE() if e is None else Some(clone(e[1])))


def _indexes_of(imap):
    imap = deref(imap)
    if imap.ty != 'IndexedMap':
        return []
    idx = imap.f[1]
    return [x for x in idx.f if isinstance(x, St) and x.short in ('UniqueIndex', 'MultiIndex')]


@model_re(r'^(cw_storage_plus::)?(Map|IndexedMap)::save$')
def map_save(I, c):
    ms = _mapstore(I, c)
    key = key_tuple(c.args[2])
    val = clone(deref(c.args[3]))
    e = map_lookup(I, ms, key)
    # unique indexes: a different primary key with the same index value is an error
    for ix in _indexes_of(c.args[0]):
        if ix.short == 'UniqueIndex':
            iv = I.call_value(ix.f[0], [Ref([val], 0)])
            for o in ms.entries:
                if o is e:
                    continue
                ov = I.call_value(ix.f[0], [Ref(o, 1)])
                if I.fork(I.values_eq(ov, iv)):
                    return Err(En('StdError', 'GenericErr', ['Violates unique constraint on index']))
    if e is not None:
        e[1] = val
    else:
        ms.entries.append([key, val])
    return Ok(UNIT)


@model_re(r'^(cw_storage_plus::)?(Map)::remove$')
def map_remove(I, c):
    ms = _mapstore(I, c)
    key = key_tuple(c.args[2])
    e = map_lookup(I, ms, key)
    if e is not None:
        ms.entries.remove(e)
    return UNIT


@model_re(r'^(cw_storage_plus::)?(IndexedMap)::remove$')
def imap_remove(I, c):
    ms = _mapstore(I, c)
    key = key_tuple(c.args[2])
    e = map_lookup(I, ms, key)
    if e is not None:
        ms.entries.remove(e)
    return Ok(UNIT)


@model_re(r'^(cw_storage_plus::)?(Map|IndexedMap)::update$')
def map_update(I, c):
    ms = _mapstore(I, c)
    key = key_tuple(c.args[2])
    e = map_lookup(I, ms, key)
    arg = NONE() if e is None else Some(clone(e[1]))
    r = I.call_value(c.args[3], [arg])
    if r.var == 'Err':
        return r
    if e is not None:
        e[1] = clone(r.f[0])
    else:
        ms.entries.append([key, clone(r.f[0])])
    return Ok(r.f[0])


# ---- range queries.  Keys are ordered by an arbitrary-but-fixed total order for strings
# (the order of their codes) and numerically for integers; entries are sorted at query
# time with forks on the comparisons.

def _key_less(I, a, b):
    for x, y in zip(a, b):
        if _less_values(I, x, y):
            return True
        if _less_values(I, y, x):
            return False
    return False


def _sorted_entries(I, entries, keyfn, descending=False):
    items = list(entries)
    for k in range(1, len(items)):
        j = k
        while j > 0 and _key_less(I, keyfn(items[j]), keyfn(items[j - 1])):
            items[j - 1], items[j] = items[j], items[j - 1]
            j -= 1
    if descending:
        items.reverse()
    return items


def _bound(I, b, key, lower):
    """does `key` satisfy the optional bound?"""
    b = deref(b)
    if b.var == 'None':
        return True
    bd = b.f[0]
    bk = key_tuple(bd.f[0]) if not isinstance(bd.f[0], Opaque) else None
    if bk is None:
        raise Unsupported('raw bound')
    incl = bd.var.startswith('Inclusive')
    if lower:
        if _key_less(I, key, bk):
            return False
        if not incl and not _key_less(I, bk, key):
            return False
        return True
    if _key_less(I, bk, key):
        return False
    if not incl and not _key_less(I, key, bk):
        return False
    return True


def _is_desc(order):
    order = deref(order)
    return isinstance(order, En) and order.var == 'Descending'


def _kv(key, val, nkeys=None):
    k = key if len(key) != 1 else key[0]
    if isinstance(k, tuple):
        k = St('()', list(k))
    return Ok(St('()', [k, clone(val)]))


@model_re(r'^(cw_storage_plus::)?(Map|IndexedMap)::(range|keys)$')
def map_range(I, c):
    ms = _mapstore(I, c)
    lo, hi, order = c.args[2], c.args[3], c.args[4]
    ents = [e for e in ms.entries if _bound(I, lo, e[0], True) and _bound(I, hi, e[0], False)]
    ents = _sorted_entries(I, ents, lambda e: e[0], _is_desc(order))
    if c.method == 'keys':
        return VecIntoIter([Ok(e[0][0] if len(e[0]) == 1 else St('()', list(e[0]))) for e in ents])
    return VecIntoIter([_kv(e[0], e[1]) for e in ents])


@model_re(r'^(cw_storage_plus::)?Map::prefix$')
def map_prefix(I, c):
    m = deref(c.args[0])
    return St('Prefix', [m.f[0], key_tuple(c.args[1])])


@model_re(r'^(cw_storage_plus::)?Prefix::(range|keys)$')
def prefix_range(I, c):
    p = deref(c.args[0])
    ns, pre = p.f[0], p.f[1]
    ms = _mapstore(I, c, 1, ns)
    lo, hi, order = c.args[2], c.args[3], c.args[4]
    n = len(pre)
    ents = []
    for e in ms.entries:
        if I.fork(keys_eq(I, e[0][:n], pre)):
            rest = e[0][n:]
            if _bound(I, lo, rest, True) and _bound(I, hi, rest, False):
                ents.append((rest, e[1]))
    ents = _sorted_entries(I, ents, lambda e: e[0], _is_desc(order))
    if c.method == 'keys':
        return VecIntoIter([Ok(e[0][0] if len(e[0]) == 1 else St('()', list(e[0]))) for e in ents])
    return VecIntoIter([_kv(e[0], e[1]) for e in ents])


@model_re(r'^(cw_storage_plus::)?MultiIndex::prefix$')
def multiindex_prefix(I, c):
    ix = deref(c.args[0])
    return St('IndexPrefix', [ix, key_tuple(c.args[1])])


@model_re(r'^(cw_storage_plus::)?IndexPrefix::(range|keys)$')
def index_prefix_range(I, c):
    p = deref(c.args[0])
    ix, pre = p.f[0], p.f[1]
    pk_ns = ix.f[1]
    ms = _mapstore(I, c, 1, pk_ns)
    lo, hi, order = c.args[2], c.args[3], c.args[4]
    ents = []
    for e in ms.entries:
        pkv = e[0][0] if len(e[0]) == 1 else St('()', list(e[0]))
        iv = I.call_value(ix.f[0], [Opaque('pkbytes', pkv), Ref(e, 1)])
        if I.fork(keys_eq(I, key_tuple(iv), pre)):
            if _bound(I, lo, e[0], True) and _bound(I, hi, e[0], False):
                ents.append(e)
    ents = _sorted_entries(I, ents, lambda e: e[0], _is_desc(order))
    return VecIntoIter([_kv(e[0], e[1]) for e in ents])


@model_re(r'^(cw_storage_plus::)?Bound::(exclusive|inclusive)$')
def bound_ctor(I, c):
    return En('Bound', 'Exclusive' if c.method == 'exclusive' else 'Inclusive', [c.args[0]])


# ----------------------------------------------------------------- Response / messages

def new_response():
    return St('Response', [Vc([]), Vc([]), Vc([]), NONE()], ['messages', 'attributes', 'events', 'data'])


@model_re(r'^Response::new$')
def response_new(I, c):
    return new_response()


def submsg(msg, reply_on='Never', id_=0, payload=None):
    return St('SubMsg', [id_, payload if payload is not None else Opaque('binary', b''), msg, NONE(), En('ReplyOn', reply_on)],
              ['id', 'payload', 'msg', 'gas_limit', 'reply_on'])


def to_cosmos(v):
    v = deref(v)
    if isinstance(v, En) and v.short == 'CosmosMsg':
        return v
    if isinstance(v, En) and v.short == 'BankMsg':
        return En('CosmosMsg', 'Bank', [v])
    if isinstance(v, En) and v.short == 'WasmMsg':
        return En('CosmosMsg', 'Wasm', [v])
    if isinstance(v, St) and v.short == 'SubMsg':
        return v
    raise Unsupported('cannot convert to CosmosMsg: %r' % (v,))


@model_re(r'^Response::(add_attribute|add_attributes|add_event|add_events)$')
def response_attrs(I, c):
    r = c.args[0]
    if c.method == 'add_attributes':
        from .models_coll import as_iter
        it = as_iter(I, c.args[1])
        while True:
            v = it.next(I)
            if v is STOP:
                break
            r.get('attributes').e.append(v)
    elif c.method == 'add_attribute':
        r.get('attributes').e.append(St('()', [c.args[1], c.args[2]]))
    return r


@model_re(r'^Response::(add_message|add_messages|add_submessage|add_submessages)$')
def response_msgs(I, c):
    r = c.args[0]
    from .models_coll import as_iter
    if c.method == 'add_message':
        r.get('messages').e.append(submsg(to_cosmos(c.args[1])))
    elif c.method == 'add_submessage':
        r.get('messages').e.append(c.args[1])
    else:
        it = as_iter(I, c.args[1])
        while True:
            v = it.next(I)
            if v is STOP:
                break
            if c.method == 'add_messages':
                r.get('messages').e.append(submsg(to_cosmos(v)))
            else:
                r.get('messages').e.append(deref(v))
    return r


@model_re(r'^Response::set_data$')
def response_set_data(I, c):
    r = c.args[0]
    r.set('data', Some(c.args[1]))
    return r


@model_re(r'^SubMsg::(new|reply_on_success|reply_on_error|reply_always|reply_never)$')
def submsg_ctor(I, c):
    mode = {'new': 'Never', 'reply_never': 'Never', 'reply_on_success': 'Success', 'reply_on_error': 'Error', 'reply_always': 'Always'}[c.method]
    msg = to_cosmos(c.args[0])
    id_ = c.args[1] if len(c.args) > 1 else 0
    return submsg(msg, mode, id_)


@model_re(r'^SubMsgResult::(is_err|is_ok|unwrap_err|unwrap|into_result)$')
def submsg_result(I, c):
    r = deref(c.args[0])
    m = c.method
    if m == 'is_err':
        return r.var == 'Err'
    if m == 'is_ok':
        return r.var == 'Ok'
    if m == 'unwrap_err':
        if r.var != 'Err':
            raise RustPanic('unwrap_err on Ok')
        return r.f[0]
    if m == 'unwrap':
        if r.var != 'Ok':
            raise RustPanic('unwrap on Err')
        return r.f[0]
    return En('Result', r.var, r.f)


@model('attr', 'cosmwasm_std::attr')
def attr_model(I, c):
    return St('Attribute', [deref(c.args[0]), deref(c.args[1])], ['key', 'value'])


@model_re(r'^Attribute::new$')
def attribute_new(I, c):
    return St('Attribute', [deref(c.args[0]), deref(c.args[1])], ['key', 'value'])


@model('coin', 'cosmwasm_std::coin')
def coin_model(I, c):
    return coin_v(deref(c.args[1]), c.args[0])


@model('coins', 'cosmwasm_std::coins')
def coins_model(I, c):
    return Vc([coin_v(deref(c.args[1]), c.args[0])])


@model_re(r'^Coin::new$')
def coin_new(I, c):
    return coin_v(deref(c.args[1]), c.args[0])


@model_re(r'^(to_json_binary|cosmwasm_std::to_json_binary|to_json_vec|to_json_string)$')
def to_json_binary(I, c):
    return Ok(Opaque('json', clone(deref(c.args[0]))))


@model_re(r'^(from_json|cosmwasm_std::from_json)$')
def from_json(I, c):
    v = deref(c.args[0])
    if isinstance(v, Opaque) and v.tag == 'json':
        return Ok(clone(v.data))
    raise Unsupported('from_json of non-typed payload %r' % (v,))


@model_re(r'^(wasm_execute|cosmwasm_std::wasm_execute)$')
def wasm_execute(I, c):
    addr, msg, funds = deref(c.args[0]), deref(c.args[1]), c.args[2]
    return Ok(En('WasmMsg', 'Execute', [addr, Opaque('json', clone(msg)), funds], ['contract_addr', 'msg', 'funds']))


@model_re(r'^StdError::(generic_err|overflow|not_found|parse_err|serialize_err|invalid_utf8)$|^cosmwasm_std::StdError::(generic_err|overflow|not_found)$')
def stderror_ctor(I, c):
    return En('StdError', c.method, list(c.args))


@model_re(r'^(OverflowError|ConversionOverflowError|DivideByZeroError)::new$')
def overflow_new(I, c):
    return err(c.norm.split('::')[0])


@model_re(r'^DepsMut::(as_ref|branch)$|^Deps::(as_ref|branch)$')
def deps_as_ref(I, c):
    d = deref(c.args[0])
    return St(d.ty, list(d.f), d.names)


@model_re(r'as (cosmwasm_std::)?Api>::addr_validate$')
def addr_validate(I, c):
    s = deref(c.args[1])
    ok = I.addr_valid(s)
    if I.fork(ok):
        return Ok(s)
    return Err(En('StdError', 'GenericErr', ['invalid address']))


@model('set_contract_version', 'cw2::set_contract_version')
def set_contract_version(I, c):
    st = I.world.store(storage_key(c.args[0]))
    st['contract_info'] = St('ContractVersion', [deref(c.args[1]), deref(c.args[2])], ['contract', 'version'])
    return Ok(UNIT)


# ----------------------------------------------------------------- cosmwasm_std::Coins (a BTreeMap<denom, Coin>: sorted by denom, amounts merged, zero coins dropped)

def _coins_of(v):
    v = deref(v)
    if not (isinstance(v, St) and v.short == 'Coins'):
        raise Unsupported('Coins value expected, got %r' % (v,))
    return v


@model_re(r'^Coins::add$')
def coins_add(I, c):
    cs = _coins_of(c.args[0])
    coin = deref(c.args[1])
    amt = coin.get('amount')
    if I.fork(smt.Eq(amt, 0)):
        return Ok(UNIT)
    d = coin.get('denom')
    if not isinstance(d, str):
        raise Unsupported('Coins::add with a symbolic denom')
    lst = cs.f[0].e
    for x in lst:
        if x.get('denom') == d:
            tot = simp(x.get('amount') + amt)
            if I.fork(tot >= (1 << 128)):
                return Err(En('StdError', 'Overflow', [Opaque('overflow')]))
            x.set('amount', tot)
            return Ok(UNIT)
    lst.append(clone(coin))
    lst.sort(key=lambda x: x.get('denom'))
    return Ok(UNIT)


@model_re(r'^Coins::(into_vec|to_vec)$')
def coins_into_vec(I, c):
    return Vc([clone(x) for x in _coins_of(c.args[0]).f[0].e])


@model_re(r'^Coins::(is_empty|len)$')
def coins_len(I, c):
    n = len(_coins_of(c.args[0]).f[0].e)
    return n == 0 if c.method == 'is_empty' else n


@model_re(r'^Coins::amount_of$')
def coins_amount_of(I, c):
    d = deref(c.args[1])
    for x in _coins_of(c.args[0]).f[0].e:
        if x.get('denom') == d:
            return x.get('amount')
    return 0
