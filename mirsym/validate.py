"""Differential validation of the library models (translator validation, DESIGN 3.5).

Every arithmetic primitive of cosmwasm-std that the contracts use is modelled by hand in
models_core.py.  This module pushes boundary-rich concrete arguments through BOTH the model
(the same `call_callee` dispatch the executor uses, with concrete integers) and the real
cosmwasm-std pinned by /repo/Cargo.lock (`replay prim`, one JSON request per line), and
compares value / Err-vs-Ok / panic.  A mismatch means a model is wrong: every check that
loads this result turns inconclusive (exit 2) instead of trusting the model.

The result is cached by the hash of the model sources, the replayer and Cargo.lock.
This validates the translator; it decides no property.
"""
import hashlib
import json
import os
import random
import subprocess
import sys
import time

ROOT = os.path.dirname(os.path.dirname(os.path.abspath(__file__)))
CACHE = os.path.join(ROOT, '.cache')

U64 = (1 << 64) - 1
U128 = (1 << 128) - 1
U256 = (1 << 256) - 1
U512 = (1 << 512) - 1
E18 = 10 ** 18


def _pool(maxv, rnd):
    base = [0, 1, 2, 3, 7, 10, 999, 1000, 10 ** 6, 10 ** 9, E18 - 1, E18, E18 + 1, 2 * E18, 5 * 10 ** 17, 10 ** 17,
            10 ** 16, 10 ** 15, 3 * 10 ** 15, 10 ** 24, 10 ** 36, 10 ** 38, U64 - 1, U64, U64 + 1, U128 - 1, U128, U128 + 1,
            U128 // E18, U128 // E18 + 1, (1 << 127), (1 << 255), U256 - 1, U256, U256 + 1, U256 // E18, U256 // E18 + 1,
            (1 << 511), U512 - 1, U512]
    vals = [v for v in base if v <= maxv]
    for _ in range(10):
        vals.append(rnd.randrange(0, maxv + 1))
        vals.append(rnd.randrange(0, min(maxv, 10 ** rnd.randrange(1, 40)) + 1))
    return vals


# op -> (callee as it appears in MIR, [kinds])    kinds: u64 u128 u256 u512 d (Decimal atomics) d256 frac128 frac64 exp
OPS = {
    'u128.checked_add': ('Uint128::checked_add', ['u128', 'u128']),
    'u128.checked_sub': ('Uint128::checked_sub', ['u128', 'u128']),
    'u128.checked_mul': ('Uint128::checked_mul', ['u128', 'u128']),
    'u128.checked_div': ('Uint128::checked_div', ['u128', 'u128']),
    'u128.saturating_sub': ('Uint128::saturating_sub', ['u128', 'u128']),
    'u128.multiply_ratio': ('Uint128::multiply_ratio::<Uint128, Uint128>', ['u128', 'u128', 'u128']),
    'u128.checked_multiply_ratio': ('Uint128::checked_multiply_ratio::<Uint128, Uint128>', ['u128', 'u128', 'u128']),
    'u128.checked_mul_floor_dec': ('Uint128::checked_mul_floor::<Decimal, Uint128>', ['u128', 'd']),
    'u128.checked_div_floor_dec': ('Uint128::checked_div_floor::<Decimal, Uint128>', ['u128', 'd']),
    'u128.checked_mul_floor_frac': ('Uint128::checked_mul_floor::<(Uint128, Uint128), Uint128>', ['u128', 'frac128']),
    'u128.checked_div_floor_frac': ('Uint128::checked_div_floor::<(Uint128, Uint128), Uint128>', ['u128', 'frac128']),
    'u128.abs_diff': ('Uint128::abs_diff', ['u128', 'u128']),
    'u128.add': ('<Uint128 as Add>::add', ['u128', 'u128']),
    'u128.sub': ('<Uint128 as Sub>::sub', ['u128', 'u128']),
    'u128.mul': ('<Uint128 as Mul>::mul', ['u128', 'u128']),
    'u128.div': ('<Uint128 as Div>::div', ['u128', 'u128']),
    'u128.rem': ('<Uint128 as Rem>::rem', ['u128', 'u128']),
    'u64.checked_div_floor_frac': ('Uint64::checked_div_floor::<(u64, u64), u64>', ['u64', 'frac64']),
    'u64.checked_add': ('Uint64::checked_add', ['u64', 'u64']),
    'u64.checked_mul': ('Uint64::checked_mul', ['u64', 'u64']),
    'u256.checked_add': ('Uint256::checked_add', ['u256', 'u256']),
    'u256.checked_sub': ('Uint256::checked_sub', ['u256', 'u256']),
    'u256.checked_mul': ('Uint256::checked_mul', ['u256', 'u256']),
    'u256.checked_div': ('Uint256::checked_div', ['u256', 'u256']),
    'u256.multiply_ratio': ('Uint256::multiply_ratio::<Uint256, Uint256>', ['u256', 'u256', 'u256']),
    'u256.checked_multiply_ratio': ('Uint256::checked_multiply_ratio::<Uint256, Uint256>', ['u256', 'u256', 'u256']),
    'u256.saturating_sub': ('Uint256::saturating_sub', ['u256', 'u256']),
    'u256.try_into_u128': ('<Uint128 as TryFrom<Uint256>>::try_from', ['u256']),
    'u512.checked_add': ('Uint512::checked_add', ['u512', 'u512']),
    'u512.checked_sub': ('Uint512::checked_sub', ['u512', 'u512']),
    'u512.checked_mul': ('Uint512::checked_mul', ['u512', 'u512']),
    'u512.checked_div': ('Uint512::checked_div', ['u512', 'u512']),
    'u512.saturating_mul': ('Uint512::saturating_mul', ['u512', 'u512']),
    'u512.saturating_sub': ('Uint512::saturating_sub', ['u512', 'u512']),
    'u512.abs_diff': ('Uint512::abs_diff', ['u512', 'u512']),
    'u512.isqrt': ('<Uint512 as Isqrt>::isqrt', ['u512']),
    'u512.try_into_u128': ('<Uint128 as TryFrom<Uint512>>::try_from', ['u512']),
    'u512.try_into_u256': ('<Uint256 as TryFrom<Uint512>>::try_from', ['u512']),
    'dec.percent': ('Decimal::percent', ['small']),
    'dec.permille': ('Decimal::permille', ['small']),
    'dec.from_ratio': ('Decimal::from_ratio::<Uint128, Uint128>', ['u128', 'u128']),
    'dec.checked_from_ratio': ('Decimal::checked_from_ratio::<Uint128, Uint128>', ['u128', 'u128']),
    'dec.from_atomics': ('Decimal::from_atomics::<Uint128>', ['u128', 'places']),
    'dec.checked_add': ('Decimal::checked_add', ['d', 'd']),
    'dec.checked_sub': ('Decimal::checked_sub', ['d', 'd']),
    'dec.checked_mul': ('Decimal::checked_mul', ['d', 'd']),
    'dec.checked_div': ('Decimal::checked_div', ['d', 'd']),
    'dec.checked_pow': ('Decimal::checked_pow', ['d', 'exp']),
    'dec.mul': ('<Decimal as Mul>::mul', ['d', 'd']),
    'dec.to_uint_floor': ('Decimal::to_uint_floor', ['d']),
    'dec.to_uint_ceil': ('Decimal::to_uint_ceil', ['d']),
    'dec.inv': ('<Decimal as Fraction<Uint128>>::inv', ['d']),
    'dec.min': ('<Decimal as Ord>::min', ['d', 'd']),
    'dec256.from_ratio': ('Decimal256::from_ratio::<Uint256, Uint256>', ['u256', 'u256']),
    'dec256.checked_from_ratio': ('Decimal256::checked_from_ratio::<Uint256, Uint256>', ['u256', 'u256']),
    'dec256.from_atomics': ('Decimal256::from_atomics::<Uint256>', ['u256', 'places']),
    'dec256.checked_add': ('Decimal256::checked_add', ['d256', 'd256']),
    'dec256.checked_sub': ('Decimal256::checked_sub', ['d256', 'd256']),
    'dec256.checked_mul': ('Decimal256::checked_mul', ['d256', 'd256']),
    'dec256.checked_div': ('Decimal256::checked_div', ['d256', 'd256']),
    'dec256.checked_pow': ('Decimal256::checked_pow', ['d256', 'exp']),
    'dec256.pow': ('Decimal256::pow', ['d256', 'exp']),
    'dec256.mul': ('<Decimal256 as Mul>::mul', ['d256', 'd256']),
    'dec256.div': ('<Decimal256 as Div>::div', ['d256', 'd256']),
    'dec256.sub': ('<Decimal256 as Sub>::sub', ['d256', 'd256']),
    'dec256.to_uint_floor': ('Decimal256::to_uint_floor', ['d256']),
    'dec256.inv': ('<Decimal256 as Fraction<Uint256>>::inv', ['d256']),
    'ts.seconds': ('Timestamp::seconds', ['u64']),
    'ts.from_seconds': ('Timestamp::from_seconds', ['secs']),
    'ts.plus_seconds': ('Timestamp::plus_seconds', ['u64', 'secs']),
    'ts.minus_seconds': ('Timestamp::minus_seconds', ['u64', 'secs']),
}

KIND_MAX = {'u64': U64, 'u128': U128, 'u256': U256, 'u512': U512, 'd': U128, 'd256': U256}


def _cases(kinds, rnd, per_op):
    pools = []
    for k in kinds:
        if k in KIND_MAX:
            pools.append(_pool(KIND_MAX[k], rnd))
        elif k == 'frac128':
            p = _pool(U128, rnd)
            pools.append([(a, b) for a in p[::3] for b in p[::4]])
        elif k == 'frac64':
            p = _pool(U64, rnd)
            pools.append([(a, b) for a in p[::2] for b in p[::3]])
        elif k == 'small':
            pools.append([0, 1, 3, 50, 100, 1000, 12345])
        elif k == 'places':
            pools.append([0, 1, 6, 17, 18, 19, 24, 40, 80])
        elif k == 'exp':
            pools.append([0, 1, 2, 3, 4, 5, 7, 10, 11])
        elif k == 'secs':
            pools.append([0, 1, 86400, 10 ** 9, U64 // 10 ** 9 - 1, U64 // 10 ** 9, U64 // 10 ** 9 + 1])
    out = []
    # all boundary pairs for arity <= 2 would be thousands per op; sample a fixed number, always
    # including the diagonal-ish combinations of the first (boundary) values
    seen = set()
    tries = 0
    while len(out) < per_op and tries < per_op * 20:
        tries += 1
        c = tuple(rnd.choice(p) for p in pools)
        if c in seen:
            continue
        seen.add(c)
        out.append(c)
    return out


def _native(reqs):
    from . import replayer
    out = replayer.prim_batch(reqs)
    if len(out) != len(reqs):
        raise RuntimeError('prim: %d answers for %d requests' % (len(out), len(reqs)))
    return out


def _argval(kind, v):
    from .values import St
    if kind in ('frac128', 'frac64'):
        return St('(T, T)', [v[0], v[1]])
    return v


def _wire(kind, v):
    if kind in ('frac128', 'frac64'):
        return [str(v[0]), str(v[1])]
    return [str(v)]


def _model_eval(I, callee, kinds, vals):
    from .values import En, RustPanic, Unsupported
    try:
        r = I.call_callee(callee, [_argval(k, v) for k, v in zip(kinds, vals)], None)
    except RustPanic:
        return {'panic': True}
    if isinstance(r, En):
        if r.var in ('Ok', 'Some'):
            r = r.f[0]
        else:
            return {'err': True}
    if isinstance(r, bool) or not isinstance(r, int):
        try:
            import z3
            from .smt import simp
            r = simp(r)
            if z3.is_int_value(r):
                r = r.as_long()
        except Exception:
            pass
    if not isinstance(r, int):
        return {'unsupported': repr(r)[:80]}
    return {'ok': str(r)}


def _key():
    h = hashlib.sha256()
    for f in ['mirsym/models_core.py', 'mirsym/smt.py', 'mirsym/validate.py', 'replay/src/prim.rs', 'replay/Cargo.toml']:
        h.update(open(os.path.join(ROOT, f), 'rb').read())
    try:
        h.update(open('/repo/Cargo.lock', 'rb').read())
    except OSError:
        pass
    return h.hexdigest()[:16]


def run(per_op=160, seed=20260101, verbose=False):
    from .engine import ScenarioInterp, Result
    from .dump import load_program
    from .values import Unsupported
    prog = load_program()[0]
    rnd = random.Random(seed)
    reqs, meta = [], []
    for op, (callee, kinds) in OPS.items():
        for vals in _cases(kinds, rnd, per_op):
            args = []
            for k, v in zip(kinds, vals):
                args += _wire(k, v)
            reqs.append({'op': op, 'args': args})
            meta.append((op, callee, kinds, vals))
    t0 = time.time()
    nat = _native(reqs)
    res = Result('validate')
    mismatches = []
    unsupported = {}
    per = {}
    for (op, callee, kinds, vals), n in zip(meta, nat):
        I = ScenarioInterp(prog, [], res.stats, {}, res)
        try:
            m = _model_eval(I, callee, kinds, vals)
        except Unsupported as e:
            m = {'unsupported': str(e)[:100]}
        per.setdefault(op, [0, 0])
        per[op][0] += 1
        if 'unknown' in n:
            unsupported[op] = 'native: unknown op'
            continue
        if 'unsupported' in m:
            unsupported[op] = m['unsupported']
            continue
        same = (('panic' in n) == ('panic' in m)) and (('err' in n) == ('err' in m)) and (n.get('ok') == m.get('ok'))
        if same:
            per[op][1] += 1
        else:
            mismatches.append({'op': op, 'args': [str(v) for v in vals], 'native': n, 'model': m})
    out = {'key': _key(), 'ops': len(OPS), 'cases': len(reqs), 'agree': sum(v[1] for v in per.values()),
           'mismatches': mismatches[:20], 'n_mismatches': len(mismatches), 'unsupported': unsupported,
           'wall_s': round(time.time() - t0, 2), 'seed': seed}
    if verbose:
        for op, (n, a) in sorted(per.items()):
            if n != a:
                print('  %-32s %d/%d agree' % (op, a, n))
    return out


def ensure(verbose=False):
    """cached result for the current model sources; recomputed when they change"""
    os.makedirs(CACHE, exist_ok=True)
    p = os.path.join(CACHE, 'model_validation.json')
    try:
        d = json.load(open(p))
        if d.get('key') == _key():
            return d
    except Exception:
        pass
    d = run(verbose=verbose)
    with open(p + '.tmp', 'w') as f:
        json.dump(d, f, indent=1)
    os.replace(p + '.tmp', p)
    return d


if __name__ == '__main__':
    d = run(verbose=True) if '--fresh' in sys.argv else ensure(verbose=True)
    print(json.dumps({k: v for k, v in d.items() if k != 'mismatches'}, indent=1))
    for m in d['mismatches']:
        print('MISMATCH', json.dumps(m))
    sys.exit(1 if d['n_mismatches'] or d['unsupported'] else 0)
