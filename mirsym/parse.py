"""Parser for the text produced by `rustc -Zunpretty=mir`.

Produces Func objects with basic blocks of statements / terminators represented
as plain tuples.  Types are kept as strings (helpers in types.py analyse them).
"""
import re
from dataclasses import dataclass, field

OPEN = {'(': ')', '[': ']', '{': '}', '<': '>'}
CLOSE = {')', ']', '}', '>'}


class ParseError(Exception):
    pass


def _skip_string(s, i):
    """s[i] == '"' ; return index just past the closing quote."""
    j = i + 1
    n = len(s)
    while j < n:
        c = s[j]
        if c == '\\':
            j += 2
            continue
        if c == '"':
            return j + 1
        j += 1
    return n


def scan_depth0(s, start=0):
    """Yield (index, char) for characters of s that are at bracket depth 0
    (outside strings).  Handles '->' and '=>' so that '>' in them is not a closer."""
    depth = 0
    i = start
    n = len(s)
    while i < n:
        c = s[i]
        if c == '"':
            j = _skip_string(s, i)
            if depth == 0:
                yield i, '"'
            i = j
            continue
        if c == "'" and i + 2 < n and s[i + 2] == "'" and s[i + 1] != '\\':
            i += 3
            continue
        if c == "'" and i + 3 < n and s[i + 1] == '\\' and s[i + 3] == "'":
            i += 4
            continue
        if c == '-' and i + 1 < n and s[i + 1] == '>':
            if depth == 0:
                yield i, '-'
            i += 2
            continue
        if c == '=' and i + 1 < n and s[i + 1] == '>':
            i += 2
            continue
        if c in OPEN:
            if depth == 0:
                yield i, c
            depth += 1
        elif c in CLOSE:
            depth -= 1
            if depth == 0:
                yield i, c
        else:
            if depth == 0:
                yield i, c
        i += 1


def find_top(s, sub, start=0):
    """index of first occurrence of `sub` at depth 0, or -1."""
    L = len(sub)
    for i, c in scan_depth0(s, start):
        if c == sub[0] and s.startswith(sub, i):
            return i
    return -1


def rfind_top(s, sub):
    last = -1
    for i, c in scan_depth0(s):
        if c == sub[0] and s.startswith(sub, i):
            last = i
    return last


def split_top(s, sep=','):
    parts = []
    last = 0
    for i, c in scan_depth0(s):
        if c == sep:
            parts.append(s[last:i].strip())
            last = i + 1
    tail = s[last:].strip()
    if tail or parts:
        parts.append(tail)
    if parts and parts[-1] == '':
        parts.pop()
    return parts


def match_close(s, i):
    """s[i] is an opening bracket; return index of its matching closer."""
    depth = 0
    n = len(s)
    j = i
    while j < n:
        c = s[j]
        if c == '"':
            j = _skip_string(s, j)
            continue
        if c == "'" and j + 2 < n and s[j + 2] == "'" and s[j + 1] != '\\':
            j += 3
            continue
        if c == '-' and j + 1 < n and s[j + 1] == '>':
            j += 2
            continue
        if c == '=' and j + 1 < n and s[j + 1] == '>':
            j += 2
            continue
        if c in OPEN:
            depth += 1
        elif c in CLOSE:
            depth -= 1
            if depth == 0:
                return j
        j += 1
    raise ParseError('unbalanced: ' + s[i:i + 80])


# ---------------------------------------------------------------- places

def parse_place(s):
    """Parse a place expression; returns (local, projs) ; s must be entirely a place."""
    s = s.strip()
    pl, rest = _parse_place_prefix(s)
    if rest.strip():
        raise ParseError('trailing after place: %r in %r' % (rest, s))
    return pl


def _parse_place_prefix(s):
    """Parse a place at the start of s; return (place, remainder)."""
    if s.startswith('_'):
        m = re.match(r'_(\d+)', s)
        if not m:
            raise ParseError('bad local ' + s[:40])
        base = (int(m.group(1)), ())
        rest = s[m.end():]
    elif s.startswith('('):
        j = match_close(s, 0)
        inner = s[1:j]
        rest = s[j + 1:]
        if inner.startswith('*'):
            p = parse_place(inner[1:])
            base = (p[0], p[1] + (('deref',),))
        else:
            # (PLACE.N: T)  or (PLACE as Variant)
            p, r2 = _parse_place_prefix(inner)
            if r2.startswith(' as '):
                base = (p[0], p[1] + (('downcast', r2[4:].strip()),))
            elif r2.startswith('.'):
                m = re.match(r'\.(\d+): ', r2)
                if not m:
                    raise ParseError('bad field proj ' + r2[:60])
                ty = r2[m.end():].strip()
                base = (p[0], p[1] + (('field', int(m.group(1)), ty),))
            else:
                raise ParseError('bad paren place ' + inner[:80])
    else:
        raise ParseError('bad place ' + s[:60])
    # index projections
    while rest.startswith('['):
        j = match_close(rest, 0)
        idx = rest[1:j]
        rest = rest[j + 1:]
        m = re.match(r'^_(\d+)$', idx)
        if m:
            base = (base[0], base[1] + (('index', int(m.group(1))),))
            continue
        m = re.match(r'^(-?)(\d+) of (\d+)$', idx)
        if m:
            base = (base[0], base[1] + (('constindex', int(m.group(2)), int(m.group(3)), m.group(1) == '-'),))
            continue
        m = re.match(r'^(\d+):(-?)(\d+)$', idx)
        if m:
            base = (base[0], base[1] + (('subslice', int(m.group(1)), int(m.group(3)), m.group(2) == '-'),))
            continue
        m = re.match(r'^(\d+):$', idx)
        if m:
            base = (base[0], base[1] + (('subslice', int(m.group(1)), 0, True),))
            continue
        raise ParseError('bad index ' + idx)
    return base, rest


def parse_operand(s):
    s = s.strip()
    if s.startswith('no_retag '):
        s = s[9:]
    if s.startswith('move '):
        return ('move', parse_place(s[5:]))
    if s.startswith('copy '):
        return ('copy', parse_place(s[5:]))
    if s.startswith('const '):
        return ('const', s[6:].strip())
    if s.startswith('_') or s.startswith('('):
        raise ParseError('bad operand ' + s[:80])
    return ('const', s)   # bare function item / ZST


BINOPS = {'Add', 'Sub', 'Mul', 'Div', 'Rem', 'BitXor', 'BitAnd', 'BitOr', 'Shl', 'Shr',
          'Eq', 'Lt', 'Le', 'Ne', 'Ge', 'Gt', 'Offset', 'Cmp',
          'AddWithOverflow', 'SubWithOverflow', 'MulWithOverflow',
          'AddUnchecked', 'SubUnchecked', 'MulUnchecked', 'ShlUnchecked', 'ShrUnchecked'}
UNOPS = {'Not', 'Neg', 'PtrMetadata'}


def parse_rvalue(s):
    s = s.strip()
    if s.startswith('no_retag '):
        s = s[9:]
    if s.startswith('&raw const '):
        return ('rawptr', False, parse_place(s[11:]))
    if s.startswith('&raw mut '):
        return ('rawptr', True, parse_place(s[9:]))
    if s.startswith('&mut '):
        return ('ref', True, parse_place(s[5:]))
    if s.startswith('&fake shallow '):
        return ('ref', False, parse_place(s[14:]))
    if s.startswith('&'):
        return ('ref', False, parse_place(s[1:]))
    if s.startswith('deref_copy '):
        return ('use', ('copy', parse_place(s[11:])))
    if s.startswith(('move ', 'copy ')):
        kind = s[:4]
        pl, rest = _parse_place_prefix(s[5:])
        if rest.startswith(' as '):
            ty, ck = _split_cast(rest[4:])
            return ('cast', (kind, pl), ty, ck)
        if rest.strip():
            raise ParseError('trailing in use rvalue: ' + s[:100])
        return ('use', (kind, pl))
    if s.startswith('const '):
        i = find_top(s, ' as ')
        if i >= 0 and s.endswith(')'):
            ty, ck = _split_cast(s[i + 4:])
            return ('cast', ('const', s[6:i].strip()), ty, ck)
        return ('use', ('const', s[6:].strip()))
    if s.startswith('discriminant('):
        return ('discr', parse_place(s[13:-1]))
    if s.startswith('Len('):
        return ('len', parse_place(s[4:-1]))
    m = re.match(r'^([A-Z][A-Za-z]*)\(', s)
    if m and m.group(1) in BINOPS and s.endswith(')'):
        a, b = split_top(s[m.end():-1])
        return ('binop', m.group(1), parse_operand(a), parse_operand(b))
    if m and m.group(1) in UNOPS and s.endswith(')'):
        return ('unop', m.group(1), parse_operand(s[m.end():-1]))
    if s.startswith('['):
        j = match_close(s, 0)
        inner = s[1:j]
        k = find_top(inner, ';')
        if k >= 0:
            return ('repeat', parse_operand(inner[:k]), inner[k + 1:].strip())
        return ('array', [parse_operand(x) for x in split_top(inner)])
    if s.startswith('('):
        j = match_close(s, 0)
        if j == len(s) - 1:
            inner = s[1:j]
            return ('tuple', [parse_operand(x) for x in split_top(inner)])
    if s.startswith('{closure@') or s.startswith('{coroutine@'):
        j = match_close(s, 0)
        key = s[:j + 1]
        rest = s[j + 1:].strip()
        caps = []
        if rest:
            caps = _parse_named_fields(rest)
        return ('closure', key, caps)
    # ADT aggregate: Path, Path(args), Path { f: v }
    if s.endswith('}'):
        i = find_top(s, ' {')
        if i >= 0:
            path = s[:i]
            return ('adt', path, _parse_named_fields(s[i + 1:]))
    if s.endswith(')'):
        # find the '(' matching the final ')'
        i = _open_of_last(s)
        path = s[:i]
        args = split_top(s[i + 1:-1])
        return ('adt', path, [(None, parse_operand(a)) for a in args])
    return ('adt', s, [])


def _open_of_last(s):
    # index of the '(' that matches the final ')'
    last_open = -1
    for i, c in scan_depth0(s):
        if c == '(':
            last_open = i
    if last_open < 0:
        raise ParseError('no open paren: ' + s[:80])
    return last_open


def _parse_named_fields(s):
    s = s.strip()
    assert s.startswith('{') and s.endswith('}'), s
    inner = s[1:-1].strip()
    out = []
    for part in split_top(inner):
        k = part.index(': ')
        out.append((part[:k].strip(), parse_operand(part[k + 2:])))
    return out


def _split_cast(s):
    # "TYPE (CastKind...)"
    s = s.strip()
    assert s.endswith(')'), s
    # find the opening paren matching the last ')', at depth 0
    i = _open_of_last(s)
    return s[:i].strip(), s[i + 1:-1]


# ---------------------------------------------------------------- statements / terminators

def parse_targets(s):
    # "[0: bb4, 1: bb5, otherwise: bb3]" -> dict
    s = s.strip()
    assert s.startswith('[') and s.endswith(']'), s
    out = {}
    for part in split_top(s[1:-1]):
        if ': ' not in part:
            continue
        k, v = part.split(': ', 1)
        out[k.strip()] = v.strip()
    return out


def _bb(s):
    m = re.match(r'bb(\d+)$', s.strip())
    if not m:
        return None
    return int(m.group(1))


NOP_PREFIX = ('StorageLive(', 'StorageDead(', 'ConstEvalCounter', 'nop', 'Retag(', 'FakeRead(',
              'PlaceMention(', 'AscribeUserType(', 'Coverage', 'Deinit(', 'BackwardIncompatibleDropHint')


def parse_line(line):
    """Parse one statement/terminator line (without trailing ';').  Returns (is_term, tuple)."""
    s = line.strip()
    if s.endswith(';'):
        s = s[:-1]
    if s.startswith(NOP_PREFIX):
        return False, ('nop',)
    if s.startswith('goto -> '):
        return True, ('goto', _bb(s[8:]))
    if s == 'return':
        return True, ('return',)
    if s in ('resume', 'abort', 'unreachable') or s.startswith('terminate'):
        return True, (s.split('(')[0],)
    if s.startswith('switchInt('):
        j = match_close(s, 9)
        op = parse_operand(s[10:j])
        rest = s[j + 1:].strip()
        assert rest.startswith('-> ')
        tg = parse_targets(rest[3:])
        targets = []
        otherwise = None
        for k, v in tg.items():
            if k == 'otherwise':
                otherwise = _bb(v)
            else:
                targets.append((int(k), _bb(v)))
        return True, ('switch', op, targets, otherwise)
    if s.startswith('drop('):
        j = match_close(s, 4)
        pl = parse_place(s[5:j])
        rest = s[j + 1:].strip()
        tg = parse_targets(rest[3:])
        return True, ('drop', pl, _bb(tg['return']))
    if s.startswith('assert('):
        j = match_close(s, 6)
        args = split_top(s[7:j])
        cond = args[0].strip()
        expected = True
        if cond.startswith('!'):
            expected = False
            cond = cond[1:]
        rest = s[j + 1:].strip()
        tg = parse_targets(rest[3:])
        return True, ('assert', parse_operand(cond), expected, args[1] if len(args) > 1 else '', _bb(tg['success']))
    if s.startswith('falseEdge') or s.startswith('falseUnwind'):
        raise ParseError('unexpected ' + s)
    if s.startswith('discriminant('):
        j = match_close(s, 12)
        pl = parse_place(s[13:j])
        rest = s[j + 1:].strip()
        assert rest.startswith('= ')
        return False, ('setdiscr', pl, int(rest[2:]))
    # assignment or call
    ar = rfind_top(s, ' -> ')
    is_call = False
    if ar >= 0:
        tail = s[ar + 4:]
        if tail.startswith('[return:') or tail.startswith('unwind') or tail.startswith('[unwind'):
            is_call = True
    eq = find_top(s, ' = ')
    if is_call:
        head = s[:ar]
        tail = s[ar + 4:]
        ret = None
        if tail.startswith('['):
            tg = parse_targets(tail)
            if 'return' in tg:
                ret = _bb(tg['return'])
        dest = None
        body = head
        if eq >= 0 and eq < ar:
            dest = parse_place(head[:eq])
            body = head[eq + 3:]
        body = body.strip()
        i = _open_of_last(body)
        callee = body[:i].strip()
        args = [parse_operand(a) for a in split_top(body[i + 1:-1])]
        return True, ('call', dest, callee, args, ret)
    if eq < 0:
        raise ParseError('cannot parse statement: ' + s[:200])
    dest = parse_place(s[:eq])
    rv = parse_rvalue(s[eq + 3:])
    return False, ('assign', dest, rv)


@dataclass
class Block:
    stmts: list = field(default_factory=list)
    term: tuple = None
    cleanup: bool = False
    lines: list = field(default_factory=list)


@dataclass
class Func:
    name: str
    kind: str            # 'fn' | 'const' | 'static'
    args: list           # [(local, type)]
    ret: str
    locals: dict         # local -> type string
    blocks: dict         # bb index -> Block
    const_value: str = None   # for `const X: T = const V;`
    src: str = ''        # crate name
    line: int = 0
    nstmts: int = 0
    debug: dict = field(default_factory=dict)   # local -> source name


HEADER_RE = re.compile(r'^(fn|const|static(?: mut)?) ')


def parse_header(line):
    m = HEADER_RE.match(line)
    kind = m.group(1).split()[0]
    rest = line[m.end():]
    if kind == 'fn':
        assert rest.endswith(' {'), line
        rest = rest[:-2]
        # find start of parameter list: first '(' at depth 0 that begins "(_1: " or "()"
        i = -1
        for k, c in scan_depth0(rest):
            if c == '(' and (rest.startswith('(_1: ', k) or rest.startswith('()', k)):
                i = k
                break
        if i < 0:
            raise ParseError('no params: ' + line[:200])
        name = rest[:i]
        j = match_close(rest, i)
        params = []
        for p in split_top(rest[i + 1:j]):
            mm = re.match(r'_(\d+): (.*)$', p, re.S)
            params.append((int(mm.group(1)), mm.group(2)))
        tail = rest[j + 1:].strip()
        ret = tail[3:].strip() if tail.startswith('->') else '()'
        return kind, name, params, ret, None
    else:
        # const NAME: TYPE = { | const NAME: TYPE = const V;
        i = find_top(rest, ': ')
        name = rest[:i]
        after = rest[i + 2:]
        e = find_top(after, ' = ')
        ty = after[:e]
        val = after[e + 3:].strip()
        if val == '{':
            return kind, name, [], ty, None
        assert val.endswith(';'), line
        return kind, name, [], ty, val[:-1]


LET_RE = re.compile(r'^let (?:mut )?_(\d+): (.*);$')
BB_RE = re.compile(r'^bb(\d+)( \(cleanup\))?: \{$')
DEBUG_RE = re.compile(r'^debug (\S+) => _(\d+);$')


def parse_file(path, src=''):
    funcs = {}
    dup = {}
    with open(path) as f:
        lines = f.read().split('\n')
    i = 0
    n = len(lines)
    while i < n:
        line = lines[i]
        if not HEADER_RE.match(line):
            i += 1
            continue
        try:
            kind, name, params, ret, cval = parse_header(line)
        except Exception as e:
            raise ParseError('%s:%d: header: %s' % (path, i + 1, e))
        fn = Func(name=name, kind=kind, args=params, ret=ret, locals={}, blocks={}, const_value=cval, src=src, line=i + 1)
        for (l, t) in params:
            fn.locals[l] = t
        if cval is not None:
            i += 1
        else:
            i += 1
            cur = None
            while i < n and lines[i] != '}':
                s = lines[i].strip()
                i += 1
                if not s or s.startswith('//'):
                    continue
                m = LET_RE.match(s)
                if m:
                    fn.locals[int(m.group(1))] = m.group(2)
                    continue
                if s.startswith('debug '):
                    m = DEBUG_RE.match(s)
                    if m:
                        fn.debug[int(m.group(2))] = m.group(1)
                    continue
                if s.startswith('scope ') or s == '}':
                    if s == '}' and cur is not None:
                        cur = None
                    continue
                m = BB_RE.match(s)
                if m:
                    cur = Block(cleanup=bool(m.group(2)))
                    fn.blocks[int(m.group(1))] = cur
                    continue
                if cur is None:
                    raise ParseError('%s:%d: statement outside block: %s' % (path, i, s[:100]))
                if cur.cleanup:
                    continue
                try:
                    is_term, t = parse_line(s)
                except Exception as e:
                    # keep unparsable lines as 'unsupported' so that only executing them fails
                    is_term, t = False, ('unsupported', s, str(e))
                    if ' -> ' in s or s.rstrip(';') in ('return',):
                        is_term = True
                cur.lines.append(s)
                fn.nstmts += 1
                if is_term:
                    cur.term = t
                else:
                    cur.stmts.append(t)
            i += 1
        # duplicate names (e.g. tuple-struct constructors appear twice): keep the first with a body
        if name in funcs:
            dup[name] = dup.get(name, 1) + 1
            # prefer the definition with more blocks
            if len(fn.blocks) <= len(funcs[name].blocks):
                continue
        funcs[name] = fn
    return funcs


if __name__ == '__main__':
    import sys, collections
    for p in sys.argv[1:]:
        fs = parse_file(p)
        bad = collections.Counter()
        tot = 0
        for f in fs.values():
            for b in f.blocks.values():
                for st in b.stmts + ([b.term] if b.term else []):
                    tot += 1
                    if st[0] == 'unsupported':
                        bad[st[2][:60]] += 1
                        if bad[st[2][:60]] <= 2:
                            print('UNPARSED', f.name[:50], '|', st[1][:160])
        print(p, len(fs), 'items', tot, 'stmts', sum(bad.values()), 'unparsed')
