"""evidence/<id>.json writer (schema: /root/.vp/EVIDENCE.schema.json)."""
import json
import os

ROOT = os.path.dirname(os.path.dirname(os.path.abspath(__file__)))
EVID = os.path.join(ROOT, 'evidence')

CHAIN_ASSUMPTIONS = [
    'rustc MIR lowering of the current /repo tree (nightly) is faithful to the stable build; cross-checked by native replay',
    'library models of cosmwasm-std / cw-storage-plus / std (mirsym/models_*.py) reproduce the pinned crates; validated differentially against the real crate on every model change (mirsym/validate.py: 71 primitives, ~9.8k boundary-rich cases, result in coverage.model_validation)',
    'integers are mathematical Ints with every overflow branch explicit (checked ops fork to Err, operator forms to abort)',
    'Err / panic of an entry point reverts the whole transaction (CosmWasm platform rule, not implemented by the repo)',
]


def write(pid, tier, seed, mir_hash, results, wall, violations, replays, known_printed, extra_assumptions=(), model_validation=None):
    os.makedirs(EVID, exist_ok=True)
    paths = sum(r.get('paths', 0) for r in results)
    queries = sum(r.get('queries', 0) for r in results)
    funcs = sorted(set(f for r in results for f in r.get('functions', [])))
    samples = []
    assumptions = list(CHAIN_ASSUMPTIONS) + list(extra_assumptions)
    for r in results:
        samples.append({
            'obligation': r.get('obligation'), 'kind': r.get('kind'), 'entry_functions': r.get('entries'),
            'statement': r.get('statement'), 'bounds': r.get('bounds'), 'abstractions': r.get('abstractions'),
            'verdict': r.get('verdict'), 'paths': r.get('paths'), 'queries': r.get('queries'),
            'solver_s': r.get('solver_s'), 'max_query_s': r.get('max_query_s'), 'checks': r.get('checks'),
            'covers': r.get('covers'), 'outcomes': r.get('outcomes'), 'unsupported': r.get('unsupported'),
            'replays': r.get('replays'), 'fidelity': r.get('fidelity'), 'params': r.get('params'),
        })
        for a in r.get('abstractions') or []:
            s = 'abstraction: ' + a
            if s not in assumptions:
                assumptions.append(s)
    ev = {
        'property_id': pid,
        'tier': tier,
        'seed': seed,
        'level': 'model_checking',
        'coverage': {
            'states': max(paths, 0),
            'transitions': max(queries, 0),
            'traces_validated_against_impl': replays + sum((r.get('fidelity') or {}).get('agrees', 0) for r in results),
            'samples': samples,
            'obligations': len(results),
            'discharged': sum(1 for r in results if r.get('verdict') == 'unsat'),
            'mir_hash': mir_hash,
            'functions_encoded': funcs,
            'queries': queries,
            'solver_time_s': round(sum(r.get('solver_s', 0.0) for r in results), 3),
            'solvers': ['z3 %s (python API)' % _z3v()],
            'model_validation': model_validation,
            'fidelity_runs': {'agrees': sum((r.get('fidelity') or {}).get('agrees', 0) for r in results),
                              'differs': sum(1 for r in results if (r.get('fidelity') or {}).get('status') == 'differs'),
                              'skipped': sum(1 for r in results if (r.get('fidelity') or {}).get('status') in (None, 'skipped'))},
            'known_findings_printed': [k.get('id') for k in known_printed],
            'explanation': 'states = feasible symbolic paths of the real MIR explored; transitions = SMT queries discharged; traces_validated_against_impl = native runs '
                           'of the real contracts compared with the executor (counterexample replays + fidelity runs of normal-path witnesses); '
                           'each sample is one obligation (pre-state assumptions + real functions executed + post-condition) with its verdict',
        },
        'assumptions': assumptions,
        'wall_s': round(wall, 2),
        'violations': violations,
    }
    with open(os.path.join(EVID, pid + '.json'), 'w') as f:
        json.dump(ev, f, indent=1, default=str)


def _z3v():
    try:
        import z3
        return z3.get_version_string()
    except Exception:
        return '?'
