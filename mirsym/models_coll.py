"""Library models: Vec / slices / arrays, lazy iterators and their adaptors,
HashMap / HashSet, string helpers."""
import re
import z3

from . import smt
from .smt import is_conc, simp
from .values import *
from .interp import model, model_re, INT_BITS, NEWTYPE_BITS
from .layouts import type_base
from .models_core import deref, default_value, _generic_args, err
from .parse import split_top, match_close

STOP = object()


# ----------------------------------------------------------------- iterators

class It:
    """lazy iterator; subclasses implement next(I) -> value | STOP"""
    def next(self, I):
        raise NotImplementedError

    def next_back(self, I):
        raise Unsupported('next_back on ' + type(self).__name__)

    def size_known(self):
        return None


class SliceIter(It):
    def __init__(self, lst, mut=False):
        self.lst = lst
        self.i = 0
        self.j = len(lst)
        self.mut = mut

    def next(self, I):
        if self.i >= self.j:
            return STOP
        r = Ref(self.lst, self.i, self.mut)
        self.i += 1
        return r

    def next_back(self, I):
        if self.i >= self.j:
            return STOP
        self.j -= 1
        return Ref(self.lst, self.j, self.mut)

    def size_known(self):
        return self.j - self.i


class VecIntoIter(It):
    def __init__(self, lst):
        self.lst = list(lst)
        self.i = 0
        self.j = len(self.lst)

    def next(self, I):
        if self.i >= self.j:
            return STOP
        v = self.lst[self.i]
        self.i += 1
        return v

    def next_back(self, I):
        if self.i >= self.j:
            return STOP
        self.j -= 1
        return self.lst[self.j]

    def size_known(self):
        return self.j - self.i


class RangeIt(It):
    def __init__(self, a, b, inclusive):
        self.a = a
        self.b = b
        self.inclusive = inclusive
        self.done = False

    def next(self, I):
        if self.done:
            return STOP
        cond = (self.a <= self.b) if self.inclusive else (self.a < self.b)
        if not I.fork(cond):
            self.done = True
            return STOP
        v = self.a
        if self.inclusive and I.fork(smt.Eq(self.a, self.b)):
            self.done = True
        else:
            self.a = simp(self.a + 1)
        return v

    def next_back(self, I):
        if self.done:
            return STOP
        cond = (self.a <= self.b) if self.inclusive else (self.a < self.b)
        if not I.fork(cond):
            self.done = True
            return STOP
        if self.inclusive:
            v = self.b
            if I.fork(smt.Eq(self.a, self.b)):
                self.done = True
            else:
                self.b = simp(self.b - 1)
            return v
        self.b = simp(self.b - 1)
        return self.b


class MapIt(It):
    def __init__(self, src, f):
        self.src = src
        self.f = f

    def next(self, I):
        v = self.src.next(I)
        if v is STOP:
            return STOP
        return I.call_value(self.f, [v])

    def next_back(self, I):
        v = self.src.next_back(I)
        if v is STOP:
            return STOP
        return I.call_value(self.f, [v])


class FilterIt(It):
    def __init__(self, src, f):
        self.src = src
        self.f = f

    def next(self, I):
        while True:
            v = self.src.next(I)
            if v is STOP:
                return STOP
            cell = [v]
            if I.fork(I.call_value(self.f, [Ref(cell, 0)])):
                return cell[0]


class FilterMapIt(It):
    def __init__(self, src, f):
        self.src = src
        self.f = f

    def next(self, I):
        while True:
            v = self.src.next(I)
            if v is STOP:
                return STOP
            r = I.call_value(self.f, [v])
            if r.var == 'Some':
                return r.f[0]


class EnumerateIt(It):
    def __init__(self, src):
        self.src = src
        self.n = 0

    def next(self, I):
        v = self.src.next(I)
        if v is STOP:
            return STOP
        r = St('()', [self.n, v])
        self.n += 1
        return r


class ZipIt(It):
    def __init__(self, a, b):
        self.a = a
        self.b = b

    def next(self, I):
        x = self.a.next(I)
        if x is STOP:
            return STOP
        y = self.b.next(I)
        if y is STOP:
            return STOP
        return St('()', [x, y])


class TakeIt(It):
    def __init__(self, src, n):
        self.src = src
        self.n = n

    def next(self, I):
        if not I.fork(self.n > 0):
            return STOP
        self.n = simp(self.n - 1)
        return self.src.next(I)


class SkipIt(It):
    def __init__(self, src, n):
        self.src = src
        self.n = n

    def next(self, I):
        while self.n > 0:
            self.n -= 1
            if self.src.next(I) is STOP:
                return STOP
        return self.src.next(I)


class RevIt(It):
    def __init__(self, src):
        self.src = src

    def next(self, I):
        return self.src.next_back(I)

    def next_back(self, I):
        return self.src.next(I)


class ChainIt(It):
    def __init__(self, a, b):
        self.a = a
        self.b = b

    def next(self, I):
        if self.a is not None:
            v = self.a.next(I)
            if v is not STOP:
                return v
            self.a = None
        return self.b.next(I)


class ClonedIt(It):
    def __init__(self, src):
        self.src = src

    def next(self, I):
        v = self.src.next(I)
        if v is STOP:
            return STOP
        return clone(deref(v))


class CharsIt(It):
    def __init__(self, s):
        self.s = s
        self.i = 0

    def next(self, I):
        if self.i >= len(self.s):
            return STOP
        c = self.s[self.i]
        self.i += 1
        return c


def as_iter(I, v):
    v = deref(v)
    if isinstance(v, It):
        return v
    if isinstance(v, Vc):
        return VecIntoIter(v.e)
    if isinstance(v, Mp):
        if v.kind == 'set':
            return VecIntoIter([k for k, _ in v.items])
        return VecIntoIter([St('()', [k, x]) for k, x in v.items])
    if isinstance(v, St) and v.short in ('Range', 'RangeInclusive'):
        return RangeIt(v.f[0], v.f[1], v.short == 'RangeInclusive')
    if isinstance(v, En) and v.short == 'Option':
        return VecIntoIter(list(v.f))
    raise Unsupported('not iterable: %r' % (type(v).__name__,))


@model_re(r'^core::slice::(iter|iter_mut)$|^std::slice::(iter|iter_mut)$')
def slice_iter(I, c):
    v = deref(c.args[0])
    if not isinstance(v, Vc):
        raise Unsupported('slice::iter on %r' % (type(v).__name__,))
    return SliceIter(v.e, c.method == 'iter_mut')


@model_re(r'as IntoIterator>::into_iter$')
def into_iter(I, c):
    a = c.args[0]
    if isinstance(a, Ref):
        v = deref(a)
        if isinstance(v, Vc):
            return SliceIter(v.e, a.mut)
        if isinstance(v, Mp):
            if v.kind == 'set':
                return VecIntoIter([Ref(it, 0) for it in v.items])
            return VecIntoIter([St('()', [Ref(it, 0), Ref(it, 1)]) for it in v.items])
    return as_iter(I, a)


@model_re(r'^(std::ops::|core::ops::)?RangeInclusive::new$')
def range_incl_new(I, c):
    return St('RangeInclusive', [c.args[0], c.args[1]])


@model_re(r'^(std::ops::|core::ops::)?RangeInclusive::contains$|^(std::ops::|core::ops::)?Range::contains$')
def range_contains(I, c):
    r = deref(c.args[0])
    x = deref(c.args[1])
    if r.short == 'RangeInclusive':
        return simp(smt.And(r.f[0] <= x, x <= r.f[1]))
    return simp(smt.And(r.f[0] <= x, x < r.f[1]))


@model_re(r'^(std::ops::|core::ops::)?RangeInclusive::(start|end)$')
def range_bounds(I, c):
    r = deref(c.args[0])
    return Ref(r.f, 0 if c.method == 'start' else 1)


def _it(c, k=0):
    v = c.args[k]
    v = deref(v)
    if not isinstance(v, It):
        raise Unsupported('iterator method on %r' % (type(v).__name__,))
    return v


@model_re(r'as Iterator>::next$')
def it_next(I, c):
    it = _it(c)
    v = it.next(I)
    return NONE() if v is STOP else Some(v)


@model_re(r'as DoubleEndedIterator>::next_back$')
def it_next_back(I, c):
    it = _it(c)
    v = it.next_back(I)
    return NONE() if v is STOP else Some(v)


@model_re(r'as Iterator>::map$')
def it_map(I, c):
    return MapIt(as_iter(I, c.args[0]), c.args[1])


@model_re(r'as Iterator>::filter$')
def it_filter(I, c):
    return FilterIt(as_iter(I, c.args[0]), c.args[1])


@model_re(r'as Iterator>::filter_map$')
def it_filter_map(I, c):
    return FilterMapIt(as_iter(I, c.args[0]), c.args[1])


@model_re(r'as Iterator>::enumerate$')
def it_enumerate(I, c):
    return EnumerateIt(as_iter(I, c.args[0]))


@model_re(r'as Iterator>::zip$')
def it_zip(I, c):
    return ZipIt(as_iter(I, c.args[0]), as_iter(I, c.args[1]))


@model_re(r'as Iterator>::take$')
def it_take(I, c):
    return TakeIt(as_iter(I, c.args[0]), c.args[1])


@model_re(r'as Iterator>::skip$')
def it_skip(I, c):
    n = c.args[1]
    if not is_conc(n):
        raise Unsupported('symbolic skip')
    return SkipIt(as_iter(I, c.args[0]), n)


@model_re(r'as Iterator>::rev$')
def it_rev(I, c):
    return RevIt(as_iter(I, c.args[0]))


@model_re(r'as Iterator>::chain$')
def it_chain(I, c):
    return ChainIt(as_iter(I, c.args[0]), as_iter(I, c.args[1]))


@model_re(r'as Iterator>::(cloned|copied)$')
def it_cloned(I, c):
    return ClonedIt(as_iter(I, c.args[0]))


@model_re(r'as Iterator>::(all|any)$')
def it_all_any(I, c):
    it = _it(c)
    want_all = c.method == 'all'
    while True:
        v = it.next(I)
        if v is STOP:
            return want_all
        r = I.call_value(c.args[1], [v])
        if I.fork(r) != want_all:
            return not want_all


@model_re(r'as Iterator>::(find)$')
def it_find(I, c):
    it = _it(c)
    while True:
        v = it.next(I)
        if v is STOP:
            return NONE()
        cell = [v]
        if I.fork(I.call_value(c.args[1], [Ref(cell, 0)])):
            return Some(cell[0])


@model_re(r'as Iterator>::(find_map)$')
def it_find_map(I, c):
    it = _it(c)
    while True:
        v = it.next(I)
        if v is STOP:
            return NONE()
        r = I.call_value(c.args[1], [v])
        if r.var == 'Some':
            return r


@model_re(r'as Iterator>::(position)$')
def it_position(I, c):
    it = _it(c)
    n = 0
    while True:
        v = it.next(I)
        if v is STOP:
            return NONE()
        if I.fork(I.call_value(c.args[1], [v])):
            return Some(n)
        n += 1


@model_re(r'as Iterator>::(count)$')
def it_count(I, c):
    it = as_iter(I, c.args[0])
    n = 0
    while it.next(I) is not STOP:
        n += 1
    return n


@model_re(r'as Iterator>::(last)$')
def it_last(I, c):
    it = as_iter(I, c.args[0])
    last = STOP
    while True:
        v = it.next(I)
        if v is STOP:
            break
        last = v
    return NONE() if last is STOP else Some(last)


@model_re(r'as Iterator>::(fold)$')
def it_fold(I, c):
    it = as_iter(I, c.args[0])
    acc = c.args[1]
    while True:
        v = it.next(I)
        if v is STOP:
            return acc
        acc = I.call_value(c.args[2], [acc, v])


@model_re(r'as Iterator>::(try_fold)$')
def it_try_fold(I, c):
    it = _it(c)
    acc = c.args[1]
    kind = None
    while True:
        v = it.next(I)
        if v is STOP:
            break
        r = I.call_value(c.args[2], [acc, v])
        if r.var in ('Err', 'None'):
            return r
        kind = r.ty
        acc = r.f[0]
    rt = c.dest_ty or ''
    if 'Option' in type_base(rt):
        return Some(acc)
    return Ok(acc)


@model_re(r'as Iterator>::(for_each)$')
def it_for_each(I, c):
    it = as_iter(I, c.args[0])
    while True:
        v = it.next(I)
        if v is STOP:
            return UNIT
        I.call_value(c.args[1], [v])


@model_re(r'as Iterator>::(try_for_each)$')
def it_try_for_each(I, c):
    it = _it(c)
    while True:
        v = it.next(I)
        if v is STOP:
            return Ok(UNIT)
        r = I.call_value(c.args[1], [v])
        if r.var in ('Err', 'None'):
            return r


@model_re(r'as Iterator>::(sum)$')
def it_sum(I, c):
    it = as_iter(I, c.args[0])
    acc = 0
    ga = _generic_args(c.callee)
    bits = None
    if ga:
        t = type_base(ga[0]).split('::')[-1]
        bits = NEWTYPE_BITS.get(t) or INT_BITS.get(t)
    while True:
        v = it.next(I)
        if v is STOP:
            return acc
        acc = simp(acc + deref(v))
        if bits and I.fork(acc >= (1 << bits)):
            raise RustPanic('attempt to add with overflow')


@model_re(r'as Iterator>::(max|min)$')
def it_maxmin(I, c):
    it = as_iter(I, c.args[0])
    best = STOP
    while True:
        v = it.next(I)
        if v is STOP:
            break
        if best is STOP:
            best = v
            continue
        a, b = deref(best), deref(v)
        if c.method == 'max':
            # max returns the last maximal element
            if I.fork(b >= a):
                best = v
        else:
            if I.fork(b < a):
                best = v
    return NONE() if best is STOP else Some(best)


@model_re(r'as Iterator>::(partition)$')
def it_partition(I, c):
    it = as_iter(I, c.args[0])
    a, b = [], []
    while True:
        v = it.next(I)
        if v is STOP:
            break
        cell = [v]
        if I.fork(I.call_value(c.args[1], [Ref(cell, 0)])):
            a.append(cell[0])
        else:
            b.append(cell[0])
    return St('()', [Vc(a), Vc(b)])


@model_re(r'as Iterator>::(unzip)$')
def it_unzip(I, c):
    it = as_iter(I, c.args[0])
    a, b = [], []
    while True:
        v = it.next(I)
        if v is STOP:
            break
        a.append(v.f[0])
        b.append(v.f[1])
    return St('()', [Vc(a), Vc(b)])


def _collect_target(c):
    ga = _generic_args(c.callee)
    return ga[0] if ga else (c.dest_ty or '')


def _mk_collection(I, items, ty):
    tb = type_base(ty).split('::')[-1]
    if tb in ('Vec', 'VecDeque'):
        return Vc(items)
    if tb in ('HashSet', 'BTreeSet'):
        m = Mp('set')
        for v in items:
            _mp_insert(I, m, v, UNIT)
        return m
    if tb in ('HashMap', 'BTreeMap'):
        m = Mp('map')
        for v in items:
            _mp_insert(I, m, v.f[0], v.f[1])
        return m
    if tb == 'String':
        from .strings import cat
        return cat(items)
    raise Unsupported('collect into ' + ty)


@model_re(r'as Iterator>::(collect)$|as FromIterator<.*>>::from_iter$')
def it_collect(I, c):
    it = as_iter(I, c.args[0])
    ty = _collect_target(c) if c.method == 'collect' else c.self_ty
    tb = type_base(ty).split('::')[-1]
    if tb == '_':
        ty = c.dest_ty or ty
        tb = type_base(ty).split('::')[-1]
    if tb == 'Result':
        inner = split_top(ty[ty.find('<') + 1:ty.rfind('>')])[0]
        items = []
        while True:
            v = it.next(I)
            if v is STOP:
                break
            if v.var == 'Err':
                return v
            items.append(v.f[0])
        return Ok(_mk_collection(I, items, inner))
    if tb == 'Option':
        inner = split_top(ty[ty.find('<') + 1:ty.rfind('>')])[0]
        items = []
        while True:
            v = it.next(I)
            if v is STOP:
                break
            if v.var == 'None':
                return v
            items.append(v.f[0])
        return Some(_mk_collection(I, items, inner))
    items = []
    while True:
        v = it.next(I)
        if v is STOP:
            break
        items.append(v)
    return _mk_collection(I, items, ty)


# ----------------------------------------------------------------- Vec / slice

def _vc(v):
    v = deref(v)
    if not isinstance(v, Vc):
        raise Unsupported('vector method on %r' % (type(v).__name__,))
    return v


@model_re(r'^(std::vec::)?Vec::(new|with_capacity)$')
def vec_new(I, c):
    return Vc([])


@model_re(r'^(std::vec::)?Vec::(push)$')
def vec_push(I, c):
    _vc(c.args[0]).e.append(c.args[1])
    return UNIT


@model_re(r'^(std::vec::)?Vec::(pop)$')
def vec_pop(I, c):
    v = _vc(c.args[0])
    if not v.e:
        return NONE()
    return Some(v.e.pop())


@model_re(r'^(std::vec::)?Vec::(len)$|^core::slice::len$|^std::slice::len$')
def vec_len(I, c):
    return len(_vc(c.args[0]).e)


@model_re(r'^(std::vec::)?Vec::(is_empty)$|^core::slice::is_empty$')
def vec_is_empty(I, c):
    return len(_vc(c.args[0]).e) == 0


@model_re(r'^(std::vec::)?Vec::(append)$')
def vec_append(I, c):
    a, b = _vc(c.args[0]), _vc(c.args[1])
    a.e.extend(b.e)
    b.e[:] = []
    return UNIT


@model_re(r'^(std::vec::)?Vec::(extend_from_slice)$')
def vec_extend_from_slice(I, c):
    a, b = _vc(c.args[0]), _vc(c.args[1])
    a.e.extend(clone(x) for x in b.e)
    return UNIT


@model_re(r'as Extend<.*>>::extend$')
def vec_extend(I, c):
    a = deref(c.args[0])
    it = as_iter(I, c.args[1])
    while True:
        v = it.next(I)
        if v is STOP:
            return UNIT
        if isinstance(a, Vc):
            a.e.append(v)
        elif isinstance(a, Mp):
            if a.kind == 'set':
                _mp_insert(I, a, v, UNIT)
            else:
                _mp_insert(I, a, v.f[0], v.f[1])
        else:
            raise Unsupported('extend on %r' % (type(a).__name__,))


@model_re(r'^(std::vec::)?Vec::(clear)$')
def vec_clear(I, c):
    _vc(c.args[0]).e[:] = []
    return UNIT


@model_re(r'^(std::vec::)?Vec::(insert)$')
def vec_insert(I, c):
    v = _vc(c.args[0])
    i = c.args[1]
    if not is_conc(i):
        raise Unsupported('symbolic insert index')
    if i > len(v.e):
        raise RustPanic('insertion index out of bounds')
    v.e.insert(i, c.args[2])
    return UNIT


@model_re(r'^(std::vec::)?Vec::(remove|swap_remove)$')
def vec_remove(I, c):
    v = _vc(c.args[0])
    i = c.args[1]
    i = I.concretize_int(i, 0, max(len(v.e) - 1, 0), 'remove')
    if i >= len(v.e):
        raise RustPanic('removal index out of bounds')
    if c.method == 'swap_remove':
        x = v.e[i]
        v.e[i] = v.e[-1]
        v.e.pop()
        return x
    return v.e.pop(i)


@model_re(r'^(std::vec::)?Vec::(retain)$')
def vec_retain(I, c):
    v = _vc(c.args[0])
    keep = []
    for k in range(len(v.e)):
        if I.fork(I.call_value(c.args[1], [Ref(v.e, k)])):
            keep.append(v.e[k])
    v.e[:] = keep
    return UNIT


@model_re(r'^(std::vec::)?Vec::(dedup)$')
def vec_dedup(I, c):
    # removes CONSECUTIVE repeated elements only (PartialEq), keeping the first of each run
    v = _vc(c.args[0])
    keep = []
    for x in v.e:
        if keep and I.fork(I.values_eq(keep[-1], x)):
            continue
        keep.append(x)
    v.e[:] = keep
    return UNIT


@model_re(r'^(std::vec::)?Vec::(truncate)$')
def vec_truncate(I, c):
    v = _vc(c.args[0])
    n = c.args[1]
    if not is_conc(n):
        raise Unsupported('symbolic truncate')
    del v.e[n:]
    return UNIT


@model_re(r'^(std::vec::)?Vec::(as_slice|as_mut_slice)$')
def vec_as_slice(I, c):
    return c.args[0]


@model_re(r'^(std::slice::|core::slice::)(to_vec|into_vec)$')
def slice_to_vec(I, c):
    return Vc([clone(x) for x in _vc(c.args[0]).e])


@model_re(r'^(std::slice::|core::slice::)(first|last)$')
def slice_first_last(I, c):
    v = _vc(c.args[0])
    if not v.e:
        return NONE()
    return Some(Ref(v.e, 0 if c.method == 'first' else len(v.e) - 1))


@model_re(r'^(std::slice::|core::slice::)(get)$')
def slice_get(I, c):
    v = _vc(c.args[0])
    i = c.args[1]
    if is_conc(i):
        if i >= len(v.e):
            return NONE()
        return Some(Ref(v.e, i))
    for k in range(len(v.e)):
        if I.fork(smt.Eq(i, k)):
            return Some(Ref(v.e, k))
    return NONE()


@model_re(r'^(std::slice::|core::slice::)(windows)$')
def slice_windows(I, c):
    # overlapping read-only sub-slices of a concrete length: each window shares the element objects of the slice
    v = _vc(c.args[0])
    n = c.args[1]
    if not is_conc(n):
        raise Unsupported('windows with a symbolic size')
    if n == 0:
        raise RustPanic('window size must be non-zero')
    return VecIntoIter([Ref([Vc(v.e[i:i + n])], 0) for i in range(0, max(len(v.e) - n + 1, 0))])


@model_re(r'^(std::slice::|core::slice::)(contains)$')
def slice_contains(I, c):
    v = _vc(c.args[0])
    x = deref(c.args[1])
    return smt.Or(*[I.values_eq(e, x) for e in v.e])


@model_re(r'^(std::slice::|core::slice::)(is_sorted)$')
def slice_is_sorted(I, c):
    raise Unsupported('is_sorted')


@model_re(r'as (std::ops::)?Index<.*>>::index$|as (std::ops::)?IndexMut<.*>>::index_mut$')
def index_model(I, c):
    v = deref(c.args[0])
    i = deref(c.args[1])
    if isinstance(v, Vc):
        if isinstance(i, St) and i.short in ('Range', 'RangeInclusive', 'RangeFrom', 'RangeTo', 'RangeFull'):
            raise Unsupported('range indexing')
        if not is_conc(i):
            if not v.e:
                raise RustPanic('index out of bounds')
            for k in range(len(v.e)):
                if I.fork(smt.Eq(i, k)):
                    return Ref(v.e, k, c.method == 'index_mut')
            raise RustPanic('index out of bounds')
        if i >= len(v.e):
            raise RustPanic('index out of bounds: %d >= %d' % (i, len(v.e)))
        return Ref(v.e, i, c.method == 'index_mut')
    if isinstance(v, Mp):
        for it in v.items:
            if I.fork(I.values_eq(it[0], i)):
                return Ref(it, 1)
        raise RustPanic('key not found in map index')
    raise Unsupported('index on %r' % (type(v).__name__,))


@model_re(r'^(std::slice::|core::slice::)(sort_by|sort_unstable_by|sort_by_key|sort|sort_unstable)$')
def slice_sort(I, c):
    v = _vc(c.args[0])
    items = v.e
    m = c.method

    def less(a_cell, i, j):
        # returns True when items[j] < items[i]  (strict)
        if m in ('sort_by', 'sort_unstable_by'):
            o = I.call_value(c.args[1], [Ref(a_cell, j), Ref(a_cell, i)])
            return o.var == 'Less'
        if m == 'sort_by_key':
            ka = I.call_value(c.args[1], [Ref(a_cell, j)])
            kb = I.call_value(c.args[1], [Ref(a_cell, i)])
        else:
            ka, kb = a_cell[j], a_cell[i]
        return _less_values(I, ka, kb)
    # insertion sort (stable)
    for k in range(1, len(items)):
        j = k
        while j > 0 and less(items, j - 1, j):
            items[j - 1], items[j] = items[j], items[j - 1]
            j -= 1
    return UNIT


def _less_values(I, a, b):
    a, b = deref(a), deref(b)
    if isinstance(a, str) and isinstance(b, str):
        return a < b
    if isinstance(a, (str, SymStr, Cat)) or isinstance(b, (str, SymStr, Cat)):
        from .strings import str_eq, code_of
        if I.fork(str_eq(I, a, b)):
            return False
        return I.fork(code_of(a) < code_of(b))
    if isinstance(a, St) and isinstance(b, St):
        for x, y in zip(a.f, b.f):
            if _less_values(I, x, y):
                return True
            if _less_values(I, y, x):
                return False
        return False
    return I.fork(a < b)


@model_re(r'^(std::slice::|core::slice::)(join|concat)$')
def slice_join(I, c):
    v = _vc(c.args[0])
    from .strings import cat
    sep = deref(c.args[1]) if len(c.args) > 1 else ''
    parts = []
    for k, x in enumerate(v.e):
        x = deref(x)
        if not isinstance(x, (str, SymStr, Cat)):
            return Opaque('text', v)
        if k:
            parts.append(sep)
        parts.append(x)
    return cat(parts)


@model_re(r'^(std::slice::|core::slice::)(swap)$')
def slice_swap(I, c):
    v = _vc(c.args[0])
    i, j = c.args[1], c.args[2]
    v.e[i], v.e[j] = v.e[j], v.e[i]
    return UNIT


@model('Box::new_uninit', 'std::boxed::Box::new_uninit')
def box_new_uninit(I, c):
    return UninitBox()


@model('std::boxed::box_assume_init_into_vec_unsafe', 'alloc::boxed::box_assume_init_into_vec_unsafe')
def box_into_vec(I, c):
    b = c.args[0]
    arr = b.slot[0]
    if not isinstance(arr, Vc):
        raise Unsupported('uninit box was not filled with an array')
    return Vc(list(arr.e))


@model('Box::new', 'std::boxed::Box::new')
def box_new(I, c):
    return c.args[0]


# ----------------------------------------------------------------- HashMap / HashSet

def _mp(v):
    v = deref(v)
    if not isinstance(v, Mp):
        raise Unsupported('map method on %r' % (type(v).__name__,))
    return v


def _mp_find(I, m, key):
    key = deref(key)
    for it in m.items:
        if I.fork(I.values_eq(it[0], key)):
            return it
    return None


def _mp_insert(I, m, key, val):
    it = _mp_find(I, m, key)
    if it is not None:
        old = it[1]
        it[1] = val
        return old
    m.items.append([key, val])
    return None


@model_re(r'^(std::collections::)?(HashMap|BTreeMap|HashSet|BTreeSet)::(new|with_capacity)$')
def map_new(I, c):
    return Mp('set' if 'Set' in c.norm else 'map')


@model_re(r'^(std::collections::)?(HashMap|BTreeMap)::(insert)$')
def map_insert(I, c):
    old = _mp_insert(I, _mp(c.args[0]), c.args[1], c.args[2])
    return NONE() if old is None else Some(old)


@model_re(r'^(std::collections::)?(HashSet|BTreeSet)::(insert)$')
def set_insert(I, c):
    m = _mp(c.args[0])
    it = _mp_find(I, m, c.args[1])
    if it is not None:
        return False
    m.items.append([c.args[1], UNIT])
    return True


@model_re(r'^(std::collections::)?(HashMap|BTreeMap)::(get|get_mut)$')
def map_get(I, c):
    it = _mp_find(I, _mp(c.args[0]), c.args[1])
    return NONE() if it is None else Some(Ref(it, 1, c.method == 'get_mut'))


@model_re(r'^(std::collections::)?(HashMap|BTreeMap|HashSet|BTreeSet)::(contains_key|contains)$')
def map_contains(I, c):
    return _mp_find(I, _mp(c.args[0]), c.args[1]) is not None


@model_re(r'^(std::collections::)?(HashMap|BTreeMap)::(remove)$')
def map_remove(I, c):
    m = _mp(c.args[0])
    it = _mp_find(I, m, c.args[1])
    if it is None:
        return NONE()
    m.items.remove(it)
    return Some(it[1])


@model_re(r'^(std::collections::)?(HashMap|BTreeMap|HashSet|BTreeSet)::(len)$')
def map_len(I, c):
    return len(_mp(c.args[0]).items)


@model_re(r'^(std::collections::)?(HashMap|BTreeMap|HashSet|BTreeSet)::(is_empty)$')
def map_is_empty(I, c):
    return len(_mp(c.args[0]).items) == 0


@model_re(r'^(std::collections::)?(HashMap|BTreeMap)::(entry)$')
def map_entry(I, c):
    m = _mp(c.args[0])
    it = _mp_find(I, m, c.args[1])
    return St('Entry', [m, c.args[1], it])


@model_re(r'Entry<.*>::(or_insert|or_default|or_insert_with)$|^(std::collections::hash_map::)?Entry::(or_insert|or_default|or_insert_with)$')
def entry_or_insert(I, c):
    e = c.args[0]
    m, k, it = e.f
    if it is None:
        if c.method == 'or_insert':
            v = c.args[1]
        elif c.method == 'or_insert_with':
            v = I.call_value(c.args[1], [])
        else:
            ta = re.search(r'Entry::<(.*)>::or_default', c.callee)
            v = default_value(I, split_top(ta.group(1))[-1]) if ta else 0
        it = [k, v]
        m.items.append(it)
    return Ref(it, 1, True)


@model_re(r'^(std::collections::)?(HashMap|BTreeMap)::(keys|values|iter|values_mut|iter_mut)$|^(std::collections::)?(HashSet|BTreeSet)::(iter)$')
def map_iters(I, c):
    m = _mp(c.args[0])
    if m.kind == 'set' or c.method == 'keys':
        return VecIntoIter([Ref(it, 0) for it in m.items])
    if c.method in ('values', 'values_mut'):
        return VecIntoIter([Ref(it, 1) for it in m.items])
    return VecIntoIter([St('()', [Ref(it, 0), Ref(it, 1)]) for it in m.items])


# ----------------------------------------------------------------- strings

def _s(v):
    return deref(v)


@model_re(r'^(std::string::)?String::(as_str|as_mut_str|into_boxed_str)$|^Addr::(as_str|into_string|to_string)$|^Addr::unchecked$|^(std::string::)?String::from$')
def str_identity(I, c):
    return _s(c.args[0])


@model_re(r'^(std::string::)?String::new$')
def string_new(I, c):
    return ''


@model_re(r'^(std::string::)?String::(push_str)$')
def string_push_str(I, c):
    from .strings import cat
    r = c.args[0]
    r.set(cat([r.get(), _s(c.args[1])]))
    return UNIT


@model_re(r'^(core::str::|std::str::)?(len)$|^(std::string::)?String::len$')
def str_len(I, c):
    s = _s(c.args[0])
    if isinstance(s, str):
        return len(s.encode())
    if isinstance(s, SymStr):
        return I.strlen(s)
    raise Unsupported('len of structured string')


@model_re(r'^(core::str::|std::str::)(is_empty)$|^(std::string::)?String::is_empty$')
def str_is_empty(I, c):
    s = _s(c.args[0])
    if isinstance(s, str):
        return len(s) == 0
    if isinstance(s, SymStr):
        return simp(smt.Eq(I.strlen(s), 0))
    return False


@model_re(r'^(core::str::|std::str::)(chars)$')
def str_chars(I, c):
    s = _s(c.args[0])
    if not isinstance(s, str):
        raise Unsupported('chars() on symbolic string')
    return CharsIt(s)


@model_re(r'^(core::str::|std::str::)(as_bytes)$|^Addr::as_bytes$|^(std::string::)?String::(as_bytes|into_bytes)$')
def str_as_bytes(I, c):
    s = _s(c.args[0])
    if isinstance(s, str):
        return Vc(list(s.encode()))
    return Opaque('bytes', s)


@model_re(r'^(core::str::|std::str::)(starts_with|ends_with|contains)$')
def str_pred(I, c):
    s, p = _s(c.args[0]), _s(c.args[1])
    if isinstance(s, str) and isinstance(p, str):
        return getattr(s, {'starts_with': 'startswith', 'ends_with': 'endswith', 'contains': '__contains__'}[c.method])(p)
    if isinstance(p, str) and isinstance(s, Cat):
        first = s.parts[0] if c.method == 'starts_with' else s.parts[-1]
        if isinstance(first, str) and len(first) >= len(p):
            return first.startswith(p) if c.method == 'starts_with' else first.endswith(p)
    if isinstance(p, str) and isinstance(s, SymStr):
        return I.strpred(c.method, s, p)
    raise Unsupported('%s on symbolic strings' % c.method)


@model_re(r'^char::methods::(is_ascii_alphanumeric|is_alphanumeric|is_ascii_digit|is_ascii_alphabetic|is_ascii_lowercase|is_ascii_uppercase)$')
def char_pred(I, c):
    ch = deref(c.args[0])
    if not isinstance(ch, str):
        raise Unsupported('char predicate on symbolic char')
    m = c.method
    if m == 'is_ascii_alphanumeric':
        return ch.isascii() and ch.isalnum()
    if m == 'is_alphanumeric':
        return ch.isalnum()
    if m == 'is_ascii_digit':
        return ch.isascii() and ch.isdigit()
    if m == 'is_ascii_alphabetic':
        return ch.isascii() and ch.isalpha()
    if m == 'is_ascii_lowercase':
        return ch.isascii() and ch.islower()
    return ch.isascii() and ch.isupper()


@model_re(r'^(core::str::|std::str::)(splitn|split)$')
def str_splitn(I, c):
    s = _s(c.args[0])
    if c.method == 'splitn':
        n, pat = c.args[1], _s(c.args[2])
    else:
        n, pat = None, _s(c.args[1])
    if not isinstance(s, str) or not isinstance(pat, str):
        raise Unsupported('split on symbolic string')
    parts = s.split(pat, n - 1) if n is not None else s.split(pat)
    if n == 0:
        parts = []
    return VecIntoIter(parts)


@model_re(r'as Iterator>::nth$')
def it_nth(I, c):
    it = _it(c)
    n = c.args[1]
    if not is_conc(n):
        raise Unsupported('symbolic nth')
    v = STOP
    for _ in range(n + 1):
        v = it.next(I)
        if v is STOP:
            return NONE()
    return Some(v)


@model_re(r'^(core::str::|std::str::)(trim|to_lowercase|to_uppercase|to_string|to_owned)$')
def str_simple(I, c):
    s = _s(c.args[0])
    if c.method in ('to_string', 'to_owned'):
        return s
    if not isinstance(s, str):
        raise Unsupported(c.method + ' on symbolic string')
    return {'trim': s.strip, 'to_lowercase': s.lower, 'to_uppercase': s.upper}[c.method]()
