#!/bin/bash
# Re-runs every stored seeded change against the current checks: apply to /repo, ./check <property>, revert.
# Every line must read exit=1 (replay-confirmed VIOLATION); the table is written to seeded/REGRESSION.md.
cd /verif
OUT=seeded/REGRESSION.md
if [ -z "${RESUME_FROM:-}" ]; then
echo "# Seeded changes vs. the current checks ($(date -u +%Y-%m-%dT%H:%MZ))" > $OUT.tmp
echo "" >> $OUT.tmp
echo "| seeded change | property | exit with the change | seconds | first VIOLATION line |" >> $OUT.tmp
echo "|---|---|---|---|---|" >> $OUT.tmp
fi
[ -z "$(git -C /repo status --short)" ] || { echo "/repo is not clean"; exit 3; }
# RESUME_FROM=<seed id>: keep the rows already written to $OUT.tmp by an interrupted run and continue with that seed
SKIP=${RESUME_FROM:+1}
for d in seeded/*/; do
  id=$(basename $d)
  [ -f $d/patch.diff ] || continue
  if [ -n "$SKIP" ]; then [ "$id" = "$RESUME_FROM" ] && SKIP="" || continue; fi
  prop=$(python3 -c "import json;print(json.load(open('$d/meta.json'))['property'])")
  git -C /repo apply $PWD/$d/patch.diff || { echo "| $id | $prop | patch does not apply | | |" >> $OUT.tmp; continue; }
  cp evidence/$prop.json /tmp/.evidence-$prop.json 2>/dev/null
  s=$(date +%s)
  timeout 1800 ./check $prop > /tmp/.regress.log 2>&1; rc=$?
  e=$(( $(date +%s) - s ))
  git -C /repo checkout -- .
  [ -f /tmp/.evidence-$prop.json ] && mv /tmp/.evidence-$prop.json evidence/$prop.json
  v=$(grep -m1 "^VIOLATION" /tmp/.regress.log | sed 's|/verif/evidence/replays/||' | cut -c1-150)
  echo "| $id | $prop | $rc | $e | $v |" >> $OUT.tmp
  echo "$id $prop exit=$rc ${e}s"
  cp $OUT.tmp $OUT          # keep what has been re-run so far (a long run may be interrupted)
done
mv $OUT.tmp $OUT
