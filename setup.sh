#!/bin/sh
# Offline setup after a fresh restore: MIR dumps of /repo + the native replayer.
set -e
cd "$(dirname "$0")"
export CARGO_NET_OFFLINE=true
python3-vt -m mirsym.dump
cp -f /repo/Cargo.lock replay/Cargo.lock 2>/dev/null || true
(cd replay && cargo build --offline 2>&1 | tail -3)
echo "setup ok"
