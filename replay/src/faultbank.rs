//! Bank module of the replayer: cw-multi-test's BankKeeper, plus native FAULT INJECTION for transfers.
//! `block_recipient` makes every `BankMsg::Send` to that address fail (as a transfer to a blocked / module account does on a
//! chain), `fail_send_number` makes the n-th `BankMsg::Send` from now on fail whatever its recipient.  Everything else is
//! delegated unchanged.  The shared state lives outside the module so that scenario steps can change it between messages.
use std::cell::RefCell;
use std::collections::BTreeSet;
use std::rc::Rc;

use anyhow::{bail, Result as AnyResult};
use cosmwasm_std::{Addr, Api, BankMsg, BankQuery, Binary, BlockInfo, Coin, CustomMsg, CustomQuery, Querier, Storage};
use cw_multi_test::{AppResponse, Bank, BankKeeper, BankSudo, CosmosRouter, Module};
use serde::de::DeserializeOwned;

#[derive(Default)]
pub struct Faults {
    pub blocked: BTreeSet<String>,
    /// countdown: Some(1) => the next send fails
    pub fail_send_in: Option<u64>,
    pub sends_seen: u64,
}

pub type SharedFaults = Rc<RefCell<Faults>>;

pub struct FaultyBank {
    inner: BankKeeper,
    faults: SharedFaults,
}

impl FaultyBank {
    pub fn new(faults: SharedFaults) -> Self {
        Self { inner: BankKeeper::new(), faults }
    }
    pub fn init_balance(&self, storage: &mut dyn Storage, account: &Addr, amount: Vec<Coin>) -> AnyResult<()> {
        self.inner.init_balance(storage, account, amount)
    }
}

impl Bank for FaultyBank {}

impl Module for FaultyBank {
    type ExecT = BankMsg;
    type QueryT = BankQuery;
    type SudoT = BankSudo;

    fn execute<ExecC, QueryC>(
        &self,
        api: &dyn Api,
        storage: &mut dyn Storage,
        router: &dyn CosmosRouter<ExecC = ExecC, QueryC = QueryC>,
        block: &BlockInfo,
        sender: Addr,
        msg: BankMsg,
    ) -> AnyResult<AppResponse>
    where
        ExecC: CustomMsg + DeserializeOwned + 'static,
        QueryC: CustomQuery + DeserializeOwned + 'static,
    {
        if let BankMsg::Send { to_address, .. } = &msg {
            let mut f = self.faults.borrow_mut();
            f.sends_seen += 1;
            if f.blocked.contains(to_address) {
                bail!("injected fault: transfers to {} are blocked", to_address);
            }
            if let Some(n) = f.fail_send_in {
                if n <= 1 {
                    f.fail_send_in = None;
                    bail!("injected fault: this transfer fails");
                }
                f.fail_send_in = Some(n - 1);
            }
        }
        self.inner.execute(api, storage, router, block, sender, msg)
    }

    fn query(&self, api: &dyn Api, storage: &dyn Storage, querier: &dyn Querier, block: &BlockInfo, request: BankQuery) -> AnyResult<Binary> {
        self.inner.query(api, storage, querier, block, request)
    }

    fn sudo<ExecC, QueryC>(
        &self,
        api: &dyn Api,
        storage: &mut dyn Storage,
        router: &dyn CosmosRouter<ExecC = ExecC, QueryC = QueryC>,
        block: &BlockInfo,
        msg: BankSudo,
    ) -> AnyResult<AppResponse>
    where
        ExecC: CustomMsg + DeserializeOwned + 'static,
        QueryC: CustomQuery + DeserializeOwned + 'static,
    {
        self.inner.sudo(api, storage, router, block, msg)
    }
}
