//! `replay prim`: evaluates library primitives with the real cosmwasm-std, one JSON request per line
//! on stdin: {"op": "...", "args": ["123", ...]} -> {"ok": "..."} | {"err": "..."} | {"panic": true}
use std::io::BufRead;
use std::panic;
use std::str::FromStr;

use cosmwasm_std::{Decimal, Decimal256, Fraction, Isqrt, Timestamp, Uint128, Uint256, Uint512, Uint64};
use serde_json::{json, Value};

fn a128(v: &Value) -> Uint128 {
    Uint128::from_str(v.as_str().unwrap()).unwrap()
}
fn a256(v: &Value) -> Uint256 {
    Uint256::from_str(v.as_str().unwrap()).unwrap()
}
fn a512(v: &Value) -> Uint512 {
    Uint512::from_str(v.as_str().unwrap()).unwrap()
}
fn a64(v: &Value) -> u64 {
    v.as_str().unwrap().parse().unwrap()
}
fn d(v: &Value) -> Decimal {
    Decimal::new(a128(v))
}
fn d256(v: &Value) -> Decimal256 {
    Decimal256::new(a256(v))
}
fn ok<T: ToString>(x: T) -> Value {
    json!({"ok": x.to_string()})
}
fn res<T: ToString, E: std::fmt::Debug>(r: Result<T, E>) -> Value {
    match r {
        Ok(x) => ok(x),
        Err(e) => json!({"err": format!("{:?}", e)}),
    }
}
fn opt<T: ToString>(r: Option<T>) -> Value {
    match r {
        Some(x) => ok(x),
        None => json!({"err": "None"}),
    }
}

fn eval(op: &str, a: &[Value]) -> Value {
    match op {
        "u128.checked_add" => res(a128(&a[0]).checked_add(a128(&a[1]))),
        "u128.checked_sub" => res(a128(&a[0]).checked_sub(a128(&a[1]))),
        "u128.checked_mul" => res(a128(&a[0]).checked_mul(a128(&a[1]))),
        "u128.checked_div" => res(a128(&a[0]).checked_div(a128(&a[1]))),
        "u128.saturating_sub" => ok(a128(&a[0]).saturating_sub(a128(&a[1]))),
        "u128.multiply_ratio" => ok(a128(&a[0]).multiply_ratio(a128(&a[1]), a128(&a[2]))),
        "u128.checked_multiply_ratio" => res(a128(&a[0]).checked_multiply_ratio(a128(&a[1]), a128(&a[2]))),
        "u128.checked_mul_floor_dec" => res(a128(&a[0]).checked_mul_floor(d(&a[1]))),
        "u128.checked_div_floor_dec" => res(a128(&a[0]).checked_div_floor(d(&a[1]))),
        "u128.checked_mul_floor_frac" => res(a128(&a[0]).checked_mul_floor((a128(&a[1]), a128(&a[2])))),
        "u128.checked_div_floor_frac" => res(a128(&a[0]).checked_div_floor((a128(&a[1]), a128(&a[2])))),
        "u128.abs_diff" => ok(a128(&a[0]).abs_diff(a128(&a[1]))),
        "u128.add" => ok(a128(&a[0]) + a128(&a[1])),
        "u128.sub" => ok(a128(&a[0]) - a128(&a[1])),
        "u128.mul" => ok(a128(&a[0]) * a128(&a[1])),
        "u128.div" => ok(a128(&a[0]) / a128(&a[1])),
        "u128.rem" => ok(a128(&a[0]) % a128(&a[1])),
        "u64.checked_div_floor_frac" => res(Uint64::new(a64(&a[0])).checked_div_floor((a64(&a[1]), a64(&a[2])))),
        "u64.checked_add" => res(Uint64::new(a64(&a[0])).checked_add(Uint64::new(a64(&a[1])))),
        "u64.checked_mul" => res(Uint64::new(a64(&a[0])).checked_mul(Uint64::new(a64(&a[1])))),
        "u256.checked_add" => res(a256(&a[0]).checked_add(a256(&a[1]))),
        "u256.checked_sub" => res(a256(&a[0]).checked_sub(a256(&a[1]))),
        "u256.checked_mul" => res(a256(&a[0]).checked_mul(a256(&a[1]))),
        "u256.checked_div" => res(a256(&a[0]).checked_div(a256(&a[1]))),
        "u256.multiply_ratio" => ok(a256(&a[0]).multiply_ratio(a256(&a[1]), a256(&a[2]))),
        "u256.checked_multiply_ratio" => res(a256(&a[0]).checked_multiply_ratio(a256(&a[1]), a256(&a[2]))),
        "u256.saturating_sub" => ok(a256(&a[0]).saturating_sub(a256(&a[1]))),
        "u256.try_into_u128" => res(Uint128::try_from(a256(&a[0]))),
        "u512.checked_add" => res(a512(&a[0]).checked_add(a512(&a[1]))),
        "u512.checked_sub" => res(a512(&a[0]).checked_sub(a512(&a[1]))),
        "u512.checked_mul" => res(a512(&a[0]).checked_mul(a512(&a[1]))),
        "u512.checked_div" => res(a512(&a[0]).checked_div(a512(&a[1]))),
        "u512.saturating_mul" => ok(a512(&a[0]).saturating_mul(a512(&a[1]))),
        "u512.saturating_sub" => ok(a512(&a[0]).saturating_sub(a512(&a[1]))),
        "u512.abs_diff" => ok(a512(&a[0]).abs_diff(a512(&a[1]))),
        "u512.pow" => ok(a512(&a[0]).pow(a64(&a[1]) as u32)),
        "u512.isqrt" => ok(a512(&a[0]).isqrt()),
        "u512.try_into_u128" => res(Uint128::try_from(a512(&a[0]))),
        "u512.try_into_u256" => res(Uint256::try_from(a512(&a[0]))),
        "dec.percent" => ok(Decimal::percent(a64(&a[0])).atomics()),
        "dec.permille" => ok(Decimal::permille(a64(&a[0])).atomics()),
        "dec.from_ratio" => ok(Decimal::from_ratio(a128(&a[0]), a128(&a[1])).atomics()),
        "dec.checked_from_ratio" => res(Decimal::checked_from_ratio(a128(&a[0]), a128(&a[1])).map(|x| x.atomics())),
        "dec.from_atomics" => res(Decimal::from_atomics(a128(&a[0]), a64(&a[1]) as u32).map(|x| x.atomics())),
        "dec.checked_add" => res(d(&a[0]).checked_add(d(&a[1])).map(|x| x.atomics())),
        "dec.checked_sub" => res(d(&a[0]).checked_sub(d(&a[1])).map(|x| x.atomics())),
        "dec.checked_mul" => res(d(&a[0]).checked_mul(d(&a[1])).map(|x| x.atomics())),
        "dec.checked_div" => res(d(&a[0]).checked_div(d(&a[1])).map(|x| x.atomics())),
        "dec.checked_pow" => res(d(&a[0]).checked_pow(a64(&a[1]) as u32).map(|x| x.atomics())),
        "dec.mul" => ok((d(&a[0]) * d(&a[1])).atomics()),
        "dec.to_uint_floor" => ok(d(&a[0]).to_uint_floor()),
        "dec.to_uint_ceil" => ok(d(&a[0]).to_uint_ceil()),
        "dec.inv" => opt(d(&a[0]).inv().map(|x| x.atomics())),
        "dec.from_str" => res(Decimal::from_str(a[0].as_str().unwrap()).map(|x| x.atomics())),
        "dec.min" => ok(d(&a[0]).min(d(&a[1])).atomics()),
        "dec256.from_ratio" => ok(Decimal256::from_ratio(a256(&a[0]), a256(&a[1])).atomics()),
        "dec256.checked_from_ratio" => res(Decimal256::checked_from_ratio(a256(&a[0]), a256(&a[1])).map(|x| x.atomics())),
        "dec256.from_atomics" => res(Decimal256::from_atomics(a256(&a[0]), a64(&a[1]) as u32).map(|x| x.atomics())),
        "dec256.checked_add" => res(d256(&a[0]).checked_add(d256(&a[1])).map(|x| x.atomics())),
        "dec256.checked_sub" => res(d256(&a[0]).checked_sub(d256(&a[1])).map(|x| x.atomics())),
        "dec256.checked_mul" => res(d256(&a[0]).checked_mul(d256(&a[1])).map(|x| x.atomics())),
        "dec256.checked_div" => res(d256(&a[0]).checked_div(d256(&a[1])).map(|x| x.atomics())),
        "dec256.checked_pow" => res(d256(&a[0]).checked_pow(a64(&a[1]) as u32).map(|x| x.atomics())),
        "dec256.pow" => ok(d256(&a[0]).pow(a64(&a[1]) as u32).atomics()),
        "dec256.mul" => ok((d256(&a[0]) * d256(&a[1])).atomics()),
        "dec256.div" => ok((d256(&a[0]) / d256(&a[1])).atomics()),
        "dec256.sub" => ok((d256(&a[0]) - d256(&a[1])).atomics()),
        "dec256.to_uint_floor" => ok(d256(&a[0]).to_uint_floor()),
        "dec256.inv" => opt(d256(&a[0]).inv().map(|x| x.atomics())),
        "ts.seconds" => ok(Timestamp::from_nanos(a64(&a[0])).seconds()),
        "ts.from_seconds" => ok(Timestamp::from_seconds(a64(&a[0])).nanos()),
        "ts.plus_seconds" => ok(Timestamp::from_nanos(a64(&a[0])).plus_seconds(a64(&a[1])).nanos()),
        "ts.minus_seconds" => ok(Timestamp::from_nanos(a64(&a[0])).minus_seconds(a64(&a[1])).nanos()),
        _ => json!({"unknown": op}),
    }
}

pub fn run_stdin() {
    panic::set_hook(Box::new(|_| {}));
    let stdin = std::io::stdin();
    for line in stdin.lock().lines() {
        let line = line.unwrap();
        if line.trim().is_empty() {
            continue;
        }
        let v: Value = serde_json::from_str(&line).unwrap();
        let op = v["op"].as_str().unwrap().to_string();
        let args: Vec<Value> = v["args"].as_array().cloned().unwrap_or_default();
        let r = panic::catch_unwind(|| eval(&op, &args));
        match r {
            Ok(x) => println!("{}", x),
            Err(_) => println!("{}", json!({"panic": true})),
        }
    }
}
