//! Native replayer: drives the real contracts of /repo through cw-multi-test from a JSON scenario
//! and prints what happened as JSON.  Used to confirm solver counterexamples and to validate the
//! symbolic executor's library models against the real build.
use std::collections::BTreeMap;

use cosmwasm_std::testing::MockStorage;
use cosmwasm_std::{coin, Addr, Coin, Decimal, Empty, Timestamp, Uint128, Uint64};
use cw_multi_test::{
    App, AppBuilder, Contract, ContractWrapper, DistributionKeeper, Executor,
    FailingModule, GovFailingModule, IbcFailingModule, MockApiBech32, StakeKeeper, WasmKeeper,
};
mod faultbank;
mod tfmock;
use faultbank::{FaultyBank, Faults, SharedFaults};
use tfmock::TfMock;
use serde_json::{json, Value};

mod prim;

type TfApp = App<
    FaultyBank,
    MockApiBech32,
    MockStorage,
    FailingModule<Empty, Empty, Empty>,
    WasmKeeper<Empty, Empty>,
    StakeKeeper,
    DistributionKeeper,
    IbcFailingModule,
    GovFailingModule,
    TfMock,
>;

fn c_pool() -> Box<dyn Contract<Empty>> {
    Box::new(
        ContractWrapper::new_with_empty(
            pool_manager::contract::execute,
            pool_manager::contract::instantiate,
            pool_manager::contract::query,
        )
        .with_reply(pool_manager::contract::reply),
    )
}
fn c_fee() -> Box<dyn Contract<Empty>> {
    Box::new(ContractWrapper::new(
        fee_collector::contract::execute,
        fee_collector::contract::instantiate,
        fee_collector::contract::query,
    ))
}
fn c_epoch() -> Box<dyn Contract<Empty>> {
    Box::new(ContractWrapper::new(
        epoch_manager::contract::execute,
        epoch_manager::contract::instantiate,
        epoch_manager::contract::query,
    ))
}
fn c_farm() -> Box<dyn Contract<Empty>> {
    Box::new(
        ContractWrapper::new(
            farm_manager::contract::execute,
            farm_manager::contract::instantiate,
            farm_manager::contract::query,
        )
        .with_reply(farm_manager::contract::reply),
    )
}

struct World {
    app: TfApp,
    addrs: BTreeMap<String, Addr>,
    faults: SharedFaults,
}

fn u128_of(v: &Value) -> u128 {
    match v {
        Value::String(s) => s.parse().expect("u128 string"),
        Value::Number(n) => n.as_u64().expect("u64 number") as u128,
        _ => panic!("bad number {v}"),
    }
}
fn u64_of(v: &Value) -> u64 {
    u128_of(v) as u64
}
fn coins_of(v: &Value) -> Vec<Coin> {
    v.as_array()
        .map(|a| {
            a.iter()
                .map(|c| coin(u128_of(&c["amount"]), c["denom"].as_str().unwrap()))
                .collect()
        })
        .unwrap_or_default()
}

impl World {
    fn addr(&mut self, label: &str) -> Addr {
        if let Some(a) = self.addrs.get(label) {
            return a.clone();
        }
        let a = self.app.api().addr_make(label);
        self.addrs.insert(label.to_string(), a.clone());
        a
    }
    /// replace "@label" strings (and "{@label}" inside strings) by addresses
    fn subst(&mut self, v: &Value) -> Value {
        match v {
            Value::String(s) => {
                if let Some(l) = s.strip_prefix('@') {
                    return Value::String(self.addr(l).to_string());
                }
                let mut out = s.clone();
                while let Some(i) = out.find("{@") {
                    let j = out[i..].find('}').unwrap() + i;
                    let label = out[i + 2..j].to_string();
                    let a = self.addr(&label).to_string();
                    out.replace_range(i..=j, &a);
                }
                Value::String(out)
            }
            Value::Array(a) => Value::Array(a.iter().map(|x| self.subst(x)).collect()),
            Value::Object(o) => {
                Value::Object(o.iter().map(|(k, x)| (k.clone(), self.subst(x))).collect())
            }
            _ => v.clone(),
        }
    }
}

fn main() {
    let args: Vec<String> = std::env::args().collect();
    if args.len() >= 2 && args[1] == "prim" {
        prim::run_stdin();
        return;
    }
    let path = args.get(1).expect("usage: replay <scenario.json> | replay prim");
    std::panic::set_hook(Box::new(|_| {}));
    let sc: Value = serde_json::from_str(&std::fs::read_to_string(path).unwrap()).unwrap();
    let out = run(&sc);
    println!("{}", serde_json::to_string(&out).unwrap());
}

fn run(sc: &Value) -> Value {
    let tf_fees = coins_of(&sc["tf_fees"]);
    let api = MockApiBech32::new("mantra");
    // initial balances
    let mut init: Vec<(String, Vec<Coin>)> = vec![];
    if let Some(b) = sc["balances"].as_object() {
        for (k, v) in b {
            init.push((k.clone(), coins_of(v)));
        }
    }
    let mut addrs = BTreeMap::new();
    for (k, _) in &init {
        addrs.insert(k.clone(), api.addr_make(k));
    }
    let init2: Vec<(Addr, Vec<Coin>)> = init.iter().map(|(k, c)| (addrs[k].clone(), c.clone())).collect();
    let faults: SharedFaults = std::rc::Rc::new(std::cell::RefCell::new(Faults::default()));
    let app: TfApp = AppBuilder::new()
        .with_api(api)
        .with_wasm(WasmKeeper::default())
        .with_bank(FaultyBank::new(faults.clone()))
        .with_stargate(TfMock::new(tf_fees))
        .build(|router, _api, storage| {
            for (a, c) in init2 {
                if !c.is_empty() {
                    router.bank.init_balance(storage, &a, c).unwrap();
                }
            }
        });
    let mut w = World { app, addrs, faults };
    let creator = w.addr("creator");
    let setup = &sc["setup"];
    // block time before instantiation
    if let Some(t) = setup.get("time_nanos") {
        let mut b = w.app.block_info();
        b.time = Timestamp::from_nanos(u64_of(t));
        w.app.set_block(b);
    }
    let mut results = vec![];
    if setup.get("contracts").and_then(|v| v.as_bool()).unwrap_or(true) {
        let e = &setup["epoch"];
        let code = w.app.store_code(c_epoch());
        let msg = mantra_dex_std::epoch_manager::InstantiateMsg {
            owner: creator.to_string(),
            epoch_config: mantra_dex_std::epoch_manager::EpochConfig {
                duration: Uint64::new(e.get("duration").map(u64_of).unwrap_or(86_400)),
                genesis_epoch: Uint64::new(e.get("genesis").map(u64_of).unwrap_or(w.app.block_info().time.seconds())),
            },
        };
        match w.app.instantiate_contract(code, creator.clone(), &msg, &[], "epoch", Some(creator.to_string())) {
            Ok(a) => {
                w.addrs.insert("epoch_manager".into(), a);
            }
            Err(err) => {
                return json!({"setup_error": format!("epoch: {:#}", err)});
            }
        }
        let code = w.app.store_code(c_fee());
        let a = w
            .app
            .instantiate_contract(code, creator.clone(), &mantra_dex_std::fee_collector::InstantiateMsg {}, &[], "fee", Some(creator.to_string()))
            .unwrap();
        w.addrs.insert("fee_collector".into(), a);
        let f = &setup["farm"];
        let code = w.app.store_code(c_farm());
        let fee = f.get("create_farm_fee").map(|c| coin(u128_of(&c["amount"]), c["denom"].as_str().unwrap())).unwrap_or(coin(0, "uom"));
        let msg = mantra_dex_std::farm_manager::InstantiateMsg {
            owner: creator.to_string(),
            epoch_manager_addr: w.addrs["epoch_manager"].to_string(),
            fee_collector_addr: w.addrs["fee_collector"].to_string(),
            pool_manager_addr: "".to_string(),
            create_farm_fee: fee,
            max_concurrent_farms: f.get("max_concurrent_farms").map(u64_of).unwrap_or(5) as u32,
            max_farm_epoch_buffer: f.get("max_farm_epoch_buffer").map(u64_of).unwrap_or(14) as u32,
            min_unlocking_duration: f.get("min_unlocking_duration").map(u64_of).unwrap_or(86_400),
            max_unlocking_duration: f.get("max_unlocking_duration").map(u64_of).unwrap_or(31_556_926),
            farm_expiration_time: f.get("farm_expiration_time").map(u64_of).unwrap_or(2_629_746),
            emergency_unlock_penalty: Decimal::new(Uint128::new(f.get("emergency_unlock_penalty_atomics").map(u128_of).unwrap_or(100_000_000_000_000_000))),
        };
        match w.app.instantiate_contract(code, creator.clone(), &msg, &[], "farm", Some(creator.to_string())) {
            Ok(a) => {
                w.addrs.insert("farm_manager".into(), a);
            }
            Err(err) => return json!({"setup_error": format!("farm: {:#}", err)}),
        }
        let p = &setup["pool"];
        let code = w.app.store_code(c_pool());
        let fee = p.get("pool_creation_fee").map(|c| coin(u128_of(&c["amount"]), c["denom"].as_str().unwrap())).unwrap_or(coin(1000, "uusd"));
        let msg = mantra_dex_std::pool_manager::InstantiateMsg {
            fee_collector_addr: w.addrs["fee_collector"].to_string(),
            farm_manager_addr: w.addrs["farm_manager"].to_string(),
            pool_creation_fee: fee,
        };
        match w.app.instantiate_contract(code, creator.clone(), &msg, &[], "pool", Some(creator.to_string())) {
            Ok(a) => {
                w.addrs.insert("pool_manager".into(), a);
            }
            Err(err) => return json!({"setup_error": format!("pool: {:#}", err)}),
        }
        // point the farm manager at the pool manager
        let msg = mantra_dex_std::farm_manager::ExecuteMsg::UpdateConfig {
            fee_collector_addr: None,
            epoch_manager_addr: None,
            pool_manager_addr: Some(w.addrs["pool_manager"].to_string()),
            create_farm_fee: None,
            max_concurrent_farms: None,
            max_farm_epoch_buffer: None,
            min_unlocking_duration: None,
            max_unlocking_duration: None,
            farm_expiration_time: None,
            emergency_unlock_penalty: None,
        };
        w.app.execute_contract(creator.clone(), w.addrs["farm_manager"].clone(), &msg, &[]).unwrap();
    }
    for st in sc["steps"].as_array().cloned().unwrap_or_default() {
        let op = st["op"].as_str().unwrap_or("");
        let caught = std::panic::catch_unwind(std::panic::AssertUnwindSafe(|| {
        let w = &mut w;
        match op {
            "set_time" => {
                let mut b = w.app.block_info();
                b.time = Timestamp::from_nanos(u64_of(&st["nanos"]));
                b.height += 1;
                w.app.set_block(b);
                json!({"ok": null})
            }
            "advance" => {
                let mut b = w.app.block_info();
                b.time = b.time.plus_seconds(u64_of(&st["seconds"]));
                b.height += 1;
                w.app.set_block(b);
                json!({"ok": null})
            }
            "execute" => {
                let target = w.addr(st["contract"].as_str().unwrap());
                let sender = w.addr(st["sender"].as_str().unwrap());
                let funds = {
                    let f = w.subst(&st["funds"]);
                    coins_of(&f)
                };
                let msg = w.subst(&st["msg"]);
                match w.app.execute_contract(sender, target, &msg, &funds) {
                    Ok(resp) => {
                        let evs: Vec<Value> = resp
                            .events
                            .iter()
                            .map(|e| json!({"type": e.ty, "attrs": e.attributes.iter().map(|a| json!([a.key, a.value])).collect::<Vec<_>>()}))
                            .collect();
                        json!({"ok": {"events": evs}})
                    }
                    Err(err) => json!({"err": format!("{:#}", err)}),
                }
            }
            "query" => {
                let target = w.addr(st["contract"].as_str().unwrap());
                let msg = w.subst(&st["msg"]);
                let r: Result<Value, _> = w.app.wrap().query_wasm_smart(target, &msg);
                match r {
                    Ok(v) => json!({"ok": v}),
                    Err(err) => json!({"err": format!("{:#}", err)}),
                }
            }
            "balances" => {
                let a = w.addr(st["addr"].as_str().unwrap());
                #[allow(deprecated)]
                let b = w.app.wrap().query_all_balances(a).unwrap();
                json!({"ok": b.iter().map(|c| json!({"denom": c.denom, "amount": c.amount.to_string()})).collect::<Vec<_>>()})
            }
            "balance" => {
                let a = w.addr(st["addr"].as_str().unwrap());
                let d = w.subst(&st["denom"]);
                let b = w.app.wrap().query_balance(a, d.as_str().unwrap()).unwrap();
                json!({"ok": b.amount.to_string()})
            }
            "supply" => {
                let d = w.subst(&st["denom"]);
                let b = w.app.wrap().query_supply(d.as_str().unwrap()).unwrap();
                json!({"ok": b.amount.to_string()})
            }
            "send" => {
                let from = w.addr(st["from"].as_str().unwrap());
                let to = w.addr(st["to"].as_str().unwrap());
                let f = w.subst(&st["funds"]);
                match w.app.send_tokens(from, to, &coins_of(&f)) {
                    Ok(_) => json!({"ok": null}),
                    Err(err) => json!({"err": format!("{:#}", err)}),
                }
            }
            "block_recipient" => {
                // native fault injection: every bank send to this address fails from now on
                let a = w.addr(st["addr"].as_str().unwrap());
                w.faults.borrow_mut().blocked.insert(a.to_string());
                json!({"ok": null})
            }
            "fail_send_number" => {
                // native fault injection: the n-th bank send from now on fails (whatever its recipient)
                w.faults.borrow_mut().fail_send_in = Some(u64_of(&st["n"]));
                json!({"ok": null})
            }
            "mint" => {
                let to = w.addr(st["to"].as_str().unwrap());
                let f = w.subst(&st["funds"]);
                let msg = cw_multi_test::SudoMsg::Bank(cw_multi_test::BankSudo::Mint { to_address: to.to_string(), amount: coins_of(&f) });
                match w.app.sudo(msg) {
                    Ok(_) => json!({"ok": null}),
                    Err(err) => json!({"err": format!("{:#}", err)}),
                }
            }
            "set_pool" => {
                // inject a pool pre-state through the contract's own storage definition
                let v = w.subst(&st["pool"]);
                let pool: mantra_dex_std::pool_manager::PoolInfo = serde_json::from_value(v).expect("PoolInfo json");
                let pm = w.addr("pool_manager");
                let mut stg = w.app.contract_storage_mut(&pm);
                match pool_manager::state::POOLS.save(&mut *stg, &pool.pool_identifier.clone(), &pool) {
                    Ok(_) => json!({"ok": null}),
                    Err(err) => json!({"err": format!("{:#}", err)}),
                }
            }
            "set_position" => {
                let v = w.subst(&st["position"]);
                let pos: mantra_dex_std::farm_manager::Position = serde_json::from_value(v).expect("Position json");
                let fm = w.addr("farm_manager");
                let mut stg = w.app.contract_storage_mut(&fm);
                match farm_manager::state::POSITIONS.save(&mut *stg, &pos.identifier.clone(), &pos) {
                    Ok(_) => json!({"ok": null}),
                    Err(err) => json!({"err": format!("{:#}", err)}),
                }
            }
            "set_farm" => {
                let v = w.subst(&st["farm"]);
                let farm: mantra_dex_std::farm_manager::Farm = serde_json::from_value(v).expect("Farm json");
                let fm = w.addr("farm_manager");
                let mut stg = w.app.contract_storage_mut(&fm);
                match farm_manager::state::FARMS.save(&mut *stg, &farm.identifier.clone(), &farm) {
                    Ok(_) => json!({"ok": null}),
                    Err(err) => json!({"err": format!("{:#}", err)}),
                }
            }
            "set_weight" => {
                let a = w.addr(st["addr"].as_str().unwrap());
                let d = w.subst(&st["denom"]);
                let e = u64_of(&st["epoch"]);
                let wt = Uint128::new(u128_of(&st["weight"]));
                let fm = w.addr("farm_manager");
                let mut stg = w.app.contract_storage_mut(&fm);
                match farm_manager::state::LP_WEIGHT_HISTORY.save(&mut *stg, (&a, d.as_str().unwrap(), e), &wt) {
                    Ok(_) => json!({"ok": null}),
                    Err(err) => json!({"err": format!("{:#}", err)}),
                }
            }
            "set_last_claimed" => {
                let a = w.addr(st["addr"].as_str().unwrap());
                let e = u64_of(&st["epoch"]);
                let fm = w.addr("farm_manager");
                let mut stg = w.app.contract_storage_mut(&fm);
                match farm_manager::state::LAST_CLAIMED_EPOCH.save(&mut *stg, &a, &e) {
                    Ok(_) => json!({"ok": null}),
                    Err(err) => json!({"err": format!("{:#}", err)}),
                }
            }
            "set_counter" => {
                let fm = w.addr("farm_manager");
                let mut stg = w.app.contract_storage_mut(&fm);
                let which = st["which"].as_str().unwrap_or("position");
                let v = u64_of(&st["value"]);
                let r = if which == "farm" { farm_manager::state::FARM_COUNTER.save(&mut *stg, &v) } else { farm_manager::state::POSITION_ID_COUNTER.save(&mut *stg, &v) };
                match r {
                    Ok(_) => json!({"ok": null}),
                    Err(err) => json!({"err": format!("{:#}", err)}),
                }
            }
            "get_weight" => {
                let a = w.addr(st["addr"].as_str().unwrap());
                let d = w.subst(&st["denom"]);
                let e = u64_of(&st["epoch"]);
                let fm = w.addr("farm_manager");
                let stg = w.app.contract_storage(&fm);
                match farm_manager::state::LP_WEIGHT_HISTORY.may_load(&*stg, (&a, d.as_str().unwrap(), e)) {
                    Ok(Some(v)) => json!({"ok": v.to_string()}),
                    Ok(None) => json!({"ok": null}),
                    Err(err) => json!({"err": format!("{:#}", err)}),
                }
            }
            "get_last_claimed" => {
                let a = w.addr(st["addr"].as_str().unwrap());
                let fm = w.addr("farm_manager");
                let stg = w.app.contract_storage(&fm);
                match farm_manager::state::LAST_CLAIMED_EPOCH.may_load(&*stg, &a) {
                    Ok(Some(v)) => json!({"ok": v.to_string()}),
                    Ok(None) => json!({"ok": null}),
                    Err(err) => json!({"err": format!("{:#}", err)}),
                }
            }
            "addr" => {
                let a = w.addr(st["label"].as_str().unwrap());
                json!({"ok": a.to_string()})
            }
            _ => json!({"err": format!("unknown op {op}")}),
        }
        }));
        let r = match caught {
            Ok(v) => v,
            Err(e) => {
                let msg = e.downcast_ref::<String>().cloned().or_else(|| e.downcast_ref::<&str>().map(|s| s.to_string())).unwrap_or_default();
                json!({"panic": msg})
            }
        };
        results.push(r);
    }
    let addrs: BTreeMap<String, String> = w.addrs.iter().map(|(k, v)| (k.clone(), v.to_string())).collect();
    json!({"results": results, "addrs": addrs, "time_nanos": w.app.block_info().time.nanos().to_string()})
}
