//! Token-factory mock used by the replayer: mantra-common-testing's StargateMock, except that an EMPTY
//! denom-creation fee means "nothing to pay" (as on the chain).  The stock mock always issues a bank burn of
//! the fee list, and the bank refuses an empty coin list, so with no fee configured every denom creation
//! failed inside the test double.
use anyhow::Result as AnyResult;
use cosmwasm_std::{
    to_json_binary, Addr, AnyMsg, Api, Binary, BlockInfo, Coin, CustomMsg, CustomQuery, GrpcQuery, MsgResponse, Querier, Storage,
    SubMsgResponse,
};
use cw_multi_test::{AppResponse, CosmosRouter, Stargate};
use mantra_common_testing::multi_test::stargate_mock::StargateMock;
use mantra_dex_std::tokenfactory::common::EncodeMessage;
use mantra_dex_std::tokenfactory::create_denom::{MsgCreateDenom, MsgCreateDenomResponse};
use serde::de::DeserializeOwned;

pub struct TfMock {
    inner: StargateMock,
    no_fee: bool,
}

impl TfMock {
    pub fn new(fees: Vec<Coin>) -> Self {
        let no_fee = fees.is_empty();
        Self { inner: StargateMock::new(fees), no_fee }
    }

    fn create_denom_without_fee(&self, type_url: String, value: Binary) -> AnyResult<AppResponse> {
        let tf_msg: MsgCreateDenom = MsgCreateDenom::decode(value.into())?;
        let resp = MsgCreateDenomResponse { new_token_denom: format!("factory/{}/{}", tf_msg.sender, tf_msg.subdenom) };
        let r = SubMsgResponse {
            events: vec![],
            #[allow(deprecated)]
            data: Some(to_json_binary(&resp)?),
            msg_responses: vec![MsgResponse { type_url, value: to_json_binary(&resp)? }],
        };
        Ok(r.into())
    }
}

const CREATE: &str = "/osmosis.tokenfactory.v1beta1.MsgCreateDenom";

impl Stargate for TfMock {
    fn execute_any<ExecC, QueryC>(
        &self,
        api: &dyn Api,
        storage: &mut dyn Storage,
        router: &dyn CosmosRouter<ExecC = ExecC, QueryC = QueryC>,
        block: &BlockInfo,
        sender: Addr,
        msg: AnyMsg,
    ) -> AnyResult<AppResponse>
    where
        ExecC: CustomMsg + DeserializeOwned + 'static,
        QueryC: CustomQuery + DeserializeOwned + 'static,
    {
        if self.no_fee && msg.type_url == CREATE {
            return self.create_denom_without_fee(msg.type_url, msg.value);
        }
        self.inner.execute_any(api, storage, router, block, sender, msg)
    }

    fn execute_stargate<ExecC, QueryC>(
        &self,
        api: &dyn Api,
        storage: &mut dyn Storage,
        router: &dyn CosmosRouter<ExecC = ExecC, QueryC = QueryC>,
        block: &BlockInfo,
        sender: Addr,
        type_url: String,
        value: Binary,
    ) -> AnyResult<AppResponse>
    where
        ExecC: CustomMsg + DeserializeOwned + 'static,
        QueryC: CustomQuery + DeserializeOwned + 'static,
    {
        if self.no_fee && type_url == CREATE {
            return self.create_denom_without_fee(type_url, value);
        }
        self.inner.execute_stargate(api, storage, router, block, sender, type_url, value)
    }

    fn query_stargate(
        &self,
        api: &dyn Api,
        storage: &dyn Storage,
        querier: &dyn Querier,
        block: &BlockInfo,
        path: String,
        data: Binary,
    ) -> AnyResult<Binary> {
        self.inner.query_stargate(api, storage, querier, block, path, data)
    }

    fn query_grpc(&self, api: &dyn Api, storage: &dyn Storage, querier: &dyn Querier, block: &BlockInfo, request: GrpcQuery) -> AnyResult<Binary> {
        self.inner.query_grpc(api, storage, querier, block, request)
    }
}
