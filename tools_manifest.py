#!/usr/bin/env python3
"""Regenerate MANIFEST.json from the table below (keeps it valid at all times)."""
import json

TRUST = ('Trusted: rustc MIR lowering (nightly dump of the current tree), the MIR executor and its library models (validated differentially '
         'against the native build), z3; the chain model (funds before execute, depth-first messages, rollback on error) is assumed. ')

CLAIMED = {
    'C01': dict(
        text='Inductive step obligations: from any state in which the pool manager holds, per denom, the summed reserves of two pools sharing a denom plus a '
             'symbolic non-negative excess (and per pool the locked 1000 LP plus excess), every operation reached through the public messages (swap, two-asset '
             'deposit, single-asset deposit via sub-message + reply, withdrawal; routed swaps in the thorough tier) leaves balance - reserves equal to the same '
             'excess (plus amount mod 2 for single-asset deposits) and the LP holdings unchanged. One step from an arbitrary invariant state covers histories of any length. Also: locked deposits across both contracts (LP goes to the farm manager, reserves stay backed) and a three-asset stableswap pool with the Curve arithmetic abstracted (accounting only). Routed swaps incl. routes revisiting a pool (C04.R1 shared) and pool creation next to a funded pool whose reserves are in the fee denoms (C16.S1 shared).',
        ref='DESIGN.md §6 C01',
        note=TRUST + 'Pool creation (nothing kept) and first deposits (minimum liquidity locked) are discharged under C16 / C02; rejected operations change nothing by the rollback rule.'),
    'C02': dict(
        text='Step obligations on the real provide_liquidity / withdraw_liquidity reached through the public execute entry point, from an arbitrary '
             'funded or empty constant-product pool (reserves, LP supply, deposits, LP amounts full 128-bit symbols): mint formulas, '
             'never-more-than-proportional, value-per-LP monotone, exact floor share on withdrawal, locked minimum liquidity. One inductive step from an '
             'arbitrary state covers histories of any length. Stableswap value monotonicity is outside the claim (needs the Newton solver, see C19). Also: three-asset stableswap pool with the Curve arithmetic abstracted: first deposit locks the decimals-scaled minimum liquidity, withdrawals burn what was sent and pay the floor pro-rata share of EVERY asset.',
        ref='DESIGN.md §6 C02',
        note=TRUST + 'Pre-state invariant: pool manager holds >= reserves and exactly the locked 1000 LP; LP holder owns <= supply-1000.'),
    'C03': dict(
        text='Constant product: perform_swap executed symbolically for all reserves, offers, tolerances and every fee configuration accepted by the real '
             'PoolFee::is_valid (0 and 2 extra fees): stored x\'*y\' >= x*y, gross output < reserve; same-pool round trip never profitable (2 swaps, '
             'using the product lemma proved in the same run). Stableswap D-monotonicity is outside the claim (C19): the Curve iterations are not encoded symbolically; C03.D1 only keeps a concretely executed, natively confirmed witness of the open finding C03-stableswap-dust-round-trip (small round trips on two concrete stableswap pools). C03.K1 carries algorithmic truncation probes (reserves above 1e18 with x*y = 1, 2 mod N) as counterexample candidates for 18-decimal truncation slips.',
        ref='DESIGN.md §6 C03',
        note=TRUST + 'Round trips through different pools are price arbitrage and are not asserted.'),
    'C04': dict(
        text='The public Swap message executed through the chain model from an arbitrary constant-product pool state: reserve deltas, receiver / fee '
             'collector / burn amounts equal floor shares of the gross output, nobody else\'s balance changes, only transfers and burns; receiver variants '
             '(none, valid, invalid address). Routed swaps (4 route shapes incl. routes that return to the offer denom; pricing kernel abstracted): each hop '
             'offers exactly the previous hop output, only the final output reaches the receiver, per-denom protocol / burn fees and reserve backing are exact. '
             'Stableswap pools with equal and different decimals (Newton solver abstracted): every fee is the floor share of the gross output the Swap reports, transfers match the reported amounts. '
             'Counterexamples are replayed natively (predicted balances and reserves; routes: the route against its hops sent one by one).',
        ref='DESIGN.md §6 C04',
        note=TRUST + 'Addresses and denoms are concrete labels; amounts are symbolic.'),
    'C05': dict(
        text='Inductive step obligations on every farm-manager message (position create / expand / close full+partial / withdraw / emergency withdraw, claim with and '
             'without until_epoch, farm create / expand / close incl. a farm whose reward denom is an LP denom, create / expand by the pool manager on behalf) from a symbolic state satisfying: balance = recorded '
             'positions + unclaimed farm budgets + excess X >= 0 per denom. After the message the balance still covers the liabilities and X never decreases (equal '
             'except for penalty dust).',
        ref='DESIGN.md §6 C05',
        note=TRUST + 'Two explicit positions and three farms (two on the same LP token with the same owner) plus the symbolic excess; window of 10 epochs for claims.'),
    'C06': dict(
        text='Bounded histories of claims by two explicit users (plus an aggregated remainder of other users) on one farm, executed through the public '
             'Claim message from symbolic weights/rates: every rightful claim succeeds in any order, each user is paid exactly the ledger sum of their '
             'epoch shares (nothing before their weight took effect, nothing twice), the total stays within emission x elapsed epochs and the budget. Also: a user with positions in two LP tokens whose identifiers interleave the tokens (each LP paid exactly once, farm books exactly the payment). Also: a claim cursor older than the first weight on the LP token (nothing paid for the gap) and an until_epoch below the cursor (refused, nothing paid twice).',
        ref='DESIGN.md §6 C06',
        note=TRUST + 'Bounded: 3 claims, window of 10 epochs, concrete snapshot epochs; sum of user weights <= total weight is assumed (C10).'),
    'C07': dict(
        text='Claims executed through the public Claim message on a bounded epoch window (current epoch 10, concrete snapshot / farm epochs, symbolic '
             'weights, rates and budgets): the amount paid equals an independent ledger sum of floor(emission * weight in effect / total in effect); cursor, '
             'claimed_amount, weights after the claimed span and other users are checked; Rewards query equals Claim; splitting a claim with until_epoch '
             'pays the same total (relational, two executions). Also: a user with positions in two LP tokens (per-LP sums, Rewards query per denom); thorough tier: EVERY shape of the epoch window (second snapshot x until_epoch x cursor x three farm spans) and every split epoch. Also: two farms whose identifier order differs from their start order (bounded claim, per-farm booking, query, following claim) and an expired but never closed farm 39 epochs later (query = claim = epoch shares).',
        ref='DESIGN.md §6 C07',
        note=TRUST + 'Bounded: 2 explicit users plus an aggregated remainder, 1-2 farms, window of 10 epochs; the weight-history representation invariant '
             '(no snapshot older than the claim cursor) is assumed in pre-states.'),
    'C08': dict(
        text='Step obligations on the public ManagePosition messages (create / expand / close full and partial / withdraw) from a symbolic farm-manager state: '
             'sender role (owner, stranger, pool manager), open/closed state, amounts, times and expiry are symbolic or case-split; authorisation, the exact '
             'unlock boundary, full payment, LP conservation on partial closes, id prefixes and non-interference with other positions are decided per path. '
             'Locked deposits: ProvideLiquidity with an unlocking duration executed across BOTH contracts (pool manager execute / reply -> farm manager execute, '
             'Positions query back) for 4 lock targets x 2 receivers, one and two assets: only the sender own positions grow, by exactly the minted shares. Positions are also named without the u- prefix (must be refused, no record under another identifier); explicit identifiers of other users are refused.',
        ref='DESIGN.md §6 C08',
        note=TRUST + 'Identifiers are concrete (fresh / taken).'),
    'C09': dict(
        text='calculate_emergency_penalty executed symbolically (amount, duration, base penalty, times full range): <= 90%, equals the capped product with '
             'the code\'s 18-decimal floors, zero once unlocked, non-increasing in time. Also: 12 farms on the LP token with the only active one last in identifier order (beyond a default listing page). Quick tier: two active farms with one owner (one share) and with two owners.',
        ref='DESIGN.md §6 C09',
        note=TRUST + 'Handler-level split of the penalty between fee collector and farm owners is covered by the position step obligations when built.'),
    'C10': dict(
        text='calculate_weight executed symbolically over the full u128 x u64 domain: amount <= weight <= 16*amount inside [1 day, 1 year], InvalidWeight outside, '
             'monotone in amount and in duration (relational: two executions compared). Step obligations on all 15 farm-manager operations (incl. on-behalf operations by the pool manager), on positions filled in two pieces, and on '
             'locked deposits across both contracts: the total weight and the '
             'acting user weight recorded for the next epoch move by exactly the same amount, nothing moves for closed positions / claims / farm operations, current-epoch '
             'weights are untouched, the total covers the users, and a user without open positions has no weight. Also recorded weights above the position weight by a rounding remainder (last position closed: no weight left).',
        ref='DESIGN.md §6 C10',
        note=TRUST + 'Pre-state: each user weight equals the sum of the weights of the pieces their open position was filled with (one piece, or two pieces of symbolic size).'),
    'C11': dict(
        text='Step obligations on the public ManageFarm messages: creation under every fee configuration (fee amount symbolic incl. zero, fee in the reward denom '
             'or another) and attached-funds shape (exact, reward only, extra coin, overpaid fee), automatic closing of expired farms with refunds to their owners, '
             'the concurrent-farm limit, expansion (owner only, before the end, same denom, multiples of the rate) and closing (farm owner or contract owner, exact '
             'remainder to the farm owner only). Limits between the listing default page and its maximum (N in {12, 11, 37, 100}); explicit farm identifiers unique across LP tokens.',
        ref='DESIGN.md §6 C11',
        note=TRUST + 'At most 2 pre-existing farms per LP token (max_concurrent_farms = 2); epoch/time consistency assumed from C18.'),
    'C12': dict(
        text='Relational obligations: Simulation vs Swap on the same symbolic constant-product state (all amounts equal on every accepted path); '
             'SimulateSwapOperations vs ExecuteSwapOperations over a 2-hop route with the pricing kernel as an uninterpreted function (glue only); '
             'reverse quote + 1 unit suffices (zero fees: full range; with fees: three fixed fee configurations, ask < 1e18 while the recorded precision '
             'finding is open). Reverse quote: five fixed fee configurations incl. one and two extra fees, native replay ReverseSimulation -> Simulation(q+1). Every amount the Swap REPORTS (response attributes) equals the quote, also when the receiver is the fee collector.',
        ref='DESIGN.md §6 C12',
        note=TRUST + 'Paths where the forward swap of the quote is itself refused are outside the reverse-quote obligation.'),
    'C13': dict(
        text='assert_max_slippage and assert_slippage_tolerance executed symbolically: accepted iff the documented predicate holds (default 1%, cap 50%, '
             'belief price, zero price refused), monotone in the tolerance (relational), proportional deposits accepted under every valid tolerance, '
             'tolerance > 1 refused. Handler level: an executed Swap message is within the caller / default tolerance against the pre-trade spot price and, with a '
             'belief price, within tolerance of offer / belief measured on what the trader receives. Routed swaps: minimum_receive boundary (D accepted, D + 1 refused, three runs '
             'from one snapshot). Stableswap deposits with a tolerance: the real handler on three concrete pools (Curve iterations executed on concrete values), tolerance symbolic.',
        ref='DESIGN.md §6 C13',
        note=TRUST + 'Open known finding C13-stableswap-deposit-tolerance (every stableswap deposit stating a tolerance <= 100% is refused); the mixed-decimals slippage units were repaired (fix eb3d56f).'),
    'C14': dict(
        text='Relational obligation: from one symbolic funded two-asset pool the real single-asset chain (execute -> self Swap sub-message -> reply -> self '
             'ProvideLiquidity) and the manual sequence Swap(half) + ProvideLiquidity(half, proceeds) are both executed; reserves, LP minted to the sender, fees and '
             'balances are equal, the leftover is amount mod 2, the temporary buffer is gone; refusals on empty / 3-asset pools and when locking for another receiver. Locked deposits executed across both contracts '
             '(4 lock targets x 2 receivers): never locks for, or expands a position of, anyone but the sender. The three-asset refusal has a native replay (pricing abstracted behind the missing refusal).',
        ref='DESIGN.md §6 C14',
        note=TRUST + 'Constant-product pools.'),
    'C15': dict(
        text='Complete case split (contract x privileged message x sender role x pending transfer x funds), each case decided on the real dispatchers and the '
             'cw-ownable / mantra-utils code executed from their MIR: accepted only from the authorised role and without funds, storage unchanged on rejection, '
             'ownership moves only by propose + accept or ends by renounce. The position / farm authorisation obligations of C08 (withdraw, close, create, expand, emergency exit: sender roles incl. the pool manager) and C11 (farm expand / close) are registered here as well. So are the cross-contract locked deposits (C15.L1: the pool manager tops up only positions of the sender).',
        ref='DESIGN.md §6 C15',
        note=TRUST + 'Farm / position authorisations are part of C08 and C11.'),
    'C16': dict(
        text='create_pool executed through the public CreatePool message with symbolic creation fee, token-factory fee coins (none / other denom / same '
             'denom / both) and arbitrary attached amounts: accepted iff funds equal exactly the required fees, fee routed to the collector, nothing kept, '
             'parameter validation (asset counts, duplicates, decimals length, fee bounds, amp, identifier well-formed and unused) decided over the whole case '
             'split with symbolic fee shares; deposits keep every immutable pool field and the asset order. CreatePool parameter violations are replayed natively; three-asset stableswap pool: immutable fields and asset order unchanged by deposits, withdrawals, swaps. Creation parameters include 0-2 symbolic extra fees under the 20% total; creation runs next to a funded pool in the fee denoms.',
        ref='DESIGN.md §6 C16',
        note=TRUST + 'Identifiers are concrete strings (fresh / taken / malformed); immutability is checked on deposits, swaps and withdrawals via the reserve-only '
             'post-conditions of C02/C04.'),
    'C17': dict(
        text='Relational step obligations through the public messages on two funded pools sharing a denom, the three switches of one pool symbolic (all 8 '
             'combinations): each way of swapping / depositing / withdrawing on that pool (direct swap, routed hop in either position, two-asset deposit, single-asset '
             'deposit through the sub-message + reply chain, withdrawal) is rejected when its switch is off; otherwise outcome, balances and reserves equal a second '
             'execution with every switch on (non-interference), also for the other pool. Toggle writes only the named pool. Also: locked deposits (one and two assets) under all 8 switch states, across both contracts.',
        ref='DESIGN.md §6 C17',
        note=TRUST + 'Routes use the pricing kernel as an uninterpreted function (glue only); the other operations run the real kernel and are replayable.'),
    'C18': dict(
        text='Bounded symbolic execution of the real MIR of query_current_epoch / query_epoch with genesis, duration, block time and epoch id as '
             'unconstrained 64-bit symbols; every feasible path is decided by z3 (unsat of pre ∧ path ∧ ¬post). Full u64 ranges, no loop, so the only '
             'bound is the type width; counterexamples are replayed against the real contracts before being reported. Also: what instantiate and UpdateConfig accept (duration >= 86400, genesis >= block time) for any stored configuration, full u64 ranges.',
        ref='DESIGN.md §6 C18',
        note='Trusted: rustc MIR lowering, the MIR executor and its library models (validated differentially against the native build), z3. '
             'The epoch configuration is assumed to satisfy duration >= 86400 (established by instantiate/update_config).'),
    'C20': dict(
        text='Fault injection through the chain model: for representative messages of both managers the k-th internal bank / token-factory / contract call is made to '
             'fail (k symbolic over the positions); decided on the real code: every emitted sub-message is reply-never or reply-on-success (pool manager) / reply-never or '
             'the refund of a farm-closing operation with reply-on-error id 1 (farm manager; no other operation may tolerate a failure), hence any other internal failure fails the whole message; the failing close-farm refund '
             'neither blocks the close (manual or automatic) nor touches other farms, positions or balances. State equality after a failed message follows from the '
             'platform rollback rule, which is assumed. Also: a locked deposit whose top-up the farm manager refuses (closed position / other LP token) fails as a whole (cross-contract).',
        ref='DESIGN.md §6 C20',
        note=TRUST + 'Routes / single-asset deposits use the pricing kernel as an uninterpreted function here (control flow only).'),
}
NOT_APPLICABLE = {
    'C19': 'numerical accuracy of three 255-round Newton iterations over 256/512-bit integers against the exact root: nested non-linear integer '
           'arithmetic that no available SMT back end decides at any useful bound (DESIGN.md §7); structural fragments are covered under C03/C04',
}
ALL = ['C%02d' % i for i in range(1, 21)]
PENDING = 'handler-level encoding not built yet (work in progress; see DESIGN.md §9 staging)'


def main():
    checks = []
    for pid in ALL:
        if pid in CLAIMED:
            c = CLAIMED[pid]
            checks.append({
                'property_id': pid,
                'quick_cmd': './check %s --tier quick' % pid,
                'thorough_cmd': './check %s --tier thorough' % pid,
                'evidence_file': 'evidence/%s.json' % pid,
                'replay_cmd_template': './check %s --replay {path}' % pid,
                'engine': 'mirsym',
                'level_claimed': {'category': 'model_checking', 'text': c['text'], 'design_ref': c['ref']},
                'level_note': c['note'],
                'technique': 'symbolic execution of rustc MIR decided by z3 (SMT, bounded); native replay of counterexamples',
            })
    na = []
    for pid in ALL:
        if pid not in CLAIMED:
            na.append({'property_id': pid, 'reason': NOT_APPLICABLE.get(pid, PENDING)})
    m = {
        'version': 1,
        'setup_cmd': './setup.sh',
        'hooks': {'guard': 'none', 'enable': 'no hooks: checks execute the MIR of the unmodified source and replay through public entry points',
                  'baseline_off_cmd': 'cd /repo && cargo test --workspace --no-fail-fast --offline', 'source_commits': [], 'add_only': True},
        'engines': [{'name': 'mirsym', 'path': 'mirsym/', 'serves_properties': sorted(CLAIMED),
                     'kind_free_text': 'MIR dump (nightly rustc) -> Python symbolic executor with library models -> z3; Rust replayer (cw-multi-test) confirms counterexamples'}],
        'checks': checks,
        'not_applicable': na,
        'notes': 'exit codes: 0 all obligations unsat; 1 replay-confirmed VIOLATION; 2 inconclusive (unsupported construct, solver unknown, non-reproducing counterexample)',
    }
    json.dump(m, open('MANIFEST.json', 'w'), indent=1)


if __name__ == '__main__':
    main()
