#!/usr/bin/env python3
"""Regenerate MANIFEST.json from the table below (keeps it valid at all times)."""
import json

CLAIMED = {
    'C18': dict(
        text='Bounded symbolic execution of the real MIR of query_current_epoch / query_epoch with genesis, duration, block time and epoch id as '
             'unconstrained 64-bit symbols; every feasible path is decided by z3 (unsat of pre ∧ path ∧ ¬post). Full u64 ranges, no loop, so the only '
             'bound is the type width; counterexamples are replayed against the real contracts before being reported.',
        ref='DESIGN.md §6 C18',
        note='Trusted: rustc MIR lowering, the MIR executor and its library models (validated differentially against the native build), z3. '
             'The epoch configuration is assumed to satisfy duration >= 86400 (established by instantiate/update_config).'),
}
NOT_APPLICABLE = {
    'C19': 'numerical accuracy of three 255-round Newton iterations over 256/512-bit integers against the exact root: nested non-linear integer '
           'arithmetic that no available SMT back end decides at any useful bound (DESIGN.md §7); structural fragments are covered under C03/C04',
}
ALL = ['C%02d' % i for i in range(1, 21)]
PENDING = 'handler-level encoding not built yet (work in progress; see DESIGN.md §9 staging)'


def main():
    checks = []
    for pid in ALL:
        if pid in CLAIMED:
            c = CLAIMED[pid]
            checks.append({
                'property_id': pid,
                'quick_cmd': './check %s --tier quick' % pid,
                'thorough_cmd': './check %s --tier thorough' % pid,
                'evidence_file': 'evidence/%s.json' % pid,
                'replay_cmd_template': './check %s --replay {path}' % pid,
                'engine': 'mirsym',
                'level_claimed': {'category': 'model_checking', 'text': c['text'], 'design_ref': c['ref']},
                'level_note': c['note'],
                'technique': 'symbolic execution of rustc MIR decided by z3 (SMT, bounded); native replay of counterexamples',
            })
    na = []
    for pid in ALL:
        if pid not in CLAIMED:
            na.append({'property_id': pid, 'reason': NOT_APPLICABLE.get(pid, PENDING)})
    m = {
        'version': 1,
        'setup_cmd': './setup.sh',
        'hooks': {'guard': 'none', 'enable': 'no hooks: checks execute the MIR of the unmodified source and replay through public entry points',
                  'baseline_off_cmd': 'cd /repo && cargo test --workspace --no-fail-fast --offline', 'source_commits': [], 'add_only': True},
        'engines': [{'name': 'mirsym', 'path': 'mirsym/', 'serves_properties': sorted(CLAIMED),
                     'kind_free_text': 'MIR dump (nightly rustc) -> Python symbolic executor with library models -> z3; Rust replayer (cw-multi-test) confirms counterexamples'}],
        'checks': checks,
        'not_applicable': na,
        'notes': 'exit codes: 0 all obligations unsat; 1 replay-confirmed VIOLATION; 2 inconclusive (unsupported construct, solver unknown, non-reproducing counterexample)',
    }
    json.dump(m, open('MANIFEST.json', 'w'), indent=1)


if __name__ == '__main__':
    main()
